#!/usr/bin/env python3
"""Writes MANIFEST.json from the table below (keeps the manifest valid and current)."""
import json
import os

ROOT = os.path.dirname(os.path.dirname(os.path.abspath(__file__)))

COMMON_NOTE = ("Trusted: Lean 4.33 kernel (axioms audited per theorem: subset of propext, Classical.choice, Quot.sound; "
               "no sorry/native_decide/own axioms); the translator tools/extract_tables.py; the correspondence harness "
               "(differential testing: covers what it generated, distribution in the evidence); CPython and its "
               "standard library. ")

CLAIMED = {
    "C12": {
        "text": "Lean model of document-graph loading as two memoised depth-first traversals (imported_definitions "
                "over wsdl:import edges; one loaded_schemata pass per Definitions over xsd:import / xsd:include edges, "
                "with the Import.__locate shortcut) built on the generic traversal whose invariants are proved for "
                "every graph: definitions_fetched_at_most_once, schema_build_fetches_at_most_once, "
                "only_reachable_definitions / only_reachable_schemas, every_definitions_builds_once (termination within "
                "the fuel on cycles, self-imports and diamonds), imports_build_first; "
                "diamond_through_definitions_witness shows the per-Definitions memo (a shared schema document is "
                "fetched once per build). Reader-cache model (entry written only after fetch and parse): failed_fetch_caches_nothing, openAll_faithful, failed_load_then_retry (after a load that fails part-way the cache holds only complete correct documents and a retry delivers exactly what a clean first load delivers). Tied to suds by comparing the recorded fetch log of every generated "
                "partitioned WSDL with the model, and the resulting client with the single-document form; every "
                "transport fetch is then failed (TransportError / ill-formed XML) under cachingpolicy 0 and 1 and "
                "followed by a healthy retry and a warm load; the cache directory after each failed load is compared with the reader model.",
        "design_ref": "DESIGN.md section 6, C12",
        "note": "schema construction is exercised, not modelled; cache-file atomicity itself is C11.",
        "technique": "Lean 4 proof (DFS invariants reused from the dependency-sort model) + differential correspondence on fetch logs + fault injection at every fetch",
    },
    "C07": {
        "text": "Lean model of dependency_sort (depth-first with processed set, insertion-ordered dict) with theorems "
                "for EVERY dependency tree of any size: depsort_perm (cycles, self-loops, dangling edges: the result "
                "is a permutation of the keys; the recursion stays within its fuel) and depsort_dependencies_first "
                "(acyclic trees: every listed dependency that is a key stands earlier); models of QName qualification (qualify_prefix_names_do_not_matter, qualify_default_namespace_like_prefix, ...) and of same-namespace schema consolidation (consolidation_keeps_form, consolidation_moves_every_declaration, consolidation_keeps_prefixes); cycle_entry_witness proves the "
                "documented indirect-dependency contract fails on a cyclic tree (known finding D14). The models are tied "
                "to the code by running both on all digraphs <= 3 keys (+4 keys exhaustively, 5..7 sampled). "
                "Invariance under renderings is decided differentially: every generated interface is written in a "
                "canonical and several random renderings and the clients are compared on operations, parameters, "
                "requests (infoset), decoded replies and factory objects, and with the reference translator.",
        "design_ref": "DESIGN.md section 6, C07",
        "note": "XML text -> schema objects (Schema/SchemaCollection/merge) is exercised, not modelled; see PARTIAL.",
        "technique": "Lean 4 proof (DFS invariants, rank argument) + differential correspondence on all small digraphs + metamorphic differential check over generated rendering pairs",
    },
    "C03": {
        "text": "Lean model of Builder.build/process (attribute defaults, flattened content model, skip of choice "
                "branches, empty lists for repeating members, None for optional members and leaves, recursive "
                "pre-building of required complex children under a history) with theorems for every environment and "
                "type: skeleton_fields (the attribute names are exactly the attributes then the non-choice members of "
                "the flattened content model, in schema order, inherited first), choice_branch_absent, "
                "repeating_is_empty_list, leaf_is_none, optional_complex_is_none, required_complex_prebuilt, "
                "recursion_cut_off, attribute_defaults. Tied to suds by comparing factory.create for every type and "
                "wrapped input element of the generated family, under every resolving spelling of its name, with the "
                "model and a reference skeleton; filled objects are sent and compared with the equivalent dict's "
                "request; unknown names must raise TypeNotFound.",
        "design_ref": "DESIGN.md section 6, C03",
        "note": "name resolution (PathResolver) is exercised by the spellings, not modelled.",
        "technique": "Lean 4 proof (case analysis / induction over member lists) + differential correspondence on factory objects",
    },
    "C02": {
        "text": "Lean model of the typed unmarshaller working on the namespace-resolved infoset (xsi:type selection, "
                "attribute filtering, child accumulation, post-processing, reply shaping: single / list / composite, "
                "section-5 arrays) with theorems for every sequence of children: repeating_member_is_list (a repeating "
                "member is the list of its occurrences in document order, a list of one for one occurrence, absent for "
                "none), single_member_is_value, nil_is_none, data_is_object, leaf_is_typed_text, xsi_type_selects_type, "
                "flat_struct_roundtrip (marshal then decode returns the value for every flat struct type and every assignment of texts: absent, single, repeating of any length) and leaf/nil round trips with the C01 marshaller; witness theorem for known finding D32. Tied to suds by "
                "injecting, into real invocations, replies written by an independent writer in several presentations "
                "of one infoset and comparing the returned data with the model and with a reference decoder.",
        "design_ref": "DESIGN.md section 6, C02",
        "note": "parsing and prefix passes are the C04/C05 models; here their output (the infoset) is the model's input.",
        "technique": "Lean 4 proof (induction over child sequences) + differential correspondence on injected replies + independent writer/reference decoder",
    },
    "C01": {
        "text": "Lean model of the schema-driven marshaller (flattened content model with inherited members first, "
                "per-member skip / nil / xsi:type / namespace decisions, rpc and document wrappers, section-5 arrays) "
                "with theorems for every environment, type and value tree: members_inherited_first, marshal_names "
                "(every element written for an accessor has its name and form-rule namespace, at any depth), "
                "object_children_in_schema_order, optional_none_omitted, required_nillable_none_is_nil, "
                "xsi_type_iff_derived, object_attributes, array_type_and_length, encoded_every_element_typed (every element at every depth carries xsi:type under rpc/encoded), wrapped/rpc/bare_request_shape. Tied to suds by a whole-tree correspondence: the model, "
                "an independent Python reference translator and the bytes suds hands to the transport (read back by "
                "expat) are compared on every generated (interface, operation, argument tree, dict/object mode).",
        "design_ref": "DESIGN.md section 6, C01",
        "note": "schema documents are not modelled (C07 checks renderings behave alike); leaf lexical forms are C06.",
        "technique": "Lean 4 proof (induction over fuel/value trees) + differential correspondence against an expat-read request + Python reference translator",
    },
    "C04": {
        "text": "Lean theorems over the model of Encoder/Text/rendering: the five sequential re.sub passes over the "
                "GENERATED escape table equal one left-to-right pass; its output is well-formed for every string; an "
                "XML 1.0 reference reader recovers exactly the original for every string without an entity spelling "
                "(text: no CR; attribute: no TAB/LF/CR); escape is idempotent. The excluded points are proved to fail "
                "(witness theorems) and are known findings D10/D11. Model tied to the code by translator (tables) and "
                "by a correspondence on >20k strings per run; the property oracle (expat) runs on the real request, "
                "reply and standalone-tree paths.",
        "design_ref": "DESIGN.md section 6, C04",
        "note": "expat is the independent reader; the Lean reader covers character data and references only, not a full XML parser.",
        "technique": "Lean 4 proof (induction over strings) + translator-generated tables + differential correspondence",
    },
    "C08": {
        "text": "Lean theorem parse_refines_spec: for EVERY parameter forest (any shape/depth, sibling containers "
                "distinct), every positional/keyword vector and both settings of extraArgumentErrors, the frame-stack "
                "parser fed the flattened (name, optional, ancestry) list returns exactly what the recursive rule "
                "returns (required = sum over sequences / min over visible choice branches, allowed = leaf count, the "
                "(name, in_choice, value) sequence handed to the marshaller, the error kind and numbers). Corollaries: "
                "never rejected when checking is off; rejected iff choice conflict / leftover keyword / leftover "
                "positional. The model (frames, binding) is tied to suds/argparser.py by a correspondence against the "
                "real parse_args (all trees <= 3 leaves x all vectors, sampled to 6 leaves) and the Spec is run as "
                "oracle; real clients are checked for byte-identical requests across every positional/keyword split, "
                "dict / factory object with unwrap=False, exact TypeError text, nothing sent on rejection.",
        "design_ref": "DESIGN.md section 6 C08, appendix A.1",
        "note": "ancestry identity (`is`) modelled by unique ids; the sticky conflict flag models the immediate TypeError; "
                "object/dict equivalence with unwrap=False rests on the marshaller (checked on real clients, not proved).",
        "technique": "Lean 4 proof (mutual structural induction over the parameter tree; refinement of a stack machine "
                     "to a recursive spec) + differential correspondence against parse_args",
    },
    "C06": {
        "text": "Lean theorems over the model of sxbuiltin/date: boolean tables round-trip and accept exactly the four "
                "XSD lexicals (over the GENERATED tables); the type-name table maps every value-carrying built-in to "
                "its translator (generated); XDecimal output is digits-only [-]I[.F] denoting exactly digits x 10^exp "
                "for every digit list and exponent (no exponent notation, nothing rounded); fractional seconds of any "
                "length are rounded half-up to the microsecond; the +1us carry keeps times valid; timezone rules "
                "(00:00 -> UTC, hour >= 24 rejected, offset value); a decoded date/time/dateTime is never an "
                "impossible one; date_roundtrip / time_roundtrip / datetime_roundtrip: parse(isoformat(v)) = v for every valid "
                "date, time of day (with or without microseconds) and naive / UTC / fixed-offset zone below 24 h. "
                "Witness theorems for the known findings D13 (24:00:00 rejected) and D20 (date "
                "timezone not validated). The model (scanner for the three regexes, match->value functions, "
                "isoformat, decimal formatter) is tied to the code by a correspondence on ~60k cases per run; an "
                "independent XSD oracle (Fraction/datetime arithmetic) judges every decoded value, and real "
                "requests/replies are checked on the wire for every built-in type.",
        "design_ref": "DESIGN.md section 6 C06",
        "note": "int/float/Decimal parsing and printing, datetime construction and isoformat are CPython runtime "
                "(trusted, correspondence only); the isoformat->parse round trip is not proved in Lean (partial).",
        "technique": "Lean 4 proof (digit-list arithmetic, case analysis) + generated tables + differential correspondence",
    },
    "C19": {
        "text": "Lean theorems over the tree model (nodes carry identities): detach/remove implemented as 'first node "
                "that IS the given one' equals the specification 'erase the node named c' on every tree with unique "
                "identities (so never a same-named sibling; the rest of the tree untouched; the very subtree is handed "
                "back); removing a direct child = filter by identity (order kept); replaceChild locates the child by "
                "identity and the content lands exactly in its place in order; prune keeps exactly the children "
                "non-empty after their own pruning; clone yields fresh, pairwise distinct nodes and keeps text, "
                "attributes and names; getChild = head of getChildren. Witness theorem for D1 (eq-based removal hits "
                "the first same-named sibling; fixed in /repo). The model is tied to suds/sax/element.py by a "
                "correspondence on real Element objects: all 2-step (3 thorough) histories over a 7-node tree with "
                "four same-named siblings, and random histories up to length 25, compared node-for-node (identity, "
                "parent links, order, attributes, text, prefix tables, lookup results) after every step; clone "
                "equality/independence is checked on the real objects.",
        "design_ref": "DESIGN.md section 6 C19, appendix A.3",
        "note": "append/insert are exercised with detached nodes only; D21 (attribute prefix bound above a cloned "
                "sub-node) is a known finding; namespace equality of cloned elements is checked on the implementation, "
                "not proved.",
        "technique": "Lean 4 proof (mutual structural induction over the nested tree; impl search = erase-by-identity "
                     "spec) + differential correspondence on real Element objects",
    },
    "C09": {
        "text": "Lean theorem classification_table: for EVERY status (unbounded), body class and option setting the "
                "code's chain of tests (over the status sets GENERATED from process_reply) equals the documented "
                "table, which depends on the status only through its class {202/204, 200-or-none, 500, other}; "
                "corollaries: a fault is never returned as a value; 202/204 always None. The model is tied to "
                "_SoapClient.process_reply/send/_SimClient/RequestContext by enumerating the full product the "
                "property names (13 statuses x 7 bodies x faults x retxml x 4 delivery paths x 3 binding styles = 3840 "
                "cells) on the real client in both tiers and comparing outcome class and payload with model and table.",
        "design_ref": "DESIGN.md section 6 C09",
        "note": "body classes are represented by one document each; XML well-formedness is expat's judgement.",
        "technique": "Lean 4 proof (decision table by case analysis over an unbounded status) + generated status sets "
                     "+ exhaustive correspondence",
    },
    "C10": {
        "text": "Lean theorems over the selector model: selection_sound (for every WSDL shape, option setting and "
                "selector expression of any length a successful selection names a declared service, a port of THAT "
                "service and an operation of THAT port - no fall-through; an error carries no endpoint); unknown "
                "names / out-of-range indexes give ServiceNotFound / PortNotFound / MethodNotFound; a default port "
                "overrides every port subscript; single-service and default-service pass-through; attribute access "
                "uses first service / first port. Tied to suds/client.py selectors and wsdl.py (non-SOAP ports "
                "discarded, per-port method table) by invoking every selected method on real clients against a "
                "recording transport and comparing URL, SOAPAction and body wrapper with the model over generated "
                "WSDLs (0..3 services x 0..3 ports, two SOAP bindings and a non-SOAP one) x expressions of depth <= 3 "
                "x option settings; location override checked to be local to its client.",
        "design_ref": "DESIGN.md section 6 C10",
        "note": "negative indexes follow Python list semantics (modelled); location-override locality is checked on "
                "the implementation, its proof is the options theorem of C14.",
        "technique": "Lean 4 proof (invariant by induction over the selector steps) + differential correspondence "
                     "on generated WSDLs",
    },
    "C14": {
        "text": "Lean theorems over the model of Properties/Link/Definition/TpLinker with the option definition "
                "tables GENERATED from both options modules: names of the two domains are disjoint; an assignment "
                "with an unknown name or wrong type raises and changes nothing (validate precedes store) and those "
                "are exactly the rejected ones; a valid assignment is read back (default after None) and no other "
                "option changes; transport options set on the client are the ones its transport reads and vice "
                "versa; replacing the transport moves the link (new pair linked, old transport's options stand "
                "alone); two clients' options are independent in both directions. The model (provider search through "
                "links, re-linking, Client.clone) is tied to the code by running histories (all 2-step - 3 thorough - "
                "over representative options after a clone, constructor kwargs, random up to length 30 over every "
                "option of both domains) on real clients and comparing, after every step, every option read through "
                "every client's and every transport's options with the model.",
        "design_ref": "DESIGN.md section 6 C14",
        "note": "set_get/frame are proved for every option but `transport` (whose assignment also re-links: "
                "transport_replacement); object-valued options are compared by class; in-place mutation of shared "
                "default containers is outside the alphabet.",
        "technique": "Lean 4 proof (invariants of a linked property network, generated definition tables) + "
                     "history-based correspondence on real clients",
    },
    "C16": {
        "text": "Lean theorems over the dispatch model and the GENERATED tables (plugin domains, hook call sites of "
                "send/process_reply/DocumentReader/Client.__init__ in source order): the call sites are in the "
                "documented stage order; a stage calls exactly the plugins of the matching kind that override the "
                "hook, each once, in registration order (for every plugin list); without a reply only marshalled and "
                "sending run; the reply hooks reached are always a prefix of received, parsed, unmarshalled, depending "
                "on the status only through its class; fault / error status / retxml / 202-204 never reach "
                "unmarshalled. Tied to the code by running generated plugin lists (every single-hook and full plugin "
                "in every order up to length 2 - 3 thorough - plus random lists) on real clients with a recording "
                "transport: hook log (incl. URLs of document hooks, cold and warm document cache), bytes at the "
                "transport, envelope attributes, returned value and exception propagation compared with the model.",
        "design_ref": "DESIGN.md section 6 C16",
        "note": "stage data flow (each stage consumes what the previous hooks left) is checked on the implementation "
                "through order-revealing edits; it is not a Lean theorem (the model covers which hooks run, in which order).",
        "technique": "Lean 4 proof (list invariants over every plugin list, generated call-site tables) + differential correspondence",
    },
    "C20": {
        "text": "Lean theorems over the GENERATED table of parser construction sites (every function under suds/ that "
                "calls make_parser / ParserCreate / ... with the features it sets) and of modules importing another "
                "XML library: every site switches feature_external_ges off explicitly, there is no other XML "
                "library in use, and for every stream of external references a parser built at such a site takes no "
                "'resolve' action. Partial by nature: expat and xml.sax.expatreader are C/stdlib and trusted. The "
                "harness parses documents combining internal subsets with external general/parameter entities, "
                "external subsets, PUBLIC ids, nested and unparsed entities and XInclude look-alikes (file://, path, "
                "http://, ftp://, relative ids) as replies (inject, transport, RequestContext), WSDLs, imported "
                "schemas, cached documents and through Parser.parse, under sys.addaudithook: any open / socket / "
                "urllib event outside the cache directory, or planted marker content in the result, is a violation.",
        "design_ref": "DESIGN.md section 6 C20",
        "note": "the theorem is about suds' configuration and funnel only; a removed (rather than inverted) feature "
                "line changes no behaviour on Python >= 3.7.1 and is reported as no-failing-input-found.",
        "technique": "Lean 4 proof over a translator-generated configuration table + audit-hook fault search",
    },
    "C17": {
        "text": "Lean theorems over the model of Binding.headercontent: exactly one Security entry, first, iff a "
                "WS-Security object is configured; ready-made Elements are copied, all of them, in order (as long as "
                "no plain value is left without a declared part); plain values of a sequence are matched to the "
                "declared parts positionally and surplus values dropped; a dict is read in declared order with "
                "missing parts omitted, each entry tied to its own part; scalar and empty shapes. Tied to the code by "
                "generated WSDLs (0..3 header parts, simple and complex, each in its own namespace) x every shape of "
                "soapheaders x WS-Security configurations x call sequences re-using the same objects: the Header "
                "read by expat is compared entry by entry with the model (names, namespaces, marshalled values, "
                "verbatim copies), tokens are checked field by field (xsd:dateTime forms included), repeated calls "
                "must send the same headers and must leave the caller's Elements untouched.",
        "design_ref": "DESIGN.md section 6 C17",
        "note": "the contents of each entry (marshalling, token rendering) are checked on the implementation, not "
                "proved; list-valued header values are outside the alphabet (D15).",
        "technique": "Lean 4 proof (list recursion over the soapheaders shapes) + differential correspondence with expat as reader",
    },
    "C15": {
        "text": "Lean theorems: Base64 decode(encode bs) = bs for every byte string (RFC 4648 alphabet); a server "
                "decoding the Basic credentials per RFC 7617 recovers exactly user and password for all byte strings "
                "(no colon in the user); witness that the URL-safe alphabet breaks this (D9, fixed in /repo); every "
                "status outside 2xx maps to TransportError carrying that status; the body is transformed only for "
                "gzip/deflate. PARTIAL: sockets, urllib, cookie policy, gzip/zlib are runtime. A loopback HTTP server "
                "records raw requests: body bytes (0..64 KiB, non-UTF-8, both content codings each way), every caller "
                "header, Authorization decoded with a standard decoder (printable Unicode credentials), statuses "
                "200..599 with bodies, cookie histories (set/replace/expire/other path), refused/reset/silent "
                "connections, non-ASCII URLs rejected before any I/O.",
        "design_ref": "DESIGN.md section 6 C15",
        "note": "only the credential encoding, status mapping and coding selection are proved; everything on the "
                "socket is observed by the harness (differential against the server's view).",
        "technique": "Lean 4 proof (Base64 round trip by recursion on 3-byte groups, omega) + loopback-server observation",
    },
    "C11": {
        "text": "Lean theorem get_refines_map: along EVERY history of put/get/purge/clear/clock-advance/reopen/"
                "foreign-version/tear/vanish over any ids and instances (own durations) every lookup returns nothing "
                "or the object most recently stored under that id, and only while fresh for the asking instance "
                "(invariant: a file always carries - possibly damaged - bytes of the latest store); damaged and "
                "expired entries read as a miss and are removed; a foreign version stamp empties the cache. The "
                "model's one assumption (the decoder rejects damaged bytes) is validated by the crash sweep: cached "
                "documents and pickled WSDLs truncated at byte offsets and with zero-filled tails must read as None "
                "and be removed. Correspondence: exhaustive 3-step (4 thorough) and random histories on real "
                "ObjectCache/DocumentCache with patched clock/ctime; multi-process stress (never an exception, only "
                "values some process stored); write failures at open/write/close and an unwritable location; cold vs "
                "warm clients x policy x cache class (no fetch when warm, same fingerprint as cache-less, call-time "
                "options honoured, no cache write during invocations, ids do not alias).",
        "design_ref": "DESIGN.md section 6 C11",
        "note": "PARTIAL under concurrency: 'most recent' is not claimed for concurrent writers (OS may split writes); "
                "pickle/expat/file system are trusted; URL ids rely on MD5 not colliding.",
        "technique": "Lean 4 proof (invariant by induction over operation histories, refinement to a map) + "
                     "crash-point sweep + history correspondence",
    },
    "C05": {
        "text": "Lean model of promotePrefixes (threaded through the children exactly as the loop "
                "mutates), PrefixNormalizer and refitPrefixes over the shared tree model, and of the namespace-"
                "resolved infoset. Proved: promote_preserves_infoset - for EVERY namespace-well-formed tree (any size, "
                "depth, declaration tables) the infoset after promotePrefixes equals the one before (induction over the "
                "tree with the parent's table threaded through the children; the hypothesis is decidable, "
                "Elem.wellFormed, and the driver evaluates it on every generated tree); promoteStmt_false refutes the "
                "unguarded statement (an unbound prefix use is captured - not a namespace-well-formed document); the "
                "one-hoist lemmas; a kernel-checked witness that the un-repaired rule captures (D5, fixed in /repo) "
                "while the repaired one does not; promotion moves tables only; refit leaves no element prefix. PARTIAL "
                "for the normaliser and refitPrefixes (no whole-tree theorem): those rest on (a) correspondence model = code for all three passes on "
                "generated namespace-well-formed trees (shadowing, re-declaration, QName-valued attributes) and (b) "
                "the expat oracle: infoset before = infoset after, every prefix declared; end-to-end all 16 option "
                "settings x argument shapes (xsi:type, xsi:nil, qualified/unqualified, two namespaces, raw Elements, "
                "Element headers) pairwise infoset-equal.",
        "design_ref": "DESIGN.md section 6 C05, appendix A.2",
        "note": "known findings D24/D25 (prefixes=False with caller-supplied trees relying on default namespaces); "
                "D3, D4, D5, D23 were genuine defects fixed in /repo.",
        "technique": "Lean 4 proof of the hoist-step lemmas + kernel-checked counterexample for the old rule; "
                     "differential correspondence + independent XML reader as oracle",
    },
    "C18": {
        "text": "Lean model of MultiRef.process (catalogue by id, root filtering, href substitution "
                "with the referrer taking over children / text / attributes except id). Proved: outlined_body_decodes - "
                "for every reply content, every set of nodes moved out of line (nested ones included, any depth) and "
                "distinct ids, build_catalog + update over the writer's body return the inline tree (an encoder/decoder "
                "round trip by induction over the tree; catalogue lemmas); content without references is untouched; a "
                "dangling href leaves only that element unresolved; the body keeps exactly its SOAP roots. The decoded "
                "VALUES are checked, not proved: rpc/encoded reply values (structs, nested structs, arrays of "
                "simple and struct items, empty arrays) are written inlined and with random out-lining (any subset, "
                "shared targets, nested references, id spellings, placement, marked/unmarked roots, dangling hrefs) "
                "and must decode equal through the real client; MultiRef.process is compared with the model on every "
                "generated body; arrayType typing of untyped items and empty arrays checked.",
        "design_ref": "DESIGN.md section 6 C18",
        "note": "known finding D16 (unmarked multiRef placed before the response); references are assumed acyclic "
                "and placed on value elements.",
        "technique": "Lean 4 proof (mutual structural recursion over the tree with a nesting budget) + differential "
                     "correspondence + decode-equality oracle",
    },
    "C13": {
        "text": "PARTIAL by nature. Lean: (1) over tables GENERATED from the source: binding classes (shared by all "
                "calls) are not written outside __init__ and no Binding method uses a field holding a helper with "
                "per-use mutable state; the only stores on shared schema objects / the object factory are keyed cache "
                "fills; (2) noninterference theorem on the step model: with memo cells only, under EVERY interleaving "
                "of any number of calls each call observes what it observes alone; witness that one shared scratch "
                "variable breaks this (D6, fixed in /repo). Runtime atomicity is not modelled. The harness runs a "
                "controlled scheduler (sys.settrace + baton): thread A preempted after its k-th call/return event "
                "inside suds/, B runs to completion, A resumes - k swept over the invocation (all k thorough, "
                "uniform sample quick) for document, rpc and rpc/encoded multiref replies and for clone(); random "
                "schedules with up to 3 line-level preemptions among 2..4 threads; returned values and request bytes "
                "compared with the sequential run; shared WSDL objects fingerprinted before/after invocations.",
        "design_ref": "DESIGN.md section 6 C13",
        "note": "switches inside C code and real GIL timing are not exercised; custom Transport classes must provide "
                "__deepcopy__ for clone() (the harness's recording transport does, like HttpTransport).",
        "technique": "Lean 4 proof (invariant over all interleavings of a step model) + generated write-set tables + "
                     "systematic schedule exploration with a deterministic scheduler",
    },
}

NOT_YET = "check not built yet in this round (design in DESIGN.md section 6); not claimed"


def main():
    props = [json.loads(l) for l in open(os.path.join(ROOT, "properties.jsonl"))]
    checks, na = [], []
    for p in props:
        pid = p["id"]
        if pid in CLAIMED:
            c = CLAIMED[pid]
            checks.append({
                "property_id": pid,
                "quick_cmd": "./check %s --tier quick" % pid,
                "thorough_cmd": "./check %s --tier thorough" % pid,
                "evidence_file": "evidence/%s.json" % pid,
                "replay_cmd_template": "./check %s --replay {path}" % pid,
                "engine": "lean4-model+correspondence",
                "level_claimed": {"category": "proof", "text": c["text"], "design_ref": c["design_ref"]},
                "level_note": COMMON_NOTE + c["note"],
                "technique": c["technique"],
            })
        else:
            na.append({"property_id": pid, "reason": NOT_YET})
    m = {
        "version": 1,
        "setup_cmd": "cd lean && lake build",
        "hooks": {
            "guard": "SUDS_VERIF",
            "enable": "no hooks are needed: every observation point is reachable from outside (nosend, __inject, "
                      "recording transport/store, sys.settrace, sys.addaudithook)",
            "baseline_off_cmd": "cd /repo && /venv/bin/python -m pytest -ra -q -p no:cacheprovider --timeout=900 "
                                "--continue-on-collection-errors",
            "source_commits": [],
            "add_only": True,
        },
        "engines": [{
            "name": "lean4-model+correspondence",
            "path": "lean/ (models, theorems, driver), harness/ (correspondence, oracles), tools/extract_tables.py (translator)",
            "serves_properties": [c["property_id"] for c in checks],
            "kind_free_text": "machine-checked proof in Lean 4 over a model tied to the code by a translator and a "
                              "behavioural correspondence check",
        }],
        "checks": checks,
        "not_applicable": na,
        "notes": "See DESIGN.md. ./check <ID> --tier quick|thorough; VIOLATION / KNOWN-FINDING protocol in DESIGN.md section 4.",
    }
    with open(os.path.join(ROOT, "MANIFEST.json"), "w") as f:
        json.dump(m, f, indent=1)
        f.write("\n")


if __name__ == "__main__":
    main()
