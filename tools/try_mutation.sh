#!/bin/bash
# try_mutation.sh <seed-dir with patch.diff, demo.py, meta.json> <PROP> [tier]
# Confirms the mutation (demo passes clean / fails mutated, suite passes mutated) and runs ./check on it.
# Every invocation works in its own scratch worktree and output folder, so several may run side by side.
set -u
d="$1"; prop="$2"; tier="${3:-quick}"
wt=$(mktemp -d /tmp/trymut.XXXXXX); rmdir "$wt"
out="$wt.out"; mkdir -p "$out"
git -C /repo worktree add -q "$wt" HEAD || exit 9
cleanup() { git -C /repo worktree remove --force "$wt" >/dev/null 2>&1; rm -rf "$out"; }
trap cleanup EXIT
cd "$wt"
PYTHONPATH="$wt" /venv/bin/python "$d/demo.py" >"$out/clean.out" 2>&1; c=$?
if ! git apply "$d/patch.diff"; then echo "RESULT patch-does-not-apply"; exit 8; fi
PYTHONPATH="$wt" /venv/bin/python "$d/demo.py" >"$out/mut.out" 2>&1; m=$?
t=$(PYTHONPATH="$wt" /venv/bin/python -m pytest -q -p no:cacheprovider --timeout=900 tests 2>&1 | tail -1)
echo "demo clean rc=$c mutated rc=$m ; suite: $t"
cd /verif
VERIF_EVIDENCE_DIR="$out/evidence" VERIF_REPO="$wt" ./check "$prop" --tier "$tier" > "$out/check.out" 2>&1; rc=$?
grep -E "^VIOLATION|^FAIL|^DISAGREE|^BROKEN" "$out/check.out" | cut -c1-400 | head -6
echo "RESULT check rc=$rc"
