#!/bin/bash
# run_all.sh <tier> <seed>...   runs every claimed check for each seed (evidence to a scratch dir); prints alarms
tier="$1"; shift
props=$(/venv/bin/python -c "import json;print(' '.join(c['property_id'] for c in json.load(open('/verif/MANIFEST.json'))['checks']))")
out=/tmp/runall.$$; mkdir -p $out
for seed in "$@"; do
  for p in $props; do
    echo "$p $seed"
  done
done | xargs -P 6 -L 1 bash -c 'VERIF_EVIDENCE_DIR='$out'/ev.$1 VERIF_SEED=$1 timeout 3000 /verif/check $0 --tier '$tier' > '$out'/$0.$1.log 2>&1; echo "$0 seed=$1 rc=$?"'
grep -l "^VIOLATION" $out/*.log 2>/dev/null
echo "logs in $out"
