#!/usr/bin/env python3
"""Translator: /repo/suds (Python source, read with `ast`, never imported) -> Lean tables.

Regenerates lean/SudsModel/Gen/Tables.lean from the *current* working tree of the
repository.  Every table the Lean theorems quantify over lives there, so a table edit in
the code changes the statement being proved.  When a table is not found in a recognisable
form the translator raises TranslatorError (the caller reports the correspondence as
broken; it never silently keeps an old table).

Usage: extract_tables.py <repo> <out.lean>   (writes only when the content changed)
"""
import ast
import os
import re
import sys


class TranslatorError(Exception):
    pass


# ---------------------------------------------------------------- Lean literal helpers

def lchar(c):
    o = ord(c)
    if c == "'":
        return "'\\''"
    if c == "\\":
        return "'\\\\'"
    if 32 <= o < 127:
        return "'%s'" % c
    return "(Char.ofNat %d)" % o


def lchars(s):
    return "[" + ", ".join(lchar(c) for c in s) + "]"


def lstr(s):
    out = []
    for c in s:
        o = ord(c)
        if c == '"':
            out.append('\\"')
        elif c == "\\":
            out.append("\\\\")
        elif 32 <= o < 127:
            out.append(c)
        else:
            out.append("\\u{%x}" % o)
    return '"' + "".join(out) + '"'


def llist(items):
    return "[" + ", ".join(items) + "]"


def lbool(b):
    return "true" if b else "false"


def lopt_str(s):
    return "none" if s is None else "(some %s)" % lstr(s)


# ---------------------------------------------------------------- ast helpers

def parse(repo, rel):
    path = os.path.join(repo, rel)
    try:
        with open(path, encoding="utf-8") as f:
            return ast.parse(f.read(), filename=path)
    except (OSError, SyntaxError) as e:
        raise TranslatorError("cannot parse %s: %s" % (rel, e))


def find_class(tree, name, rel):
    for node in ast.walk(tree):
        if isinstance(node, ast.ClassDef) and node.name == name:
            return node
    raise TranslatorError("class %s not found in %s" % (name, rel))


def find_func(node, name, where):
    for n in node.body:
        if isinstance(n, (ast.FunctionDef, ast.AsyncFunctionDef)) and n.name == name:
            return n
    raise TranslatorError("function %s not found in %s" % (name, where))


def class_assign(cls, name, rel):
    for n in cls.body:
        if isinstance(n, ast.Assign):
            for t in n.targets:
                if isinstance(t, ast.Name) and t.id == name:
                    return n.value
    raise TranslatorError("%s.%s not found in %s" % (cls.name, name, rel))


def module_assign(tree, name, rel):
    for n in tree.body:
        if isinstance(n, ast.Assign):
            for t in n.targets:
                if isinstance(t, ast.Name) and t.id == name:
                    return n.value
    raise TranslatorError("module variable %s not found in %s" % (name, rel))


def lit(node, what):
    try:
        return ast.literal_eval(node)
    except Exception:
        raise TranslatorError("%s is not a literal: %s" % (what, ast.dump(node)[:120]))


# ---------------------------------------------------------------- tables

def t_encoder(repo, out):
    rel = "suds/sax/enc.py"
    tree = parse(repo, rel)
    cls = find_class(tree, "Encoder", rel)
    enc = lit(class_assign(cls, "encodings", rel), "Encoder.encodings")
    dec = lit(class_assign(cls, "decodings", rel), "Encoder.decodings")
    special = lit(class_assign(cls, "special", rel), "Encoder.special")
    rules = []
    for pat, rep in enc:
        m = re.fullmatch(r"&\(\?!\(([A-Za-z0-9|]+)\);\)", pat)
        if m:
            names = m.group(1).split("|")
            rules.append("EncRule.amp %s %s" % (llist(lchars(n) for n in names), lchars(rep)))
        elif len(pat) == 1 and pat not in ".^$*+?{}[]\\|()":
            rules.append("EncRule.chr %s %s" % (lchar(pat), lchars(rep)))
        else:
            raise TranslatorError("Encoder.encodings pattern %r not recognised" % (pat,))
    out.append("/-- `Encoder.encodings`: one rule per `re.sub`, in source order. -/")
    out.append("inductive EncRule where\n  | amp (lookahead : List (List Char)) (repl : List Char)\n"
               "  | chr (c : Char) (repl : List Char)\n  deriving Repr, DecidableEq")
    out.append("def encodings : List EncRule :=\n  %s" % llist(rules))
    out.append("/-- `Encoder.decodings`: `str.replace` pairs in source order. -/")
    out.append("def decodings : List (List Char × List Char) :=\n  %s"
               % llist("(%s, %s)" % (lchars(a), lchars(b)) for a, b in dec))
    out.append("/-- `Encoder.special`. -/")
    for c in special:
        if len(c) != 1:
            raise TranslatorError("Encoder.special entry %r is not one character" % (c,))
    out.append("def encSpecial : List Char := %s" % lchars("".join(special)))
    # structure of Encoder.encode / decode: the guard functions
    enc_fn = find_func(cls, "encode", rel)
    dec_fn = find_func(cls, "decode", rel)
    src_enc = ast.unparse(enc_fn)
    src_dec = ast.unparse(dec_fn)
    if "re.sub(x[0], x[1], s)" not in src_enc or "needs_encoding" not in src_enc:
        raise TranslatorError("Encoder.encode no longer has the modelled shape")
    if "s.replace(x[0], x[1])" not in src_dec or "'&' in s" not in src_dec:
        raise TranslatorError("Encoder.decode no longer has the modelled shape")


def t_namespaces(repo, out):
    rel = "suds/sax/__init__.py"
    tree = parse(repo, rel)
    cls = find_class(tree, "Namespace", rel)
    for name in ("xmlns", "xsdns", "xsins"):
        p, u = lit(class_assign(cls, name, rel), "Namespace." + name)
        out.append("def ns_%s : String × String := (%s, %s)" % (name, lstr(p), lstr(u)))
    # PrefixNormalizer.skip
    rel2 = "suds/sax/element.py"
    tree2 = parse(repo, rel2)
    pn = find_class(tree2, "PrefixNormalizer", rel2)
    skip = find_func(pn, "skip", rel2)
    src = ast.unparse(skip)
    names = re.findall(r"Namespace\.(\w+)", src)
    if "ns is None" not in src or not names:
        raise TranslatorError("PrefixNormalizer.skip no longer has the modelled shape")
    out.append("/-- `PrefixNormalizer.skip`: namespaces (by `Namespace` attribute name) never renamed. -/")
    out.append("def normalizerSkip : List String := %s" % llist(lstr(n) for n in names))
    el = find_class(tree2, "Element", rel2)
    sp = ast.unparse(class_assign(el, "specialprefixes", rel2))
    if sp.replace(" ", "") != "{Namespace.xmlns[0]:Namespace.xmlns[1]}":
        raise TranslatorError("Element.specialprefixes changed: %s" % sp)
    out.append("def specialPrefixes : List (String × String) := [ns_xmlns]")


def t_boolean(repo, out):
    rel = "suds/xsd/sxbuiltin.py"
    tree = parse(repo, rel)
    cls = find_class(tree, "XBoolean", rel)
    x2p = lit(class_assign(cls, "_xml_to_python", rel), "XBoolean._xml_to_python")
    p2x = lit(class_assign(cls, "_python_to_xml", rel), "XBoolean._python_to_xml")
    out.append("/-- `XBoolean._xml_to_python`. -/")
    out.append("def boolXmlToPython : List (String × Bool) := %s"
               % llist("(%s, %s)" % (lstr(k), lbool(v)) for k, v in x2p.items()))
    keys = []
    for k, v in p2x.items():
        # keys are True/False/1/0 (True==1 in Python dict!): record the effective dict
        keys.append("(%s, %s)" % (lbool(bool(k)), lstr(v)))
    out.append("/-- `XBoolean._python_to_xml` (effective dict: `True == 1`, `False == 0` collapse). -/")
    out.append("def boolPythonToXml : List (Bool × String) := %s" % llist(keys))
    # builtin type map
    fac = find_class(tree, "Factory", rel)
    tags = class_assign(fac, "tags", rel)
    if not isinstance(tags, ast.Dict):
        raise TranslatorError("sxbuiltin.Factory.tags is not a dict literal")
    pairs = []
    for k, v in zip(tags.keys, tags.values):
        kk = lit(k, "Factory.tags key")
        if not isinstance(v, ast.Name):
            raise TranslatorError("Factory.tags value for %r is not a class name" % (kk,))
        pairs.append("(%s, %s)" % (lstr(kk), lstr(v.id)))
    out.append("/-- `sxbuiltin.Factory.tags`: XSD builtin type name -> translator class name. -/")
    out.append("def builtinTags : List (String × String) :=\n  %s" % llist(pairs))


def t_parser_sites(repo, out):
    """C20: every place under suds/ that constructs an XML parser, and the features set."""
    sites = []
    ctor_names = {"make_parser", "ParserCreate", "XMLParser", "create_parser", "expatreader",
                  "parseString", "fromstring", "XMLPullParser", "iterparse", "minidom", "pulldom"}
    for root, _dirs, files in os.walk(os.path.join(repo, "suds")):
        for fn in sorted(files):
            if not fn.endswith(".py"):
                continue
            rel = os.path.relpath(os.path.join(root, fn), repo)
            tree = parse(repo, rel)
            for func in ast.walk(tree):
                if not isinstance(func, (ast.FunctionDef, ast.AsyncFunctionDef)):
                    continue
                made = []
                feats = []
                for n in ast.walk(func):
                    if isinstance(n, ast.Call):
                        f = n.func
                        name = f.id if isinstance(f, ast.Name) else (f.attr if isinstance(f, ast.Attribute) else None)
                        if name in ctor_names:
                            made.append(name)
                        if name == "setFeature" and len(n.args) == 2:
                            a0 = n.args[0]
                            fname = a0.id if isinstance(a0, ast.Name) else (a0.attr if isinstance(a0, ast.Attribute) else ast.unparse(a0))
                            try:
                                val = ast.literal_eval(n.args[1])
                            except Exception:
                                val = None
                            feats.append((fname, None if val is None else bool(val)))
                if made:
                    sites.append((rel, func.name, made, feats))
    out.append("/-- C20: functions under suds/ that construct an XML parser: (file, function, "
               "constructor calls, features set as (name, some value | none if not a literal)). -/")
    items = []
    for rel, fn, made, feats in sorted(sites):
        items.append("(%s, %s, %s, %s)" % (
            lstr(rel), lstr(fn), llist(lstr(m) for m in made),
            llist("(%s, %s)" % (lstr(a), "none" if b is None else "some " + lbool(b)) for a, b in feats)))
    out.append("def parserSites : List (String × String × List String × List (String × Option Bool)) :=\n  %s"
               % llist(items))
    # who calls Parser() / saxparser: the funnel
    users = []
    for root, _dirs, files in os.walk(os.path.join(repo, "suds")):
        for fn in sorted(files):
            if not fn.endswith(".py"):
                continue
            rel = os.path.relpath(os.path.join(root, fn), repo)
            src = open(os.path.join(root, fn), encoding="utf-8").read()
            if re.search(r"\bxml\.(dom|etree|parsers)|\bimport\s+(expat|lxml)|from\s+(lxml|xml\.etree|xml\.dom|xml\.parsers)", src):
                users.append(rel)
    out.append("/-- C20: suds modules importing any *other* XML parsing library (must be empty). -/")
    out.append("def otherXmlLibUsers : List String := %s" % llist(lstr(u) for u in sorted(users)))


def t_reply_status(repo, out):
    """C09: the status sets `_SoapClient.process_reply` switches on."""
    import http.client as hc
    rel = "suds/client.py"
    tree = parse(repo, rel)
    cls = find_class(tree, "_SoapClient", rel)
    fn = find_func(cls, "process_reply", rel)
    sets = []
    default = None
    for n in ast.walk(fn):
        if isinstance(n, ast.Compare) and len(n.ops) == 1 and isinstance(n.ops[0], ast.In) \
                and isinstance(n.left, ast.Name) and n.left.id == "status" \
                and isinstance(n.comparators[0], (ast.Tuple, ast.List)):
            names = []
            for e in n.comparators[0].elts:
                if isinstance(e, ast.Attribute) and hasattr(hc, e.attr):
                    names.append(int(getattr(hc, e.attr)))
                elif isinstance(e, ast.Constant) and isinstance(e.value, int):
                    names.append(e.value)
                else:
                    raise TranslatorError("process_reply: unrecognised status constant %s" % ast.unparse(e))
            sets.append((n.lineno, names))
        if isinstance(n, ast.If) and isinstance(n.test, ast.Compare) and isinstance(n.test.left, ast.Name) \
                and n.test.left.id == "status" and isinstance(n.test.ops[0], ast.Is) \
                and isinstance(n.test.comparators[0], ast.Constant) and n.test.comparators[0].value is None:
            a = n.body[0]
            if isinstance(a, ast.Assign) and isinstance(a.value, ast.Attribute) and hasattr(hc, a.value.attr):
                default = int(getattr(hc, a.value.attr))
    sets.sort()
    if len(sets) != 2 or default is None:
        raise TranslatorError("process_reply no longer has the modelled shape (status sets %r, default %r)" % (sets, default))
    out.append("/-- `_SoapClient.process_reply`: status assumed when none is given. -/")
    out.append("def replyDefaultStatus : Nat := %d" % default)
    out.append("/-- statuses answered with `None` before anything else is looked at. -/")
    out.append("def replyAcceptedStatuses : List Nat := %s" % llist(str(x) for x in sets[0][1]))
    out.append("/-- statuses whose body is parsed and searched for a SOAP fault. -/")
    out.append("def replyParsedStatuses : List Nat := %s" % llist(str(x) for x in sets[1][1]))


def _option_defs(repo, rel, out, lean_name):
    tree = parse(repo, rel)
    cls = find_class(tree, "Options", rel)
    init = find_func(cls, "__init__", rel)
    defs = None
    for n in ast.walk(init):
        if isinstance(n, ast.Assign) and isinstance(n.targets[0], ast.Name) and n.targets[0].id == "definitions":
            defs = n.value
    if not isinstance(defs, ast.List):
        raise TranslatorError("%s: Options.__init__ has no `definitions = [...]` list" % rel)
    items = []
    for d in defs.elts:
        if not (isinstance(d, ast.Call) and isinstance(d.func, ast.Name) and d.func.id == "Definition"
                and len(d.args) in (3, 4)):
            raise TranslatorError("%s: unrecognised option definition %s" % (rel, ast.unparse(d)))
        name = lit(d.args[0], "option name")
        c = d.args[1]
        if isinstance(c, ast.Tuple):
            classes = [ast.unparse(e) for e in c.elts]
        else:
            classes = [ast.unparse(c)]
        default = ast.unparse(d.args[2])
        linker = ast.unparse(d.args[3]) if len(d.args) == 4 else ""
        items.append("⟨%s, %s, %s, %s⟩" % (lstr(name), llist(lstr(x) for x in classes), lstr(default), lstr(linker)))
    out.append("def %s : List OptDef :=\n  %s" % (lean_name, llist(items)))


def t_options(repo, out):
    """C14: the option definitions of both domains (name, accepted classes, default, linker)."""
    out.append("structure OptDef where\n  name : String\n  classes : List String\n  default : String\n"
               "  linker : String\n  deriving Repr, DecidableEq")
    _option_defs(repo, "suds/options.py", out, "clientOptionDefs")
    _option_defs(repo, "suds/transport/options.py", out, "transportOptionDefs")


def _hook_calls(func, domain):
    """Names of `plugins.<domain>.<hook>(...)` calls in source order."""
    found = []
    for n in ast.walk(func):
        if isinstance(n, ast.Call) and isinstance(n.func, ast.Attribute) and isinstance(n.func.value, ast.Attribute) \
                and n.func.value.attr == domain:
            found.append((n.lineno, n.col_offset, n.func.attr))
    return [h for _l, _c, h in sorted(found)]


def t_plugins(repo, out):
    """C16: plugin domains and the hook call sites, in source order."""
    rel = "suds/plugin.py"
    tree = parse(repo, rel)
    pc = find_class(tree, "PluginContainer", rel)
    dom = class_assign(pc, "domains", rel)
    if not isinstance(dom, ast.Dict):
        raise TranslatorError("PluginContainer.domains is not a dict literal")
    pairs = []
    for k, v in zip(dom.keys, dom.values):
        if not (isinstance(v, ast.Tuple) and len(v.elts) == 2 and isinstance(v.elts[1], ast.Name)):
            raise TranslatorError("PluginContainer.domains entry not recognised")
        pairs.append((lit(k, "domain"), v.elts[1].id))
    out.append("/-- `PluginContainer.domains`: domain name -> plugin base class. -/")
    out.append("def pluginDomains : List (String × String) := %s"
               % llist("(%s, %s)" % (lstr(a), lstr(b)) for a, b in pairs))
    hooks = {}
    for node in tree.body:
        if isinstance(node, ast.ClassDef) and node.name in [b for _a, b in pairs]:
            hooks[node.name] = [f.name for f in node.body if isinstance(f, ast.FunctionDef)]
    out.append("/-- hooks each plugin base class declares. -/")
    out.append("def pluginHooks : List (String × List String) := %s"
               % llist("(%s, %s)" % (lstr(k), llist(lstr(h) for h in v)) for k, v in sorted(hooks.items())))
    rel2 = "suds/client.py"
    t2 = parse(repo, rel2)
    sc = find_class(t2, "_SoapClient", rel2)
    out.append("/-- message hooks called by `_SoapClient.send`, in source order. -/")
    out.append("def sendHookCalls : List String := %s" % llist(lstr(h) for h in _hook_calls(find_func(sc, "send", rel2), "message")))
    out.append("/-- message hooks called by `_SoapClient.process_reply`, in source order. -/")
    out.append("def replyHookCalls : List String := %s"
               % llist(lstr(h) for h in _hook_calls(find_func(sc, "process_reply", rel2), "message")))
    rel3 = "suds/reader.py"
    t3 = parse(repo, rel3)
    dr = find_class(t3, "DocumentReader", rel3)
    fetch = None
    for f in dr.body:
        if isinstance(f, ast.FunctionDef) and f.name.endswith("__fetch"):
            fetch = f
    if fetch is None:
        raise TranslatorError("DocumentReader.__fetch not found")
    out.append("/-- document hooks called by `DocumentReader.__fetch` / `.open`. -/")
    out.append("def fetchHookCalls : List String := %s" % llist(lstr(h) for h in _hook_calls(fetch, "document")))
    out.append("def openHookCalls : List String := %s"
               % llist(lstr(h) for h in _hook_calls(find_func(dr, "open", rel3), "document")))
    ci = find_func(find_class(t2, "Client", rel2), "__init__", rel2)
    out.append("def initHookCalls : List String := %s" % llist(lstr(h) for h in _hook_calls(ci, "init")))


def _self_writes(cls):
    """(method, target, shape) for stores through `self` outside __init__."""
    out = []
    for f in cls.body:
        if not isinstance(f, ast.FunctionDef) or f.name == "__init__":
            continue
        for n in ast.walk(f):
            targets = []
            if isinstance(n, ast.Assign):
                targets = n.targets
            elif isinstance(n, (ast.AugAssign, ast.AnnAssign)):
                targets = [n.target]
            for t in targets:
                if isinstance(t, ast.Attribute) and isinstance(t.value, ast.Name) and t.value.id in ("self", "cls"):
                    out.append((f.name, t.attr, "attr"))
                if isinstance(t, ast.Subscript) and isinstance(t.value, ast.Attribute) \
                        and isinstance(t.value.value, ast.Name) and t.value.value.id in ("self", "cls"):
                    out.append((f.name, t.value.attr, "item"))
            if isinstance(n, ast.Call) and isinstance(n.func, ast.Attribute) and n.func.attr in (
                    "append", "extend", "insert", "pop", "remove", "clear", "update", "setdefault") \
                    and isinstance(n.func.value, ast.Attribute) and isinstance(n.func.value.value, ast.Name) \
                    and n.func.value.value.id in ("self", "cls"):
                out.append((f.name, n.func.value.attr, "mutate"))
    return out


def t_shared_state(repo, out):
    """C13: state written after construction on the objects all invocations of a client share."""
    binding_files = ["suds/bindings/binding.py", "suds/bindings/document.py", "suds/bindings/rpc.py"]
    writes = []
    stateful = {}
    for rel in binding_files + ["suds/bindings/multiref.py"]:
        tree = parse(repo, rel)
        for node in tree.body:
            if isinstance(node, ast.ClassDef):
                w = _self_writes(node)
                if rel.endswith("multiref.py"):
                    if w:
                        stateful[node.name] = w
                else:
                    writes += [("%s.%s" % (node.name, m), t, k) for m, t, k in w]
    out.append("/-- C13: stores through `self` in binding classes outside `__init__` (bindings are shared by all calls). -/")
    out.append("def bindingMethodWrites : List (String × String × String) := %s"
               % llist("(%s, %s, %s)" % (lstr(a), lstr(b), lstr(c)) for a, b, c in sorted(set(writes))))
    # helper objects with mutable per-use state that a binding keeps in a field and uses in a method
    rel = "suds/bindings/binding.py"
    tree = parse(repo, rel)
    cls = find_class(tree, "Binding", rel)
    fields = {}
    init = find_func(cls, "__init__", rel)
    for n in ast.walk(init):
        if isinstance(n, ast.Assign) and isinstance(n.value, ast.Call) and isinstance(n.value.func, ast.Name) \
                and n.value.func.id in stateful:
            for t in n.targets:
                if isinstance(t, ast.Attribute) and isinstance(t.value, ast.Name) and t.value.id == "self":
                    fields[t.attr] = n.value.func.id
    uses = []
    for f in cls.body:
        if isinstance(f, ast.FunctionDef) and f.name != "__init__":
            for n in ast.walk(f):
                if isinstance(n, ast.Call) and isinstance(n.func, ast.Attribute) and isinstance(n.func.value, ast.Attribute) \
                        and isinstance(n.func.value.value, ast.Name) and n.func.value.value.id == "self" \
                        and n.func.value.attr in fields:
                    uses.append((f.name, n.func.value.attr, fields[n.func.value.attr]))
    out.append("/-- C13: calls on a binding *field* holding a helper with per-use mutable state (method, field, class). -/")
    out.append("def sharedStatefulHelperUses : List (String × String × String) := %s"
               % llist("(%s, %s, %s)" % (lstr(a), lstr(b), lstr(c)) for a, b, c in sorted(set(uses))))
    # the two memo caches on shared objects
    memo = []
    t = parse(repo, "suds/xsd/sxbasic.py")
    tc = find_class(t, "TypedContent", "suds/xsd/sxbasic.py")
    memo += [("TypedContent.%s" % m, tg, k) for m, tg, k in _self_writes(tc)]
    t = parse(repo, "suds/sudsobject.py")
    fc = find_class(t, "Factory", "suds/sudsobject.py")
    memo += [("sudsobject.Factory.%s" % m, tg, k) for m, tg, k in _self_writes(fc)]
    out.append("/-- C13: stores on shared schema objects / the class-level object factory. -/")
    out.append("def sharedMemoWrites : List (String × String × String) := %s"
               % llist("(%s, %s, %s)" % (lstr(a), lstr(b), lstr(c)) for a, b, c in sorted(set(memo))))


TABLES = [t_encoder, t_namespaces, t_boolean, t_parser_sites, t_reply_status, t_options, t_plugins, t_shared_state]


def generate(repo):
    out = ["-- GENERATED by tools/extract_tables.py from the repository source. Do not edit.",
           "namespace Suds.Gen", ""]
    for t in TABLES:
        t(repo, out)
        out.append("")
    out.append("end Suds.Gen")
    return "\n".join(out) + "\n"


def main(argv):
    repo, dest = argv[1], argv[2]
    try:
        text = generate(repo)
    except TranslatorError as e:
        print("TRANSLATOR-ERROR: %s" % e)
        return 3
    old = None
    if os.path.exists(dest):
        with open(dest, encoding="utf-8") as f:
            old = f.read()
    if old != text:
        os.makedirs(os.path.dirname(dest), exist_ok=True)
        with open(dest + ".tmp", "w", encoding="utf-8") as f:
            f.write(text)
        os.replace(dest + ".tmp", dest)
        print("tables: rewritten")
    else:
        print("tables: unchanged")
    return 0


if __name__ == "__main__":
    sys.exit(main(sys.argv))
