#!/bin/sh
# Runs the repository's pinned suite; exits 0 only when exactly the baseline passes.
cd /repo && out=$(/venv/bin/python -m pytest -q -p no:cacheprovider --timeout=900 2>&1 | tail -1)
echo "$out"
case "$out" in "1817 passed, 26 xfailed"*) exit 0;; *) exit 1;; esac
