#!/usr/bin/env python3
"""Validate MANIFEST.json and evidence files against the schemas (uses python3-vt's jsonschema)."""
import json, sys, glob, os
import jsonschema
root = os.path.dirname(os.path.dirname(os.path.abspath(__file__)))
ms = json.load(open("/root/.vp/MANIFEST.schema.json"))
es = json.load(open("/root/.vp/EVIDENCE.schema.json"))
m = json.load(open(os.path.join(root, "MANIFEST.json")))
jsonschema.validate(m, ms)
print("MANIFEST ok:", len(m["checks"]), "checks,", len(m.get("not_applicable", [])), "not applicable")
ids = {c["property_id"] for c in m["checks"]} | {n["property_id"] for n in m.get("not_applicable", [])}
props = [json.loads(l)["id"] for l in open(os.path.join(root, "properties.jsonl"))]
missing = [p for p in props if p not in ids]
print("unlisted properties:", missing)
for f in sorted(glob.glob(os.path.join(root, "evidence", "*.json"))):
    e = json.load(open(f))
    jsonschema.validate(e, es)
    c = e["coverage"]
    print(os.path.basename(f), "ok", e["tier"], "obl %s/%s" % (c.get("discharged"), c.get("obligations")),
          "eval", c.get("evaluations"), "viol", e.get("violations"))
