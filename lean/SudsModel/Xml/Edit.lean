import SudsModel.Xml.Tree
/-!
Model of the tree-editing and lookup API of `suds/sax/element.py` (C19). The state is a forest:
every root is a node whose `parent` is `None`; nodes are addressed by identity (`id`).
Child-list surgery searches by identity (`is`), as the repaired code does; `eraseFirstBy` with
another equivalence models what `list.remove/index/in` do with `Element.__eq__`.
-/
namespace Suds.Xml

abbrev Forest := List Elem

/-- Python `list.remove(x)` under an equivalence: erase the first equivalent element. -/
def eraseFirstBy (eqv : Elem → Bool) : List Elem → List Elem
  | [] => []
  | k :: ks => if eqv k then ks else k :: eraseFirstBy eqv ks

def indexBy (eqv : Elem → Bool) : List Elem → Option Nat
  | [] => none
  | k :: ks => if eqv k then some 0 else (indexBy eqv ks).map (· + 1)

mutual
  /-- The node with identity `i` (first in document order). -/
  def Elem.find (i : Nat) : Elem → Option Elem
    | .mk j p n e m a t kids => if j = i then some (.mk j p n e m a t kids) else findKids i kids
  def findKids (i : Nat) : List Elem → Option Elem
    | [] => none
    | k :: ks => match k.find i with
      | some r => some r
      | none => findKids i ks
end

mutual
  /-- Apply `f` to the node with identity `i`. -/
  def Elem.update (i : Nat) (f : Elem → Elem) : Elem → Elem
    | .mk j p n e m a t kids =>
      if j = i then f (.mk j p n e m a t kids) else .mk j p n e m a t (updateKids i f kids)
  def updateKids (i : Nat) (f : Elem → Elem) : List Elem → List Elem
    | [] => []
    | k :: ks => k.update i f :: updateKids i f ks
end

mutual
  /-- Remove the (first) *descendant* with identity `i` from its parent's child list
  (`child.detach()` when the child has a parent). Returns the pruned tree and the removed node. -/
  def Elem.cut (i : Nat) : Elem → Elem × Option Elem
    | .mk j p n e m a t kids =>
      let r := cutKids i kids
      (.mk j p n e m a t r.1, r.2)
  def cutKids (i : Nat) : List Elem → List Elem × Option Elem
    | [] => ([], none)
    | k :: ks =>
      if k.id = i then (ks, some k)
      else
        let r := k.cut i
        match r.2 with
        | some x => (r.1 :: ks, some x)
        | none =>
          let r2 := cutKids i ks
          (k :: r2.1, r2.2)
end

mutual
  /-- Context (scopes of the ancestors, innermost first) of the node `i` inside a tree whose own
  context is `ctx`; `none` when `i` is not in the tree. -/
  def Elem.ctxOf (i : Nat) (ctx : Ctx) : Elem → Option Ctx
    | .mk j _ _ e m _ _ kids => if j = i then some ctx else ctxOfKids i ((m, e) :: ctx) kids
  def ctxOfKids (i : Nat) (ctx : Ctx) : List Elem → Option Ctx
    | [] => none
    | k :: ks => match k.ctxOf i ctx with
      | some r => some r
      | none => ctxOfKids i ctx ks
end

mutual
  /-- Identity of the parent of node `i`. -/
  def Elem.parentOf (i : Nat) : Elem → Option Nat
    | .mk j _ _ _ _ _ _ kids => if kids.any (·.id == i) then some j else parentOfKids i kids
  def parentOfKids (i : Nat) : List Elem → Option Nat
    | [] => none
    | k :: ks => match k.parentOf i with
      | some r => some r
      | none => parentOfKids i ks
end

def Forest.find (f : Forest) (i : Nat) : Option Elem := findKids i f
def Forest.update (f : Forest) (i : Nat) (g : Elem → Elem) : Forest := updateKids i g f
def Forest.isRoot (f : Forest) (i : Nat) : Bool := f.any (·.id == i)
def Forest.ctxOf (f : Forest) (i : Nat) : Ctx := (ctxOfKids i [] f).getD []
def Forest.parentOf (f : Forest) (i : Nat) : Option Nat := parentOfKids i f

/-- `Element.detach()` -/
def Forest.detach (f : Forest) (i : Nat) : Forest :=
  if f.isRoot i then f
  else
    let r := f.foldl (fun (acc : List Elem × Option Elem) t =>
      match acc.2 with
      | some _ => (acc.1 ++ [t], acc.2)
      | none => let c := t.cut i; (acc.1 ++ [c.1], c.2)) ([], none)
    match r.2 with
    | some x => r.1 ++ [x]
    | none => f

/-- Remove a root from the forest and return it (used to re-attach a detached node). -/
def Forest.takeRoot (f : Forest) (i : Nat) : Forest × Option Elem :=
  match f.find? (·.id == i) with
  | some r => (f.filter (·.id != i), some r)
  | none => (f, none)

mutual
  def Elem.contains (i : Nat) : Elem → Bool
    | .mk j _ _ _ _ _ _ kids => j == i || containsKids i kids
  def containsKids (i : Nat) : List Elem → Bool
    | [] => false
    | k :: ks => k.contains i || containsKids i ks
end

/-- `list.insert(index, x)` with a non-negative index. -/
def insertAt (xs : List Elem) (idx : Nat) (x : Elem) : List Elem := xs.take idx ++ [x] ++ xs.drop idx

/-- `parent.append(child)` / `parent.insert(child, index)` for a child that is currently a root and
does not contain `parent` (`idx = none`: append). Other calls leave the forest unchanged (they
are outside the modelled alphabet: the code would alias the node or create a cycle). -/
def Forest.attach (f : Forest) (parent child : Nat) (idx : Option Nat) : Forest :=
  match f.takeRoot child with
  | (f', some c) =>
    if c.contains parent || (f'.find parent).isNone then f
    else f'.update parent fun p => p.setKids (match idx with
      | none => p.kids ++ [c]
      | some k => insertAt p.kids k c)
  | (_, none) => f

/-- `Element.detachChildren()` -/
def Forest.detachChildren (f : Forest) (i : Nat) : Forest :=
  match f.find i with
  | some p => f.update i (·.setKids []) ++ p.kids
  | none => f

mutual
  /-- `Element.isempty(False)` after pruning / `Element.prune()`: drop the children that end up
  with no children, no text and no attributes. -/
  def Elem.prune : Elem → Elem
    | .mk j p n e m a t kids => .mk j p n e m a t (pruneKids kids)
  def pruneKids : List Elem → List Elem
    | [] => []
    | k :: ks =>
      let k' := k.prune
      if k'.kids.isEmpty && k'.text.isNone && k'.attrs.isEmpty then pruneKids ks else k' :: pruneKids ks
end

def Forest.prune (f : Forest) (i : Nat) : Forest := f.update i Elem.prune

/-- `parent.replaceChild(child, content)`; `none` = `Exception("child not-found")`.
Mirrors the code step by step: index of the child by identity, `child.detach()`, then each
content node is detached from wherever it is and inserted at `index`, `index + 1`, … -/
def Forest.replaceChild (f : Forest) (parent child : Nat) (content : List Nat) : Option Forest :=
  match f.find parent with
  | none => none
  | some p =>
    match indexBy (·.id == child) p.kids with
    | none => none
    | some idx =>
      let f1 := f.detach child
      let step := fun (acc : Forest × Nat) (n : Nat) =>
        let g := acc.1.detach n
        match g.takeRoot n with
        | (g', some c) =>
          if c.contains parent then acc
          else (g'.update parent (fun q => q.setKids (insertAt q.kids acc.2 c)), acc.2 + 1)
        | (_, none) => acc
      some (content.foldl step (f1, idx)).1

/-- `Element.getAttribute(name, ns)` index in the attribute list. -/
def getAttrIdx (e : Elem) (ctx : Ctx) (qname : String) : Option Nat :=
  let sp := splitPrefix qname
  let ns : Option (Option String) := match sp.1 with
    | none => none
    | some p => some (resolvePrefix p (e.scope :: ctx))
  e.attrs.findIdx? fun a => attrMatch a (e.scope :: ctx) (some sp.2) ns

/-- The attribute `Element.set(name, value)` assigns to: an unqualified name names an unqualified
attribute only (`type` is not `xsi:type`); a prefixed one is looked up like `getAttribute`. -/
def setAttrIdx (e : Elem) (ctx : Ctx) (qname : String) : Option Nat :=
  match (splitPrefix qname).1 with
  | none => e.attrs.findIdx? fun a => a.pfx.isNone && a.name == (splitPrefix qname).2
  | some _ => getAttrIdx e ctx qname

/-- The attribute list after `Element.set(name, value)`: the attribute it names gets the value, in
place; when there is none a new one is appended. -/
def attrsAfterSet (e : Elem) (ctx : Ctx) (qname value : String) : List Attr :=
  match setAttrIdx e ctx qname with
  | some k => e.attrs.set k { (e.attrs.getD k ⟨none, "", ""⟩) with value := value }
  | none => let sp := splitPrefix qname; e.attrs ++ [⟨sp.1, sp.2, value⟩]

/-- The attribute list after `Element.unset(name)`: the one attribute `getAttribute(name)` finds is
removed; nothing happens when there is none. -/
def attrsAfterUnset (e : Elem) (ctx : Ctx) (qname : String) : List Attr :=
  match getAttrIdx e ctx qname with
  | some k => e.attrs.eraseIdx k
  | none => e.attrs

/-- `Element.set(name, value)` -/
def Forest.setAttr (f : Forest) (i : Nat) (qname value : String) : Forest :=
  let ctx := f.ctxOf i
  f.update i fun e => e.setAttrs (attrsAfterSet e ctx qname value)

/-- `Element.unset(name)` -/
def Forest.unsetAttr (f : Forest) (i : Nat) (qname : String) : Forest :=
  let ctx := f.ctxOf i
  f.update i fun e => e.setAttrs (attrsAfterUnset e ctx qname)

def Forest.setText (f : Forest) (i : Nat) (t : String) : Forest := f.update i (·.setText (some t))

/-- `Element.rename(name)` -/
def Forest.rename (f : Forest) (i : Nat) (qname : String) : Forest :=
  let sp := splitPrefix qname
  f.update i fun e => (e.setPfx sp.1).setName sp.2

/-- `Element.setPrefix(p, u)` -/
def Forest.setPrefix (f : Forest) (i : Nat) (p : Option String) (u : Option String) : Forest :=
  f.update i fun e =>
    match p, u with
    | some pp, some uu => ((e.setPfx p).setExpns none).setNsp (dictSet e.nsp pp uu)
    | _, _ => e.setPfx p

mutual
  /-- `Element.clone()`: `Element(qname, parent, self.namespace())`, text, attributes, cloned
  children, then the prefix table. Fresh identities are taken from `next` in document order. -/
  def Elem.clone (ctx : Ctx) (next : Nat) : Elem → Elem × Nat
    | .mk _ p n e m a t kids =>
      let ns := nsOf p ((m, e) :: ctx)
      -- applyns((prefix, uri)): a prefix-less node gets expns := uri; else prefix mapped first
      let (expns', nsp0) : Option String × List (String × String) :=
        match p with
        | none => (ns, [])
        | some pp => (none, match ns with | some u => [(pp, u)] | none => [])
      let r := cloneKids ((m, e) :: ctx) (next + 1) kids
      (.mk next p n expns' (m.foldl (fun acc kv => dictSet acc kv.1 kv.2) nsp0) a t r.1, r.2)
  def cloneKids (ctx : Ctx) (next : Nat) : List Elem → List Elem × Nat
    | [] => ([], next)
    | k :: ks =>
      let r := k.clone ctx next
      let r2 := cloneKids ctx r.2 ks
      (r.1 :: r2.1, r2.2)
end

def Forest.clone (f : Forest) (i : Nat) (next : Nat) : Forest :=
  match f.find i with
  | some e => f ++ [(e.clone (f.ctxOf i) next).1]
  | none => f

/-! ### lookups -/

def nsArg (e : Elem) (ctx : Ctx) (qname : String) : Option String × Option (Option String) :=
  let sp := splitPrefix qname
  (some sp.2, match sp.1 with
    | none => none
    | some p => some (resolvePrefix p (e.scope :: ctx)))

/-- `Element.getChild(name)` (name may carry a prefix, resolved at the parent). -/
def getChild (e : Elem) (ctx : Ctx) (qname : String) : Option Elem :=
  let a := nsArg e ctx qname
  e.kids.find? fun c => elemMatch c (e.scope :: ctx) a.1 a.2

/-- `Element.getChildren(name)` -/
def getChildren (e : Elem) (ctx : Ctx) (qname : Option String) : List Elem :=
  match qname with
  | none => e.kids
  | some q =>
    let a := nsArg e ctx q
    e.kids.filter fun c => elemMatch c (e.scope :: ctx) a.1 a.2

/-- `Element.childAtPath(path)` -/
def childAtPath (e : Elem) (ctx : Ctx) (parts : List String) : Option Elem :=
  let step := fun (acc : Option (Elem × Ctx) × Option Elem) (name : String) =>
    match acc.1 with
    | none => acc
    | some (node, c) =>
      match getChild node c name with
      | some r => (some (r, node.scope :: c), some r)
      | none => (none, none)
  (parts.foldl step (some (e, ctx), none)).2

/-- The node reached from `e` by a path of child names (each step: the first matching child). -/
def walkPath (e : Elem) (ctx : Ctx) : List String → Option (Elem × Ctx)
  | [] => some (e, ctx)
  | name :: rest =>
    match getChild e ctx name with
    | some r => walkPath r (e.scope :: ctx) rest
    | none => none

/-- `Element.childrenAtPath(path)`: every child matching the last step (its prefix resolved there)
of the node the other steps lead to; nothing when a step is missing. A path without steps is
rejected by the implementation (never sent by the harness). -/
def childrenAtPath (e : Elem) (ctx : Ctx) (parts : List String) : List Elem :=
  match parts.getLast? with
  | none => []
  | some leaf =>
    match walkPath e ctx parts.dropLast with
    | some (node, c) => getChildren node c (some leaf)
    | none => []

end Suds.Xml
