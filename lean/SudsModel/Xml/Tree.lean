import SudsModel.Gen.Tables
/-!
The XML element tree of `suds/sax/element.py` as a value: every node carries an identity (`id`,
standing for Python object identity). Namespace resolution is written against the chain of
ancestors (innermost first), which replaces the `parent` pointers. No Mathlib import.
-/
namespace Suds.Xml
open Suds.Gen

structure Attr where
  pfx : Option String
  name : String
  value : String
  deriving Repr, DecidableEq, BEq

inductive Elem where
  | mk (id : Nat) (pfx : Option String) (name : String) (expns : Option String)
       (nsp : List (String × String)) (attrs : List Attr) (text : Option String) (kids : List Elem)
  deriving Repr

namespace Elem
def id : Elem → Nat | mk i _ _ _ _ _ _ _ => i
def pfx : Elem → Option String | mk _ p _ _ _ _ _ _ => p
def name : Elem → String | mk _ _ n _ _ _ _ _ => n
def expns : Elem → Option String | mk _ _ _ e _ _ _ _ => e
def nsp : Elem → List (String × String) | mk _ _ _ _ m _ _ _ => m
def attrs : Elem → List Attr | mk _ _ _ _ _ a _ _ => a
def text : Elem → Option String | mk _ _ _ _ _ _ t _ => t
def kids : Elem → List Elem | mk _ _ _ _ _ _ _ k => k
def setKids : Elem → List Elem → Elem | mk i p n e m a t _, k => mk i p n e m a t k
def setAttrs : Elem → List Attr → Elem | mk i p n e m _ t k, a => mk i p n e m a t k
def setText : Elem → Option String → Elem | mk i p n e m a _ k, t => mk i p n e m a t k
def setNsp : Elem → List (String × String) → Elem | mk i p n e _ a t k, m => mk i p n e m a t k
def setPfx : Elem → Option String → Elem | mk i _ n e m a t k, p => mk i p n e m a t k
def setName : Elem → String → Elem | mk i p _ e m a t k, n => mk i p n e m a t k
def setExpns : Elem → Option String → Elem | mk i p n _ m a t k, e => mk i p n e m a t k
end Elem

/-- One level of namespace context: a node's own prefix table and explicit default namespace. -/
abbrev Scope := List (String × String) × Option String
/-- Context of a node: its own scope first, then its ancestors', innermost first. -/
abbrev Ctx := List Scope

def Elem.scope (e : Elem) : Scope := (e.nsp, e.expns)

def lookup (p : String) (m : List (String × String)) : Option String := (m.find? (·.1 == p)).map (·.2)

/-- dict update: replace an existing key in place, else append (Python dict order). -/
def dictSet (m : List (String × String)) (k v : String) : List (String × String) :=
  if m.any (·.1 == k) then m.map (fun kv => if kv.1 == k then (k, v) else kv) else m ++ [(k, v)]

/-- `Element.resolvePrefix(prefix)` evaluated at a node whose context is `ctx`
(own mappings, then the special `xml` prefix, then the ancestors). `none` = `(None, None)`. -/
def resolvePrefix (p : String) : Ctx → Option String
  | [] => none
  | (m, _) :: rest =>
    match lookup p m with
    | some u => some u
    | none =>
      match lookup p specialPrefixes with
      | some u => some u
      | none => resolveUp p rest
where resolveUp (p : String) : Ctx → Option String
  | [] => none
  | (m, _) :: rest =>
    match lookup p m with
    | some u => some u
    | none => resolveUp p rest

/-- `Element.defaultNamespace()` -/
def defaultNs : Ctx → Option String
  | [] => none
  | (_, some u) :: _ => some u
  | (_, none) :: rest => defaultNs rest

/-- `Element.namespace()[1]` of a node with prefix `pfx` in context `ctx`. -/
def nsOf (pfx : Option String) (ctx : Ctx) : Option String :=
  match pfx with
  | none => defaultNs ctx
  | some p => resolvePrefix p ctx

/-- `Element.match(name, ns)` — `ns = none` means "any namespace"; `some u` compares the URI
(`u = none` is the `(None, None)` namespace). -/
def elemMatch (e : Elem) (ctx : Ctx) (name : Option String) (ns : Option (Option String)) : Bool :=
  (match name with | none => true | some n => e.name == n) &&
  (match ns with | none => true | some u => nsOf e.pfx (e.scope :: ctx) == u)

/-- `Attribute.namespace()[1]`: no prefix → no namespace; else resolved at the owner. -/
def attrNs (a : Attr) (ownerCtx : Ctx) : Option String :=
  match a.pfx with
  | none => none
  | some p => resolvePrefix p ownerCtx

def attrMatch (a : Attr) (ownerCtx : Ctx) (name : Option String) (ns : Option (Option String)) : Bool :=
  (match name with | none => true | some n => a.name == n) &&
  (match ns with | none => true | some u => attrNs a ownerCtx == u)

/-- `splitPrefix(name)` -/
def splitPrefix (s : String) : Option String × String :=
  match s.splitOn ":" with
  | [] => (none, s)
  | [_] => (none, s)
  | p :: rest => (some p, ":".intercalate rest)

mutual
  def Elem.size : Elem → Nat
    | .mk _ _ _ _ _ _ _ kids => 1 + sizeKids kids
  def sizeKids : List Elem → Nat
    | [] => 0
    | k :: ks => k.size + sizeKids ks
end

mutual
  /-- All node identities, in document order. -/
  def Elem.ids : Elem → List Nat
    | .mk i _ _ _ _ _ _ kids => i :: idsKids kids
  def idsKids : List Elem → List Nat
    | [] => []
    | k :: ks => k.ids ++ idsKids ks
end

end Suds.Xml
