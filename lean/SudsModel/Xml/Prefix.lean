import SudsModel.Xml.Tree
/-!
Model of the namespace-prefix passes of `suds/sax/element.py` used by `Binding.get_message` /
`get_reply`: `promotePrefixes`, `PrefixNormalizer` (`normalizePrefixes`), `refitPrefixes`, and of the
namespace-resolved *infoset* an XML processor reads from a tree. No Mathlib import.
-/
namespace Suds.Xml
open Suds.Gen

abbrev Table := List (String × String)

def tableErase (p : String) (t : Table) : Table := t.filter (·.1 != p)

/-! ### infoset -/

/-- An attribute value as a namespace-aware reader that knows it may be a QName sees it: when it
has the shape `p:rest` and `p` is bound in scope, the pair (URI, rest); else the literal. -/
inductive AVal where
  | lit (s : String)
  | qname (uri : String) (localName : String)
  deriving Repr, DecidableEq

structure IAttr where
  ns : Option String
  name : String
  value : AVal
  deriving Repr, DecidableEq

inductive Info where
  | mk (ns : Option String) (name : String) (attrs : List IAttr) (text : Option String) (kids : List Info)
  deriving Repr

def avalOf (v : String) (ctx : Ctx) : AVal :=
  match (splitPrefix v).1 with
  | none => .lit v
  | some p => match resolvePrefix p ctx with
    | some u => .qname u (splitPrefix v).2
    | none => .lit v

mutual
  /-- The infoset of `e` read in context `ctx` (scopes of the ancestors). -/
  def Elem.info (ctx : Ctx) : Elem → Info
    | .mk _ p n e m a t kids =>
      let c : Ctx := (m, e) :: ctx
      .mk (nsOf p c) n (a.map fun x => ⟨attrNs x c, x.name, avalOf x.value c⟩) t (infoKids c kids)
  def infoKids (ctx : Ctx) : List Elem → List Info
    | [] => []
    | k :: ks => k.info ctx :: infoKids ctx ks
end

mutual
  def Info.beq : Info → Info → Bool
    | .mk n1 l1 a1 t1 k1, .mk n2 l2 a2 t2 k2 => n1 == n2 && l1 == l2 && a1 == a2 && t1 == t2 && beqKids k1 k2
  def beqKids : List Info → List Info → Bool
    | [], [] => true
    | a :: as, b :: bs => a.beq b && beqKids as bs
    | _, _ => false
end

/-! ### promotePrefixes -/

/-- The loop `for p, u in list(self.nsprefixes.items())` of a node whose parent has prefix
`ppfx`, table `pt` and ancestor context `gamma`. `fixed`: the repaired rule (no capture). Returns
(the node's remaining table, the parent's table). -/
def hoist (fixed : Bool) (gamma : Ctx) (ppfx : Option String) (pexpns : Option String) :
    Table → Table → Table → Table × Table
  | [], own, pt => (own, pt)
  | (p, u) :: rest, own, pt =>
    match lookup p pt with
    | some pu =>
      if pu == u then hoist fixed gamma ppfx pexpns rest (tableErase p own) pt
      else hoist fixed gamma ppfx pexpns rest own pt
    | none =>
      if ppfx == some p then hoist fixed gamma ppfx pexpns rest own pt
      else
        let inherited := resolvePrefix p ((pt, pexpns) :: gamma)
        if fixed && (match inherited with | some u' => u' != u | none => false) then
          hoist fixed gamma ppfx pexpns rest own pt
        else hoist fixed gamma ppfx pexpns rest (tableErase p own) (dictSet pt p u)

mutual
  /-- `Element.promotePrefixes()` of a node that has a parent (prefix `ppfx`, table `pt`, explicit
  namespace `pexpns`, ancestors `gamma`). Returns the rewritten node and the parent's new table. -/
  def Elem.promoteIn (fixed : Bool) (gamma : Ctx) (ppfx : Option String) (pexpns : Option String) (pt : Table) :
      Elem → Elem × Table
    | .mk i p n e m a t kids =>
      let r := promoteKids fixed ((pt, pexpns) :: gamma) p e m kids
      let h := hoist fixed gamma ppfx pexpns r.1 r.1 pt
      (.mk i p n e h.1 a t r.2, h.2)
  /-- The children loop of a node with prefix `spfx`, explicit namespace `sexpns`, table `st`
  (threaded through the children in order) and ancestors `gamma`. -/
  def promoteKids (fixed : Bool) (gamma : Ctx) (spfx : Option String) (sexpns : Option String) (st : Table) :
      List Elem → Table × List Elem
    | [] => (st, [])
    | k :: ks =>
      let r := k.promoteIn fixed gamma spfx sexpns st
      let r2 := promoteKids fixed gamma spfx sexpns r.2 ks
      (r2.1, r.1 :: r2.2)
end

/-- `root.promotePrefixes()` on a tree without parent (context `gamma` = []). -/
def Elem.promote (fixed : Bool) : Elem → Elem
  | .mk i p n e m a t kids =>
    let r := promoteKids fixed [] p e m kids
    .mk i p n e r.1 a t r.2

/-! ### PrefixNormalizer -/

def xsdUri := ns_xsdns.2
def xsiUri := ns_xsins.2
def xmlUri := ns_xmlns.2

/-- `PrefixNormalizer.skip((p, u))` for a resolved namespace tuple. -/
def skipNs (p : String) (u : String) : Bool :=
  (p, u) == ns_xsdns || (p, u) == ns_xsins || (p, u) == ns_xmlns

/-- Resolution returning the (prefix, uri) tuple `Element.resolvePrefix` returns. -/
def newPrefix (assign : List (String × String)) (u : String) : Option String :=
  (assign.find? (·.1 == u)).map (·.2)

/-- new prefix for a use of prefix `p` in context `c` (none: leave as is). -/
def renamed (assign : List (String × String)) (p : String) (c : Ctx) : Option String :=
  match resolvePrefix p c with
  | none => none
  | some u => if skipNs p u then none else newPrefix assign u

def refitValue (assign : List (String × String)) (v : String) (c : Ctx) : String :=
  match (splitPrefix v).1 with
  | none => v
  | some p => match renamed assign p c with
    | some q => q ++ ":" ++ (splitPrefix v).2
    | none => v

mutual
  /-- `refitNodes` + `refitMappings` below the normalised node: new prefixes, tables emptied. -/
  def Elem.renameIn (assign : List (String × String)) (ctx : Ctx) : Elem → Elem
    | .mk i p n e m a t kids =>
      let c : Ctx := (m, e) :: ctx
      let p' := match p with
        | none => none
        | some q => some ((renamed assign q c).getD q)
      let a' := a.map fun x =>
        { pfx := match x.pfx with
            | none => none
            | some q => some ((renamed assign q c).getD q),
          name := x.name, value := refitValue assign x.value c }
      .mk i p' n e [] a' t (renameKids assign c kids)
  def renameKids (assign : List (String × String)) (ctx : Ctx) : List Elem → List Elem
    | [] => []
    | k :: ks => k.renameIn assign ctx :: renameKids assign ctx ks
end

/-- `node.normalizePrefixes()` where `node` sits below ancestors `ctx`; `assign`: the
(URI, new prefix) pairs in the order `genPrefixes` enumerated the namespace set. -/
def Elem.normalize (assign : List (String × String)) (ctx : Ctx) (e : Elem) : Elem :=
  let r := e.renameIn assign ctx
  r.setNsp (assign.map fun (u, p) => (p, u))

mutual
  /-- The namespace URIs `PrefixNormalizer.getNamespaces` collects from a branch. -/
  def Elem.nsUris : Elem → List String
    | .mk _ _ _ e m _ _ kids =>
      (match e with | some u => [u] | none => []) ++
      (m.filter (fun pu => !skipNs pu.1 pu.2)).map (·.2) ++ nsUrisKids kids
  def nsUrisKids : List Elem → List String
    | [] => []
    | k :: ks => k.nsUris ++ nsUrisKids ks
end

/-! ### refitPrefixes (prefixes=False) -/

mutual
  /-- `Element.refitPrefixes()`: children first, then the node: prefix → explicit namespace; an
  unprefixed node in no namespace below a prefixed ancestor gets the empty default namespace; only
  the mappings its own attributes still use are kept. `below`: some ancestor has a prefix. -/
  def Elem.refit (ctx : Ctx) (below : Bool) : Elem → Elem
    | .mk i p n e m a t kids =>
      let c : Ctx := (m, e) :: ctx
      let kids' := refitKids c (below || p.isSome) kids
      let e' := match p with
        | none => if e.isNone && (defaultNs c).isNone && below then some "" else e
        | some q => match resolvePrefix q c with
          | some u => some u
          | none => e
      let used := a.foldl (fun acc x =>
        let acc1 := match x.pfx with
          | some q => if acc.any (·.1 == q) || q == ns_xmlns.1 then acc else
              (match resolvePrefix q c with | some u => acc ++ [(q, u)] | none => acc)
          | none => acc
        match (splitPrefix x.value).1 with
          | some q => if acc1.any (·.1 == q) || q == ns_xmlns.1 then acc1 else
              (match resolvePrefix q c with | some u => acc1 ++ [(q, u)] | none => acc1)
          | none => acc1) ([] : Table)
      .mk i none n e' used a t kids'
  def refitKids (ctx : Ctx) (below : Bool) : List Elem → List Elem
    | [] => []
    | k :: ks => k.refit ctx below :: refitKids ctx below ks
end

end Suds.Xml
