import SudsModel.Xml.Tree
/-!
Model of `suds/bindings/multiref.py` (`MultiRef.process/build_catalog/update/replace_references/
soaproot`) over the tree model. The in-place sharing of the Python code (referenced children are
appended to every referrer as the same objects) is modelled by substitution. No Mathlib import.
-/
namespace Suds.Xml

def soapencUri : String := "http://schemas.xmlsoap.org/soap/encoding/"

/-- `node.getAttribute('href')` (any namespace, first match). -/
def hrefOf (e : Elem) : Option (Nat × String) :=
  match e.attrs.findIdx? (·.name == "href") with
  | some i => some (i, (e.attrs.getD i ⟨none, "", ""⟩).value)
  | none => none

/-- `node.get('id')` -/
def idOf (e : Elem) : Option String := (e.attrs.find? (·.name == "id")).map (·.value)

/-- `MultiRef.soaproot`: no `soapenc:root` attribute, or its value is `1`. -/
def soaproot (e : Elem) (ctx : Ctx) : Bool :=
  match e.attrs.find? (fun a => attrMatch a (e.scope :: ctx) (some "root") (some (some soapencUri))) with
  | none => true
  | some a => a.value == "1"

abbrev Catalog := List (String × Elem)

def catalogGet (k : String) (c : Catalog) : Option Elem := ((c.reverse).find? (·.1 == k)).map (·.2)

/-- `build_catalog`: ids of the body's children (a later duplicate id wins). -/
def buildCatalog (kids : List Elem) : Catalog :=
  kids.filterMap fun k => (idOf k).map fun i => ("#" ++ i, k)

mutual
  /-- `update(node)`: `replace_references(node)` then the children (including the ones just
  taken over from the referenced node). `fuel` bounds the nesting depth of references. -/
  def Elem.resolve (cat : Catalog) : Nat → Elem → Elem
    | 0, e => e
    | fuel + 1, .mk i p n x m a t kids =>
      let self := Elem.mk i p n x m a t kids
      match hrefOf self with
      | none => .mk i p n x m a t (resolveKids cat fuel kids)
      | some (hi, key) =>
        match catalogGet key cat with
        | none => .mk i p n x m a t (resolveKids cat fuel kids)
        | some ref =>
          let a' := a.eraseIdx hi ++ ref.attrs.filter (·.name != "id")
          let t' := match ref.text with | some "" => none | other => other
          .mk i p n x m a' t' (resolveKids cat fuel (kids ++ ref.kids))
  def resolveKids (cat : Catalog) : Nat → List Elem → List Elem
    | _, [] => []
    | fuel, k :: ks => k.resolve cat fuel :: resolveKids cat fuel ks
end

/-- `MultiRef.process(body)`: the body keeps only its SOAP roots, references resolved. -/
def processBody (fuel : Nat) (body : Elem) (ctx : Ctx) : Elem :=
  let cat := buildCatalog body.kids
  let roots := body.kids.filter fun k => soaproot k (body.scope :: ctx)
  body.setKids (resolveKids cat fuel roots)

end Suds.Xml
