/-!
Model of `ServiceSelector` / `PortSelector` / `MethodSelector` (suds/client.py). Services and
ports are the lists left after `Service.do_resolve` discarded the non-SOAP ports. No imports.
-/
namespace Suds.Select

structure Port where
  name : String
  methods : List String
  deriving Repr, DecidableEq

structure Service where
  name : String
  ports : List Port
  deriving Repr, DecidableEq

/-- A subscript / option value: a name or a (Python) integer index. -/
inductive Key where
  | name (s : String)
  | idx (i : Int)
  deriving Repr, DecidableEq

inductive Step where
  | attr (n : String)
  | item (k : Key)
  deriving Repr, DecidableEq

inductive ErrK where
  | noServices        -- Exception("No services defined")
  | noPorts           -- Exception("No ports defined: …")
  | serviceNotFound
  | portNotFound
  | methodNotFound
  | badStep           -- a step the selector grammar does not have (TypeError / AttributeError)
  deriving Repr, DecidableEq

inductive Val where
  | svcSel
  | portSel (s : Nat)
  | methSel (s p : Nat)
  | method (s p : Nat) (m : String)
  deriving Repr, DecidableEq

structure Opts where
  service : Option Key
  port : Option Key
  deriving Repr, DecidableEq

/-- Python `list[i]` for an `int` index (negative indexes count from the end). -/
def pyIndex (len : Nat) (i : Int) : Option Nat :=
  if 0 ≤ i then (if i.toNat < len then some i.toNat else none)
  else if (-i).toNat ≤ len then some (len - (-i).toNat) else none

def findIdx (names : List String) (n : String) : Option Nat :=
  let i := names.idxOf n
  if i < names.length then some i else none

/-- `ServiceSelector.__find` -/
def findService (svcs : List Service) (k : Key) : Except ErrK Nat :=
  if svcs.isEmpty then .error .noServices else
  match k with
  | .idx i => match pyIndex svcs.length i with
    | some n => .ok n
    | none => .error .serviceNotFound
  | .name n => match findIdx (svcs.map (·.name)) n with
    | some i => .ok i
    | none => .error .serviceNotFound

def portsOf (svcs : List Service) (s : Nat) : List Port := (svcs.getD s ⟨"", []⟩).ports

/-- `PortSelector.__find` -/
def findPort (svcs : List Service) (s : Nat) (k : Key) : Except ErrK Nat :=
  let ports := portsOf svcs s
  if ports.isEmpty then .error .noPorts else
  match k with
  | .idx i => match pyIndex ports.length i with
    | some n => .ok n
    | none => .error .portNotFound
  | .name n => match findIdx (ports.map (·.name)) n with
    | some i => .ok i
    | none => .error .portNotFound

def methodsOf (svcs : List Service) (s p : Nat) : List String := ((portsOf svcs s).getD p ⟨"", []⟩).methods

/-- `MethodSelector.__getitem__` -/
def findMethod (svcs : List Service) (s p : Nat) (m : String) : Except ErrK Val :=
  if (methodsOf svcs s p).contains m then .ok (.method s p m) else .error .methodNotFound

/-- `PortSelector.__dp` followed by the default / first choice of `__getattr__`. -/
def defaultPort (svcs : List Service) (o : Opts) (s : Nat) : Except ErrK Nat :=
  match o.port with
  | some dp => findPort svcs s dp
  | none => findPort svcs s (.idx 0)

/-- `PortSelector.__getitem__` -/
def portItem (svcs : List Service) (o : Opts) (s : Nat) (k : Key) : Except ErrK Val :=
  match o.port with
  | some dp => (findPort svcs s dp).map (.methSel s ·)
  | none => (findPort svcs s k).map (.methSel s ·)

/-- `PortSelector.__getattr__` -/
def portAttr (svcs : List Service) (o : Opts) (s : Nat) (m : String) : Except ErrK Val := do
  let p ← defaultPort svcs o s
  findMethod svcs s p m

/-- `ServiceSelector.__ds` followed by the default / first choice of `__getattr__`. -/
def defaultService (svcs : List Service) (o : Opts) : Except ErrK Nat :=
  match o.service with
  | some ds => findService svcs ds
  | none => findService svcs (.idx 0)

/-- One selector step. -/
def step (svcs : List Service) (o : Opts) (v : Val) (st : Step) : Except ErrK Val :=
  match v, st with
  | .svcSel, .attr m => do
    let s ← defaultService svcs o
    portAttr svcs o s m
  | .svcSel, .item k =>
    if svcs.length = 1 then do
      let s ← findService svcs (.idx 0)
      portItem svcs o s k
    else match o.service with
      | some ds => do
        let s ← findService svcs ds
        portItem svcs o s k
      | none => (findService svcs k).map .portSel
  | .portSel s, .attr m => portAttr svcs o s m
  | .portSel s, .item k => portItem svcs o s k
  | .methSel s p, .attr m => findMethod svcs s p m
  | .methSel s p, .item (.name m) => findMethod svcs s p m
  | .methSel _ _, .item (.idx _) => .error .badStep
  | .method _ _ _, _ => .error .badStep

/-- `client.service<steps>` -/
def eval (svcs : List Service) (o : Opts) (steps : List Step) : Except ErrK Val :=
  steps.foldlM (step svcs o) .svcSel

end Suds.Select
