import SudsModel.Driver.Util
import SudsModel.ArgParser
namespace Suds.Driver.C08
open Lean Suds.Driver Suds.ArgParser

instance : Inhabited (PT PDef) := ⟨.leaf ("", false)⟩

partial def ptOf (j : Json) : PT PDef :=
  match j.getObjVal? "kids" with
  | .ok (.arr ks) => .node (jnat j "id") (jbool j "choice") (ks.toList.map ptOf)
  | _ => .leaf (jstr j "name", jbool j "optional")

def valOf : Json → Val
  | .str s => some s
  | _ => none

def valJson : Val → Json
  | some s => .str s
  | none => .null

def resJson : Except Err Result → Json
  | .ok r => Json.mkObj [("required", r.required), ("allowed", r.allowed),
      ("delivered", Json.arr (r.delivered.map (fun (n, c, v) => Json.arr #[.str n, .bool c, valJson v])).toArray)]
  | .error .multiChoice => Json.mkObj [("err", Json.arr #["multiChoice"])]
  | .error (.multipleValues k) => Json.mkObj [("err", Json.arr #["multipleValues", .str k])]
  | .error (.unexpectedKw k) => Json.mkObj [("err", Json.arr #["unexpectedKw", .str k])]
  | .error (.positional r a g) => Json.mkObj [("err", Json.arr #["positional", r, a, g])]

def handle : Handler := fun op j =>
  match op with
  | "argp.both" =>
    let kids := (jarr j "forest").toList.map ptOf
    let args := (jarr j "args").toList.map valOf
    let kwargs := (jarr j "kwargs").toList.map fun p => (jstr p "k", valOf (jget p "v"))
    let strict := jbool j "strict"
    some (Json.mkObj [("impl", resJson (runForest strict kids args kwargs)),
                      ("spec", resJson (spec strict kids args kwargs))])
  | _ => none

end Suds.Driver.C08
