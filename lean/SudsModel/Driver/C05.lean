import SudsModel.Driver.Util
import SudsModel.Driver.C19
import SudsModel.Xml.Prefix
import SudsModel.Lemmas.Promote
namespace Suds.Driver.C05
open Lean Suds.Driver Suds.Xml Suds.Driver.C19

def assignOf (j : Json) : List (String × String) :=
  (jarr j "assign").toList.map fun p => let a := asArr p; ((asStr? a[0]!).getD "", (asStr? a[1]!).getD "")

/-- body = the `idx`-th child of the envelope root. -/
def normalizeChild (assign : List (String × String)) (env : Elem) (idx : Nat) : Elem :=
  env.setKids (env.kids.mapIdx fun i k => if i = idx then k.normalize assign [env.scope] else k)

def handle : Handler := fun op j =>
  match op with
  | "prefix.promote" => some (elemJson ((elemOf (jget j "tree")).promote (jbool j "fixed")))
  | "prefix.normalize" => some (elemJson ((elemOf (jget j "tree")).normalize (assignOf j) []))
  | "prefix.refit" => some (elemJson ((elemOf (jget j "tree")).refit [] false))
  | "prefix.message" =>
    -- Binding.get_message with prefixes=True: body.normalizePrefixes(); env.promotePrefixes()
    let env := elemOf (jget j "tree")
    some (elemJson ((normalizeChild (assignOf j) env (jnat j "body")).promote true))
  | "prefix.wf" =>
    -- does the tree meet the hypothesis of promote_preserves_infoset, and does the model's pass keep its infoset
    let t := elemOf (jget j "tree")
    some (Json.mkObj [("wf", Json.bool t.wellFormed),
      ("preserved", Json.bool (((t.promote true).info []).beq (t.info [])))])
  | "prefix.nsuris" => some (Json.arr (((elemOf (jget j "tree")).nsUris.map Json.str).toArray))
  | _ => none

end Suds.Driver.C05
