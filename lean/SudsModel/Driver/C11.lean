import SudsModel.Driver.Util
import SudsModel.Cache
namespace Suds.Driver.C11
open Lean Suds.Driver Suds.Cache

def opOf (j : Json) : Op :=
  match jstr j "op" with
  | "put" => .put (jstr j "id") (jnat j "obj")
  | "get" => .get (jstr j "id") (jnat j "duration")
  | "purge" => .purge (jstr j "id")
  | "clear" => .clear
  | "advance" => .advance (jnat j "dt")
  | "reopen" => .reopen (jstr j "version")
  | "tear" => .tear (jstr j "id")
  | "vanish" => .vanish (jstr j "id")
  | _ => .stamp (jstr j "version")

def handle : Handler := fun op j =>
  match op with
  | "cache.run" =>
    let ops := (jarr j "ops").toList.map opOf
    let s0 : State := ⟨⟨[], none⟩, 0⟩
    let r := ops.foldl (fun (acc : State × Array Json) o =>
      let x := step acc.1 o
      let listing := Json.arr ((x.1.dir.files.map (·.1)).toArray.qsort (· < ·) |>.map Json.str)
      (x.1, acc.2.push (Json.mkObj [("ret", match x.2 with | some n => Json.num n | none => Json.null),
                                    ("files", listing)]))) (s0, #[])
    some (Json.arr r.2)
  | "cache.filename" => some (Json.str (entryFile (jstr j "prefix") (jstr j "id") (jstr j "suffix")))
  | _ => none

end Suds.Driver.C11
