import SudsModel.Driver.Util
import SudsModel.Xml.Edit
namespace Suds.Driver.C19
open Lean Suds.Driver Suds.Xml

instance : Inhabited Elem := ⟨.mk 0 none "" none [] [] none []⟩

def optStr : Json → Option String
  | .str s => some s
  | _ => none

def optJson : Option String → Json
  | some s => .str s
  | none => .null

partial def elemOf (j : Json) : Elem :=
  .mk (jnat j "id") (optStr (jget j "pfx")) (jstr j "name") (optStr (jget j "expns"))
    ((jarr j "nsp").toList.map fun p => let a := asArr p; ((asStr? a[0]!).getD "", (asStr? a[1]!).getD ""))
    ((jarr j "attrs").toList.map fun p => let a := asArr p; ⟨optStr a[0]!, (asStr? a[1]!).getD "", (asStr? a[2]!).getD ""⟩)
    (optStr (jget j "text"))
    ((jarr j "kids").toList.map elemOf)

partial def elemJson (e : Elem) : Json :=
  Json.mkObj [("id", e.id), ("pfx", optJson e.pfx), ("name", e.name), ("expns", optJson e.expns),
    ("nsp", Json.arr (e.nsp.map fun (p, u) => Json.arr #[.str p, .str u]).toArray),
    ("attrs", Json.arr (e.attrs.map fun a => Json.arr #[optJson a.pfx, .str a.name, .str a.value]).toArray),
    ("text", optJson e.text),
    ("kids", Json.arr (e.kids.map elemJson).toArray)]

def forestJson (f : Forest) : Json := Json.arr (f.map elemJson).toArray

/-- One edit operation; returns the new forest and an observation. -/
def applyOp (f : Forest) (j : Json) : Forest × Json :=
  let n := jnat j "n"
  match jstr j "op" with
  | "detach" => (f.detach n, .null)
  | "append" => (f.attach n (jnat j "c") none, .null)
  | "insert" => (f.attach n (jnat j "c") (some (jnat j "idx")), .null)
  | "detachChildren" => (f.detachChildren n, .null)
  | "prune" => (f.prune n, .null)
  | "replaceChild" =>
    match f.replaceChild n (jnat j "c") ((jarr j "content").toList.map fun x => (asNat? x).getD 0) with
    | some g => (g, .null)
    | none => (f, .str "child not-found")
  | "set" => (f.setAttr n (jstr j "name") (jstr j "value"), .null)
  | "unset" => (f.unsetAttr n (jstr j "name"), .null)
  | "setText" => (f.setText n (jstr j "value"), .null)
  | "rename" => (f.rename n (jstr j "name"), .null)
  | "setPrefix" => (f.setPrefix n (optStr (jget j "p")) (optStr (jget j "u")), .null)
  | "clone" => (f.clone n (jnat j "next"), .null)
  | "getChild" =>
    (f, match f.find n with
      | some e => (match getChild e (f.ctxOf n) (jstr j "name") with | some c => Json.num c.id | none => .null)
      | none => .null)
  | "getChildren" =>
    (f, match f.find n with
      | some e => Json.arr ((getChildren e (f.ctxOf n) (optStr (jget j "name"))).map fun c => Json.num c.id).toArray
      | none => .null)
  | "childAtPath" =>
    (f, match f.find n with
      | some e => (match childAtPath e (f.ctxOf n) ((jstr j "path").splitOn "/" |>.filter (· ≠ "")) with
          | some c => Json.num c.id | none => .null)
      | none => .null)
  | "childrenAtPath" =>
    (f, match f.find n with
      | some e => Json.arr ((childrenAtPath e (f.ctxOf n) ((jstr j "path").splitOn "/" |>.filter (· ≠ ""))).map
          fun c => Json.num c.id).toArray
      | none => .null)
  | "getAttribute" =>
    (f, match f.find n with
      | some e => (match getAttrIdx e (f.ctxOf n) (jstr j "name") with | some k => Json.num k | none => .null)
      | none => .null)
  | _ => (f, .str "bad-op")

def handle : Handler := fun op j =>
  match op with
  | "edit.run" =>
    let f0 : Forest := (jarr j "forest").toList.map elemOf
    let r := (jarr j "ops").foldl (fun (acc : Forest × Array Json) o =>
      let x := applyOp acc.1 o
      (x.1, acc.2.push (Json.mkObj [("forest", forestJson x.1), ("obs", x.2)]))) (f0, #[])
    some (Json.arr r.2)
  | _ => none

end Suds.Driver.C19
