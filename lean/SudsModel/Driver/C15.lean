import SudsModel.Driver.Util
import SudsModel.Transport
namespace Suds.Driver.C15
open Lean Suds.Driver Suds.Transport

def bytesOf (j : Json) (k : String) : List Nat := (jarr j k).toList.map fun x => (asNat? x).getD 0

def handle : Handler := fun op j =>
  match op with
  | "b64.creds" =>
    let u := bytesOf j "user"
    let p := bytesOf j "pass"
    let enc := credentials stdAlphabet u p
    some (Json.mkObj [("header", ofChars enc),
      ("recovered", match (decode stdAlphabet enc).bind splitColon with
        | some (a, b) => Json.arr #[Json.arr (a.map fun (x : Nat) => (x : Json)).toArray, Json.arr (b.map fun (x : Nat) => (x : Json)).toArray]
        | none => Json.null)])
  | "http.outcome" =>
    some (match responseOutcome (jnat j "status") with
      | .reply => Json.arr #["reply"]
      | .transportError c => Json.arr #["TransportError", c])
  | "http.coding" =>
    some (match requestCoding (jstr? j "ce") with
      | .identity => "identity" | .gzip => "gzip" | .deflate => "deflate")
  | _ => none

end Suds.Driver.C15
