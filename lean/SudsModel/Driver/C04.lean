import SudsModel.Driver.Util
import SudsModel.Xml.Enc
namespace Suds.Driver.C04
open Lean Suds.Driver Suds.Enc

def textOf (j : Json) : Text := { s := chars j "s", escaped := jbool j "escaped" }
def textJson (t : Text) : Json := Json.mkObj [("s", ofChars t.s), ("escaped", t.escaped)]

def handle : Handler := fun op j =>
  match op with
  | "enc.encode" => some (ofChars (encode (chars j "s")))
  | "enc.enc1" => some (ofChars (enc1 (chars j "s")))
  | "enc.decode" => some (ofChars (decode (chars j "s")))
  | "enc.clean" => some (Json.bool (clean (chars j "s")))
  | "text.escape" => some (textJson (textOf j).escape)
  | "text.unescape" => some (textJson (textOf j).unescape)
  | "text.trim" => some (textJson (textOf j).trim)
  | "text.add" =>
      let o := jget j "other_escaped"
      let oe : Option Bool := match o with | .bool b => some b | _ => none
      some (textJson ((textOf j).add (chars j "other") oe))
  | "xml.textValue" => some (optChars (textValue (chars j "s")))
  | "xml.attrValue" => some (optChars (attrValue (chars j "s")))
  | "render.text" => some (ofChars (renderText (textOf j)))
  | "render.attr" => some (ofChars (renderAttrValue (textOf j)))
  | _ => none

end Suds.Driver.C04
