import SudsModel.Driver.Util
import SudsModel.Select
namespace Suds.Driver.C10
open Lean Suds.Driver Suds.Select

def keyOf (j : Json) : Option Key :=
  match j with
  | .str s => some (.name s)
  | .null => none
  | j => (j.getInt?.toOption).map .idx

def stepOf (j : Json) : Step :=
  match jstr? j "attr" with
  | some n => .attr n
  | none => .item ((keyOf (jget j "item")).getD (.idx 0))

def errName : ErrK → String
  | .noServices => "noServices" | .noPorts => "noPorts" | .serviceNotFound => "ServiceNotFound"
  | .portNotFound => "PortNotFound" | .methodNotFound => "MethodNotFound" | .badStep => "badStep"

def handle : Handler := fun op j =>
  match op with
  | "select.eval" =>
    let svcs : List Service := (jarr j "services").toList.map fun s =>
      ⟨jstr s "name", (jarr s "ports").toList.map fun p =>
        ⟨jstr p "name", (jarr p "methods").toList.map fun m => (asStr? m).getD ""⟩⟩
    let o : Opts := ⟨keyOf (jget (jget j "opts") "service"), keyOf (jget (jget j "opts") "port")⟩
    let steps := (jarr j "steps").toList.map stepOf
    some (match eval svcs o steps with
      | .ok (.method s p m) => Json.mkObj [("method", Json.arr #[s, p, .str m])]
      | .ok .svcSel => Json.mkObj [("sel", Json.arr #["svc"])]
      | .ok (.portSel s) => Json.mkObj [("sel", Json.arr #["port", s])]
      | .ok (.methSel s p) => Json.mkObj [("sel", Json.arr #["meth", s, p])]
      | .error e => Json.mkObj [("err", errName e)])
  | _ => none

end Suds.Driver.C10
