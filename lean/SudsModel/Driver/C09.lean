import SudsModel.Driver.Util
import SudsModel.Reply
namespace Suds.Driver.C09
open Lean Suds.Driver Suds.Reply

def bodyOf : String → Body
  | "empty" => .empty | "normal" => .normal | "fault11" => .fault11 | "fault12" => .fault12
  | "faultDetail" => .faultDetail | "nonSoap" => .nonSoap | _ => .malformed

def outJson : Outcome → Json
  | .retNone => Json.arr #["retNone"]
  | .retValue => Json.arr #["retValue"]
  | .retPair200 v => Json.arr #["retPair200", v]
  | .retRaw => Json.arr #["retRaw"]
  | .raiseWebFault => Json.arr #["raiseWebFault"]
  | .retPair500Fault => Json.arr #["retPair500Fault"]
  | .raiseHttp s => Json.arr #["raiseHttp", s]
  | .retPairHttp s => Json.arr #["retPairHttp", s]
  | .raiseParse => Json.arr #["raiseParse"]
  | .raiseDecode => Json.arr #["raiseDecode"]

def handle : Handler := fun op j =>
  match op with
  | "reply.process" =>
    let st : Option Nat := (jget j "status").getNat?.toOption
    let b := bodyOf (jstr j "body")
    some (Json.mkObj [("impl", outJson (process st b (jbool j "faults") (jbool j "retxml"))),
                      ("table", outJson (table (classOf st) b (jbool j "faults") (jbool j "retxml")))])
  | _ => none

end Suds.Driver.C09
