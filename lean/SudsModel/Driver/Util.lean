import Lean.Data.Json
/-! JSON helpers shared by the per-property driver modules. -/
namespace Suds.Driver
open Lean

def jstr (j : Json) (k : String) : String := (j.getObjValAs? String k).toOption.getD ""
def jstr? (j : Json) (k : String) : Option String := (j.getObjValAs? String k).toOption
def jnat (j : Json) (k : String) : Nat := (j.getObjValAs? Nat k).toOption.getD 0
def jint (j : Json) (k : String) : Int := (j.getObjValAs? Int k).toOption.getD 0
def jbool (j : Json) (k : String) : Bool := (j.getObjValAs? Bool k).toOption.getD false
def jarr (j : Json) (k : String) : Array Json :=
  match j.getObjVal? k with
  | .ok (.arr a) => a
  | _ => #[]
def jget (j : Json) (k : String) : Json := (j.getObjVal? k).toOption.getD Json.null
def chars (j : Json) (k : String) : List Char := (jstr j k).toList
def ofChars (cs : List Char) : Json := Json.str (String.ofList cs)
def optChars : Option (List Char) → Json
  | some cs => ofChars cs
  | none => Json.null
def asStr? : Json → Option String
  | .str s => some s
  | _ => none
def asNat? : Json → Option Nat
  | j => (j.getNat?).toOption
def asInt? : Json → Option Int
  | j => (j.getInt?).toOption
def asArr : Json → Array Json
  | .arr a => a
  | _ => #[]

/-- A handler answers `some reply` for the operations it knows. -/
abbrev Handler := String → Json → Option Json

end Suds.Driver
