import SudsModel.Driver.Util
import SudsModel.Driver.C19
import SudsModel.Xml.MultiRef
namespace Suds.Driver.C18
open Lean Suds.Driver Suds.Xml Suds.Driver.C19

def handle : Handler := fun op j =>
  match op with
  | "multiref.process" => some (elemJson (processBody (jnat j "fuel") (elemOf (jget j "tree")) []))
  | _ => none

end Suds.Driver.C18
