import SudsModel.Driver.Util
import SudsModel.Driver.C19
import SudsModel.Xml.MultiRef
import SudsModel.Lemmas.MultiRef
namespace Suds.Driver.C18
open Lean Suds.Driver Suds.Xml Suds.Driver.C19

/-- The writer of `outlined_body_decodes` applied to a body whose children are the inline content: the
out-lined body, what the theorem says resolution gives back, and what the model's `process` makes of it. -/
def outlineOp (j : Json) : Json :=
  let body := elemOf (jget j "tree")
  let ids := (jarr j "outlined").toList.filterMap asNat?
  let S : Nat → Bool := fun i => ids.contains i
  let key : Nat → String := fun i => "id" ++ toString i
  let extra : Nat → List Attr := fun _ => if jbool j "marked" then [⟨some "soapenc", "root", "0"⟩] else []
  let roots := body.kids
  let out := body.setKids (outlineKids S key roots ++
    (outlinedKids S roots).map (fun o => mkRef S key extra (1000 + o.id) o))
  let expect := body.setKids (markedKids S extra roots)
  Json.mkObj [("body", elemJson out), ("expected", elemJson expect),
    ("processed", elemJson (processBody (jnat j "fuel") out []))]

def handle : Handler := fun op j =>
  match op with
  | "multiref.outline" => some (outlineOp j)
  | "multiref.process" => some (elemJson (processBody (jnat j "fuel") (elemOf (jget j "tree")) []))
  | _ => none

end Suds.Driver.C18
