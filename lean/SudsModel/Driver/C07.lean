import SudsModel.Driver.Util
import SudsModel.Xsd.DepSort
import SudsModel.Xsd.Qualify
import SudsModel.Xsd.Consolidate
namespace Suds.Driver.C07
open Lean Suds.Driver Suds.Xsd Suds.Xml

def graphOf (j : Json) : Graph :=
  (jarr j "graph").toList.map fun e =>
    ((asNat? (jget e "k")).getD 0, (jarr e "deps").toList.map fun d => (asNat? d).getD 0)

def handle : Handler := fun op j =>
  match op with
  | "depsort" => some (Json.arr ((depsort (graphOf j)).map (fun (n : Nat) => (n : Json))).toArray)
  | "qualify" =>
    let ctx : Ctx := (jarr j "ctx").toList.map fun sc =>
      ((jarr sc "nsp").toList.map (fun pu => ((asStr? ((asArr pu)[0]?.getD Json.null)).getD "",
                                               (asStr? ((asArr pu)[1]?.getD Json.null)).getD "")),
       jstr? sc "expns")
    some (match qualifyRef (jstr j "ref") ctx (jstr? j "tns") with
      | none => Json.mkObj [("err", "prefix not resolved")]
      | some (n, u) => Json.arr #[.str n, match u with | some x => .str x | none => .null])
  | "consolidate" =>
    let nodeOf (n : Json) : SchemaNode :=
      ⟨(if jstr n "form" == "qualified" then Form.qualified else Form.unqualified),
       (jarr n "prefixes").toList.map (fun pu => ((asStr? ((asArr pu)[0]?.getD Json.null)).getD "",
                                                   (asStr? ((asArr pu)[1]?.getD Json.null)).getD "")),
       (jarr n "locals").toList.map fun e =>
         ⟨jstr e "name", match jstr? e "form" with
            | some "qualified" => some Form.qualified
            | some "unqualified" => some Form.unqualified
            | _ => none⟩⟩
    let outer : PrefixTable := (jarr j "outer").toList.map (fun pu => ((asStr? ((asArr pu)[0]?.getD Json.null)).getD "",
                                                                        (asStr? ((asArr pu)[1]?.getD Json.null)).getD ""))
    let r := consolidateIn outer (nodeOf (jget j "first")) (nodeOf (jget j "second"))
    let formStr : Form → String := fun f => match f with | .qualified => "qualified" | .unqualified => "unqualified"
    some (Json.mkObj [
      ("prefixes", Json.arr (r.prefixes.map fun pu => Json.arr #[.str pu.1, .str pu.2]).toArray),
      ("locals", Json.arr (r.locals.map fun e => Json.arr #[.str e.name,
          match e.explicit with | some f => .str (formStr f) | none => .null,
          .str (formStr (effectiveForm r.formDefault e))]).toArray)])
  | _ => none

end Suds.Driver.C07
