import SudsModel.Driver.Util
import SudsModel.Xsd.DepSort
import SudsModel.Xsd.Qualify
namespace Suds.Driver.C07
open Lean Suds.Driver Suds.Xsd Suds.Xml

def graphOf (j : Json) : Graph :=
  (jarr j "graph").toList.map fun e =>
    ((asNat? (jget e "k")).getD 0, (jarr e "deps").toList.map fun d => (asNat? d).getD 0)

def handle : Handler := fun op j =>
  match op with
  | "depsort" => some (Json.arr ((depsort (graphOf j)).map (fun (n : Nat) => (n : Json))).toArray)
  | "qualify" =>
    let ctx : Ctx := (jarr j "ctx").toList.map fun sc =>
      ((jarr sc "nsp").toList.map (fun pu => ((asStr? ((asArr pu)[0]?.getD Json.null)).getD "",
                                               (asStr? ((asArr pu)[1]?.getD Json.null)).getD "")),
       jstr? sc "expns")
    some (match qualifyRef (jstr j "ref") ctx (jstr? j "tns") with
      | none => Json.mkObj [("err", "prefix not resolved")]
      | some (n, u) => Json.arr #[.str n, match u with | some x => .str x | none => .null])
  | _ => none

end Suds.Driver.C07
