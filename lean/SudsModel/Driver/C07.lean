import SudsModel.Driver.Util
import SudsModel.Xsd.DepSort
namespace Suds.Driver.C07
open Lean Suds.Driver Suds.Xsd

def graphOf (j : Json) : Graph :=
  (jarr j "graph").toList.map fun e =>
    ((asNat? (jget e "k")).getD 0, (jarr e "deps").toList.map fun d => (asNat? d).getD 0)

def handle : Handler := fun op j =>
  match op with
  | "depsort" => some (Json.arr ((depsort (graphOf j)).map (fun (n : Nat) => (n : Json))).toArray)
  | _ => none

end Suds.Driver.C07
