import SudsModel.Driver.C04
import SudsModel.Driver.C08
import SudsModel.Driver.C06
import SudsModel.Driver.C19
import SudsModel.Driver.C09
import SudsModel.Driver.C10
import SudsModel.Driver.C14
import SudsModel.Driver.C16
import SudsModel.Driver.C17
import SudsModel.Driver.C15
import SudsModel.Driver.C11
import SudsModel.Driver.C05
import SudsModel.Driver.C18
import SudsModel.Driver.C07
import SudsModel.Driver.C01
import SudsModel.Driver.C12
namespace Suds.Driver
open Lean

def handlers : List Handler := [C04.handle, C08.handle, C06.handle, C19.handle, C09.handle, C10.handle, C14.handle, C16.handle, C17.handle, C15.handle, C11.handle, C05.handle, C18.handle, C07.handle, C01.handle, C12.handle]

def dispatch (op : String) (j : Json) : Option Json :=
  handlers.findSome? fun h => h op j

end Suds.Driver
