import SudsModel.Driver.Util
import SudsModel.Driver.C09
import SudsModel.Plugin
namespace Suds.Driver.C16
open Lean Suds.Driver Suds.Plugin

def logJson (l : List (Nat × String)) : Json := Json.arr (l.map fun (i, h) => Json.arr #[i, .str h]).toArray

def handle : Handler := fun op j =>
  match op with
  | "plugin.log" =>
    let plugins : List Plug := (jarr j "plugins").toList.map fun p =>
      ⟨jstr p "kind", (jarr p "hooks").toList.map fun h => (asStr? h).getD ""⟩
    let reply : Option (Option Nat × Suds.Reply.Body) :=
      match jget j "reply" with
      | .null => none
      | r => some ((jget r "status").getNat?.toOption, Suds.Driver.C09.bodyOf (jstr r "body"))
    some (Json.mkObj [("invoke", logJson (invokeLog plugins reply (jbool j "retxml"))),
                      ("openFetched", logJson (openLog plugins true)),
                      ("openCached", logJson (openLog plugins false)),
                      ("init", logJson (Suds.Gen.initHookCalls.flatMap (dispatch plugins "init")))])
  | _ => none

end Suds.Driver.C16
