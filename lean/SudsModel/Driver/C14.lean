import SudsModel.Driver.Util
import SudsModel.Options
namespace Suds.Driver.C14
open Lean Suds.Driver Suds.Options

def valOf (j : Json) : Val :=
  { isNone := jbool j "isNone", isa := (jarr j "isa").toList.map fun x => (asStr? x).getD "",
    repr := jstr j "repr", tnode := (jget j "tnode").getNat?.toOption }

def domOf (s : String) : Domain := if s = "transport" then .transport else .client

def errStr : Err → String
  | .attributeError => "AttributeError"
  | .linkError => "LinkError"

def dump (w : World) : Json :=
  Json.arr (w.map fun n => Json.mkObj [
    ("values", Json.mkObj (n.values.map fun (k, v) => (k, Json.str v.repr))),
    ("links", Json.arr (n.links.map fun (x : Nat) => (x : Json)).toArray)]).toArray

def applyOp (w : World) (j : Json) : World × Json :=
  match jstr j "op" with
  | "newnode" => (w ++ [newNode (domOf (jstr j "domain"))], Json.num w.length)
  | "set" =>
    let r := set w (jnat j "node") (jstr j "name") (valOf (jget j "value"))
    (r.1, match r.2 with | none => "ok" | some e => Json.str (errStr e))
  | "get" =>
    (w, match get w (jnat j "node") (jstr j "name") with
      | .ok v => Json.mkObj [("value", v.repr)]
      | .error e => Json.str (errStr e))
  | "clone" => (clone w (jnat j "node") (jstr j "fresh"), Json.num w.length)
  | "dump" => (w, dump w)
  | _ => (w, "bad-op")

def handle : Handler := fun op j =>
  match op with
  | "opts.run" =>
    let r := (jarr j "ops").foldl (fun (acc : World × Array Json) o =>
      let x := applyOp acc.1 o
      (x.1, acc.2.push x.2)) (([] : World), #[])
    some (Json.arr r.2)
  | _ => none

end Suds.Driver.C14
