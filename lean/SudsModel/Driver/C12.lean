import SudsModel.Driver.Util
import SudsModel.Loader
namespace Suds.Driver.C12
open Lean Suds.Driver Suds.Loader Suds.Xsd

def graphOf (j : Json) (k : String) : Graph :=
  (jarr j k).toList.map fun e =>
    ((asNat? (jget e "k")).getD 0, (jarr e "deps").toList.map fun d => (asNat? d).getD 0)

def webOf (j : Json) : Web :=
  ⟨graphOf j "wsdl", graphOf j "xsd",
   (jarr j "inline").toList.map fun e =>
     ((asNat? (jget e "k")).getD 0, (jarr e "blocks").toList.map fun b =>
       ⟨jstr b "tns", (jarr b "refs").toList.map fun r =>
         ⟨jbool r "import", jstr r "ns", asNat? (jget r "target")⟩⟩)⟩

def nats (l : List Nat) : Json := Json.arr (l.map fun (n : Nat) => (n : Json)).toArray

def handle : Handler := fun op j =>
  match op with
  | "loader.fetches" =>
    let w := webOf j
    let root := jnat j "root"
    some (Json.mkObj [("wsdl", nats (wsdlFetches w root)), ("order", nats (buildOrder w root)),
      ("passes", Json.arr ((buildOrder w root).map fun d => nats (passFetches w d)).toArray),
      ("all", nats (allFetches w root))])
  | "reader.openall" =>
    let c : DocCache := (jarr j "cache").toList.map fun e =>
      ((asNat? ((asArr e)[0]?.getD Json.null)).getD 0, (asNat? ((asArr e)[1]?.getD Json.null)).getD 0)
    let table : List (Nat × Outcome) := (jarr j "src").toList.map fun e =>
      ((asNat? (jget e "u")).getD 0,
       match jstr e "o" with
       | "unreachable" => Outcome.unreachable
       | "illFormed" => Outcome.illFormed
       | _ => Outcome.doc (jnat e "d"))
    let src : Nat → Outcome := fun u => ((table.find? (·.1 == u)).map (·.2)).getD .unreachable
    let r := openAll c src ((jarr j "urls").toList.map fun u => (asNat? u).getD 0)
    some (Json.mkObj [("docs", match r.1 with | some ds => nats ds | none => Json.null),
                      ("cache", Json.arr (r.2.map fun e => Json.arr #[(e.1 : Json), (e.2 : Json)]).toArray)])
  | _ => none

end Suds.Driver.C12
