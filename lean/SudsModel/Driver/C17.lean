import SudsModel.Driver.Util
import SudsModel.Headers
namespace Suds.Driver.C17
open Lean Suds.Driver Suds.Headers

def itemOf (j : Json) : Item :=
  match (jget j "elem").getNat? with
  | .ok i => .elem i
  | _ => .value (jstr j "value")

def hvalOf (j : Json) : HVal :=
  match j.getObjVal? "scalar" with
  | .ok (.str v) => .scalar v
  | _ => match (jget j "scalarElem").getNat? with
    | .ok i => .scalarElem i
    | _ => match j.getObjVal? "seq" with
      | .ok (.arr a) => .seq (a.toList.map itemOf)
      | _ => .dict ((jarr j "dict").toList.map fun p => let a := asArr p; ((asStr? a[0]!).getD "", (asStr? a[1]!).getD ""))

def entryJson : Entry → Json
  | .security => Json.arr #["security"]
  | .copy i => Json.arr #["copy", i]
  | .part i v => Json.arr #["part", i, .str v]

def handle : Handler := fun op j =>
  match op with
  | "headers.content" =>
    let parts := (jarr j "parts").toList.map fun p => (asStr? p).getD ""
    some (Json.arr ((headerContent parts (jbool j "wsse") (hvalOf (jget j "h"))).map entryJson).toArray)
  | _ => none

end Suds.Driver.C17
