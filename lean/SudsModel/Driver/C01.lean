import SudsModel.Driver.Util
import SudsModel.Xsd.Schema
namespace Suds.Driver.C01
open Lean Suds.Driver Suds.Schema Suds.Xml

def keyOf? (j : Json) : Option Key :=
  match j with
  | .arr a => if a.size == 2 then some ((asNat? a[0]!).getD 0, (asStr? a[1]!).getD "") else none
  | _ => none

def trefOf (j : Json) : TRef :=
  let a := asArr j
  if (asStr? (a[0]?.getD Json.null)).getD "" == "b" then .builtin ((asStr? (a[1]?.getD Json.null)).getD "")
  else if (asStr? (a[0]?.getD Json.null)).getD "" == "a" then
    .array ((asNat? (a[1]?.getD Json.null)).getD 0, (asStr? (a[2]?.getD Json.null)).getD "")
  else .complex ((asNat? (a[1]?.getD Json.null)).getD 0, (asStr? (a[2]?.getD Json.null)).getD "")

def memberOf (j : Json) : Member :=
  ⟨jstr j "name", trefOf (jget j "type"), jnat j "min", jbool j "unbounded", jbool j "nillable",
   jbool j "qualified", jbool j "inChoice", asNat? (jget j "refNs")⟩

def attrOf (j : Json) : AttrDecl := ⟨jstr j "name", jstr j "type", jbool j "required", jstr? j "default"⟩

def envOf (j : Json) : Env :=
  ⟨(jarr j "uris").toList.map (fun u => (asStr? u).getD ""),
   (jarr j "types").toList.map fun t =>
     ⟨(jnat t "ns", jstr t "name"), keyOf? (jget t "base"), (jarr t "own").toList.map memberOf,
      (jarr t "attrs").toList.map attrOf⟩,
   (jarr j "arrays").toList.map (fun a => ((keyOf? (jget a "key")).getD (0, ""), trefOf (jget a "item"))),
   jbool j "encoded"⟩

instance : Inhabited Val := ⟨.none⟩
instance : Inhabited Info := ⟨.mk none "" [] none []⟩

partial def valOf (j : Json) : Val :=
  match j with
  | .null => .none
  | _ =>
    match j.getObjVal? "leaf" with
    | .ok (.str s) => .leaf s
    | _ =>
      match j.getObjVal? "list" with
      | .ok (.arr a) => .list (a.toList.map valOf)
      | _ =>
        let o := jget j "obj"
        .obj (keyOf? (jget o "real")) ((jarr o "fields").toList.map fun kv =>
          let a := asArr kv
          ((asStr? (a[0]?.getD Json.null)).getD "", valOf (a[1]?.getD Json.null)))

def optStr : Option String → Json
  | some s => .str s
  | none => .null

partial def infoJson : Info → Json
  | .mk ns name attrs text kids =>
    Json.mkObj [("name", Json.arr #[optStr ns, .str name]),
      ("attrs", Json.arr (attrs.map fun a => Json.arr #[Json.arr #[optStr a.ns, .str a.name],
        match a.value with
        | .lit s => .str s
        | .qname u n => Json.mkObj [("qname", Json.arr #[.str u, .str n])]]).toArray),
      ("text", optStr text), ("children", Json.arr (kids.map infoJson).toArray)]

def optStrOf (j : Json) : Option String := asStr? j

partial def infoOf (j : Json) : Info :=
  let nm := asArr (jget j "name")
  .mk (optStrOf (nm[0]?.getD Json.null)) ((asStr? (nm[1]?.getD Json.null)).getD "")
    ((jarr j "attrs").toList.map fun a =>
      let pr := asArr a
      let k := asArr (pr[0]?.getD Json.null)
      let v := pr[1]?.getD Json.null
      ⟨optStrOf (k[0]?.getD Json.null), (asStr? (k[1]?.getD Json.null)).getD "",
        match v with
        | .str s => .lit s
        | _ => let q := asArr (jget v "qname")
               .qname ((asStr? (q[0]?.getD Json.null)).getD "") ((asStr? (q[1]?.getD Json.null)).getD "")⟩)
    (optStrOf (jget j "text")) ((jarr j "children").toList.map infoOf)

partial def pyJson : Py → Json
  | .none => .null
  | .text s ty => Json.mkObj [("text", .str s), ("ty", .str ty)]
  | .list xs => Json.mkObj [("list", Json.arr (xs.map pyJson).toArray)]
  | .obj cls fs => Json.mkObj [("obj", .str cls), ("fields", Json.arr (fs.map fun kv => Json.arr #[.str kv.1, pyJson kv.2]).toArray)]
  | .err w => Json.mkObj [("err", .str w)]

def opOf (j : Json) : Op :=
  ⟨jstr j "name",
   (match jstr j "style" with | "wrapped" => .wrapped | "bare" => .bare | _ => .rpc),
   (jarr j "in").toList.map memberOf, (jarr j "out").toList.map memberOf⟩

def handle : Handler := fun op j =>
  match op with
  | "schema.members" =>
    let env := envOf (jget j "env")
    let k := (keyOf? (jget j "key")).getD (0, "")
    some (Json.mkObj [
      ("members", Json.arr ((members env (env.types.length + 1) k).map fun md => Json.arr #[.str md.1.name, (md.2 : Json)]).toArray),
      ("attrs", Json.arr ((attrsOf env (env.types.length + 1) k).map fun a => Json.str a.name).toArray)])
  | "schema.request" =>
    let env := envOf (jget j "env")
    let args := (jarr j "args").toList.map fun kv =>
      let a := asArr kv
      ((asStr? (a[0]?.getD Json.null)).getD "", valOf (a[1]?.getD Json.null))
    some (Json.arr ((request env 64 (opOf (jget j "operation")) args).map infoJson).toArray)
  | "schema.decode" =>
    let env := envOf (jget j "env")
    some (pyJson (decode env 64 (trefOf (jget j "type")) (jbool j "nillable") (infoOf (jget j "node"))))
  | "schema.reply" =>
    let env := envOf (jget j "env")
    some (pyJson (reply env 64 (opOf (jget j "operation")) (keyOf? (jget j "unwrap"))
      ((jarr j "body").toList.map infoOf)))
  | "schema.accumulate" =>
    some (Json.arr ((accumulate ((jarr j "items").toList.map fun x =>
      (jstr x "key", jbool x "multi", if (jget x "value").isNull then Py.none else Py.text (jstr x "value") ""))).map
        fun kv => Json.arr #[.str kv.1, pyJson kv.2]).toArray)
  | "schema.skeleton" =>
    let env := envOf (jget j "env")
    some (pyJson (skeleton env 64 ((keyOf? (jget j "key")).getD (0, ""))))
  | _ => none

end Suds.Driver.C01
