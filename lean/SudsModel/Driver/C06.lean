import SudsModel.Driver.Util
import SudsModel.Xsd.Builtin
namespace Suds.Driver.C06
open Lean Suds.Driver Suds.Xsd

def tzJson : Tz → Json
  | .naive => Json.null
  | .utc => Json.str "utc"
  | .fixed m => Json.num (JsonNumber.fromInt m)

def tzOf (j : Json) : Tz :=
  match j with
  | .str _ => .utc
  | .null => .naive
  | j => match j.getInt? with
    | .ok m => .fixed m
    | _ => .naive

def errJson : PErr → Json
  | .format => Json.mkObj [("err", "format")]
  | .value => Json.mkObj [("err", "value")]
  | .overflow => Json.mkObj [("err", "overflow")]

def dateJson (d : Date) : Json := Json.arr #[d.y, d.m, d.d]
def timeJson (t : Time) : Json := Json.arr #[t.h, t.mi, t.s, t.us]
def dateOf (j : Json) : Date :=
  let a := asArr j
  ⟨(asNat? a[0]!).getD 0, (asNat? a[1]!).getD 0, (asNat? a[2]!).getD 0⟩
def timeOf (j : Json) : Time :=
  let a := asArr j
  ⟨(asNat? a[0]!).getD 0, (asNat? a[1]!).getD 0, (asNat? a[2]!).getD 0, (asNat? a[3]!).getD 0⟩

def handle : Handler := fun op j =>
  match op with
  | "xsd.boolToPython" => some (match boolToPython (jstr j "s") with | some b => Json.bool b | none => Json.null)
  | "xsd.boolToXml" => some (match boolToXml (jbool j "b") with | some s => Json.str s | none => Json.null)
  | "xsd.decimal" =>
    let digits := (jarr j "digits").toList.map fun d => (asNat? d).getD 0
    some (ofChars (decimalToXsd (jbool j "neg") digits (jint j "exp")))
  | "xsd.parseDate" => some (match parseDate (chars j "s") with
      | .ok d => Json.mkObj [("date", dateJson d)]
      | .error e => errJson e)
  | "xsd.parseTime" => some (match parseTime (chars j "s") with
      | .ok (t, tz) => Json.mkObj [("time", timeJson t), ("tz", tzJson tz)]
      | .error e => errJson e)
  | "xsd.parseDateTime" => some (match parseDateTime (chars j "s") with
      | .ok (d, t, tz) => Json.mkObj [("date", dateJson d), ("time", timeJson t), ("tz", tzJson tz)]
      | .error e => errJson e)
  | "xsd.isoDate" => some (ofChars (isoDate (dateOf (jget j "date"))))
  | "xsd.isoTime" => some (ofChars (isoTime (timeOf (jget j "time")) (tzOf (jget j "tz"))))
  | "xsd.isoDateTime" =>
    some (ofChars (isoDateTime (dateOf (jget j "date")) (timeOf (jget j "time")) (tzOf (jget j "tz"))))
  | _ => none

end Suds.Driver.C06
