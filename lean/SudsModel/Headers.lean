/-!
Model of `Binding.headercontent` (suds/bindings/binding.py): which entries the SOAP Header gets
for a `soapheaders` value of each shape, the declared header parts and an optional WS-Security
object. No imports.
-/
namespace Suds.Headers

/-- One item of a `soapheaders` sequence: a ready-made Element (by identity) or a plain value. -/
inductive Item where
  | elem (id : Nat)
  | value (v : String)
  deriving Repr, DecidableEq

/-- The `soapheaders` option. `scalar`: anything that is not a tuple/list/dict (wrapped into a
1-tuple, even when falsy); `seq [] ` / `dict []`: empty container (nothing is added). -/
inductive HVal where
  | scalarElem (id : Nat)
  | scalar (v : String)
  | seq (items : List Item)
  | dict (kv : List (String × String))
  deriving Repr, DecidableEq

inductive Entry where
  | security                      -- `wsse.xml()`
  | copy (id : Nat)               -- `deepcopy(element)`
  | part (idx : Nat) (v : String) -- `mkheader(pts[idx], v)` qualified by the part's own namespace
  deriving Repr, DecidableEq

/-- The positional loop: Elements are copied in place, other values consume declared parts in
order, and the loop stops at the first value for which no declared part is left. -/
def seqEntries (nparts : Nat) : Nat → List Item → List Entry
  | _, [] => []
  | n, .elem i :: rest => .copy i :: seqEntries nparts n rest
  | n, .value v :: rest => if nparts = n then [] else .part n v :: seqEntries nparts (n + 1) rest

def lookupKV (k : String) : List (String × String) → Option String
  | [] => none
  | (a, b) :: rest => if a = k then some b else lookupKV k rest

/-- The dict loop: declared order, missing names skipped. -/
def dictEntries (kv : List (String × String)) : Nat → List String → List Entry
  | _, [] => []
  | n, p :: ps => match lookupKV p kv with
    | some v => .part n v :: dictEntries kv (n + 1) ps
    | none => dictEntries kv (n + 1) ps

/-- `Binding.headercontent`; `parts`: names of the declared header parts in order. -/
def headerContent (parts : List String) (wsse : Bool) (h : HVal) : List Entry :=
  (if wsse then [.security] else []) ++
  match h with
  | .scalarElem i => seqEntries parts.length 0 [.elem i]
  | .scalar v => seqEntries parts.length 0 [.value v]
  | .seq items => seqEntries parts.length 0 items
  | .dict kv => if kv.isEmpty then [] else dictEntries kv 0 parts

end Suds.Headers
