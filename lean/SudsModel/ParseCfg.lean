import SudsModel.Gen.Tables
/-!
C20: the configuration of every XML parser suds constructs (generated table), and the decision
the expat reader takes for a reference to an external entity / external DTD subset as a function
of the `external_ges` feature (xml.sax.expatreader: `external_entity_ref` returns without opening
anything unless the feature is on).
-/
namespace Suds.ParseCfg
open Suds.Gen

inductive Action where
  | skip      -- reference reported as skipped; nothing is opened
  | resolve   -- the system identifier is opened through the entity resolver
  deriving Repr, DecidableEq

/-- What the reader does with an external reference. -/
def onExternalRef (externalGes : Bool) : Action := if externalGes then .resolve else .skip

/-- The value a construction site gives `feature_external_ges` (`none`: left at its default). -/
def gesSetting (site : String × String × List String × List (String × Option Bool)) : Option Bool :=
  ((site.2.2.2.find? (·.1 == "feature_external_ges")).map (·.2)).join

/-- A site is safe when it switches the feature off explicitly. -/
def siteSafe (site : String × String × List String × List (String × Option Bool)) : Bool :=
  gesSetting site == some false

/-- Actions taken for a stream of external references by a parser built at `site`. -/
def actions (site : String × String × List String × List (String × Option Bool)) (refs : List Unit) : List Action :=
  refs.map fun _ => onExternalRef ((gesSetting site).getD true)

end Suds.ParseCfg
