/-!
Model of `suds/cache.py` (`FileCache`, `DocumentCache`, `ObjectCache`): a directory of entry files
shared by any number of cache instances, each with its own duration. The serialisation is
abstracted: a file either holds the complete bytes of the object last stored under its id
(`intact`) or a damaged version of them (torn at some byte, zero-filled tail, …), which the
decoder (pickle / expat) rejects — the assumption the crash sweep of the harness validates on
every byte offset of real entries. No imports.
-/
namespace Suds.Cache

structure File where
  obj : Nat          -- identity of the object whose bytes were written
  intact : Bool      -- complete bytes on disk
  ctime : Nat
  deriving Repr, DecidableEq

structure Dir where
  files : List (String × File)
  version : Option String
  deriving Repr, DecidableEq

def lookup (id : String) : List (String × File) → Option File
  | [] => none
  | (k, f) :: rest => if k = id then some f else lookup id rest

def erase (id : String) : List (String × File) → List (String × File)
  | [] => []
  | (k, f) :: rest => if k = id then erase id rest else (k, f) :: erase id rest

def upsert (id : String) (f : File) (fs : List (String × File)) : List (String × File) :=
  (id, f) :: erase id fs

inductive Op where
  | put (id : String) (obj : Nat)
  | get (id : String) (duration : Nat)        -- duration 0 = never expires (per instance)
  | purge (id : String)
  | clear
  | advance (dt : Nat)
  | reopen (version : String)                 -- a new cache instance checks the version stamp
  | tear (id : String)                        -- crash / full disk / concurrent writer damaged the file
  | vanish (id : String)                      -- file removed behind our back
  | stamp (version : String)                  -- another program rewrote the version stamp
  deriving Repr, DecidableEq

structure State where
  dir : Dir
  now : Nat
  deriving Repr, DecidableEq

/-- `get`: expiry check (`__remove_if_expired`), then load; any failure purges the entry. -/
def getEntry (s : State) (id : String) (duration : Nat) : State × Option Nat :=
  match lookup id s.dir.files with
  | none => (s, none)
  | some f =>
    if duration ≠ 0 ∧ f.ctime + duration < s.now then
      ({ s with dir := { s.dir with files := erase id s.dir.files } }, none)
    else if f.intact then (s, some f.obj)
    else ({ s with dir := { s.dir with files := erase id s.dir.files } }, none)

def step (s : State) : Op → State × Option Nat
  | .put id o => ({ s with dir := { s.dir with files := upsert id ⟨o, true, s.now⟩ s.dir.files } }, none)
  | .get id d => getEntry s id d
  | .purge id => ({ s with dir := { s.dir with files := erase id s.dir.files } }, none)
  | .clear => ({ s with dir := { s.dir with files := [] } }, none)
  | .advance dt => ({ s with now := s.now + dt }, none)
  | .reopen v =>
    if s.dir.version = some v then (s, none)
    else ({ s with dir := { files := [], version := some v } }, none)
  | .tear id =>
    ({ s with dir := { s.dir with files := s.dir.files.map fun kv =>
        if kv.1 = id then (kv.1, { kv.2 with intact := false }) else kv } }, none)
  | .vanish id => ({ s with dir := { s.dir with files := erase id s.dir.files } }, none)
  | .stamp v => ({ s with dir := { s.dir with version := some v } }, none)

/-- Reference: the object most recently stored under each id, and when. -/
abbrev Spec := List (String × Nat × Nat)

def specLookup (id : String) : Spec → Option (Nat × Nat)
  | [] => none
  | (k, o, t) :: rest => if k = id then some (o, t) else specLookup id rest

def specStep (sp : Spec) (now : Nat) : Op → Spec
  | .put id o => (id, o, now) :: sp
  | _ => sp

/-- Run a history; collect the result of every `get` together with what the reference says was
last stored under that id at that moment. -/
def run : State → Spec → List Op → List (Option Nat × Option (Nat × Nat) × Nat × Nat)
  | _, _, [] => []
  | s, sp, op :: ops =>
    let r := step s op
    let sp' := specStep sp s.now op
    match op with
    | .get id d => (r.2, specLookup id sp, d, s.now) :: run r.1 sp' ops
    | _ => run r.1 sp' ops

/-- `FileCache.__filename`: `<fnprefix>-<id>.<suffix>` in the cache folder. -/
def entryFile (fnprefix id suffix : String) : String := fnprefix ++ "-" ++ id ++ "." ++ suffix

end Suds.Cache
