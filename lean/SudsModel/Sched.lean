import SudsModel.Gen.Tables
/-!
C13: an abstract step model of concurrent invocations over shared state. An invocation is a list
of atomic steps; shared variables are either *memo* cells (written once with a value determined by
the key: `TypedContent.resolved_cache`, `sudsobject.Factory.cache`) or *scratch* cells (written with
call-specific data and read back later: what `Binding.multiref` used to be). Which Python
operations are atomic under the GIL is runtime and not modelled.
-/
namespace Suds.Sched

inductive Step where
  | memoRead (key : Nat)          -- read a memo cell, computing and storing `f key` when empty
  | scratchWrite (var : Nat)      -- store the call's own datum in a shared scratch variable
  | scratchRead (var : Nat)       -- read it back into the call's result
  | priv                          -- a step on call-private state
  deriving Repr, DecidableEq

structure Shared where
  memo : List (Nat × Nat)
  scratch : List (Nat × Nat)
  deriving Repr, DecidableEq

def cell (k : Nat) : List (Nat × Nat) → Option Nat
  | [] => none
  | (a, b) :: rest => if a = k then some b else cell k rest

/-- One step of call `who` (whose own datum is `datum who`); returns what the call observed. -/
def exec (f : Nat → Nat) (datum : Nat → Nat) (s : Shared) (who : Nat) : Step → Shared × Option Nat
  | .memoRead k =>
    match cell k s.memo with
    | some v => (s, some v)
    | none => ({ s with memo := (k, f k) :: s.memo }, some (f k))
  | .scratchWrite v => ({ s with scratch := (v, datum who) :: s.scratch }, none)
  | .scratchRead v => (s, some ((cell v s.scratch).getD 0))
  | .priv => (s, none)

/-- Run a schedule (a list of (call, step) in execution order); collect per call what it observed. -/
def run (f : Nat → Nat) (datum : Nat → Nat) : Shared → List (Nat × Step) → List (Nat × Nat)
  | _, [] => []
  | s, (who, st) :: rest =>
    let r := exec f datum s who st
    match r.2 with
    | some v => (who, v) :: run f datum r.1 rest
    | none => run f datum r.1 rest

def observations (who : Nat) (obs : List (Nat × Nat)) : List Nat := (obs.filter (·.1 == who)).map (·.2)

/-- What call `who` observes when it runs alone on any state whose memo cells are consistent. -/
def solo (f : Nat → Nat) : List Step → List Nat
  | [] => []
  | .memoRead k :: rest => f k :: solo f rest
  | _ :: rest => solo f rest

def MemoOK (f : Nat → Nat) (s : Shared) : Prop := ∀ k v, cell k s.memo = some v → v = f k

def noScratch : List (Nat × Step) → Bool
  | [] => true
  | (_, .scratchWrite _) :: _ => false
  | (_, .scratchRead _) :: _ => false
  | _ :: rest => noScratch rest

def stepsOf (who : Nat) (sched : List (Nat × Step)) : List Step := (sched.filter (·.1 == who)).map (·.2)

end Suds.Sched
