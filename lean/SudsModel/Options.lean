import SudsModel.Gen.Tables
/-!
Model of `suds/properties.py` (`Properties`, `Link`, `Definition`), `suds/options.py`
(`Options`, `TpLinker`) and `Client.clone()`: a network of property sets (nodes) joined by
links; `set`/`get` first look for the *provider* of the name (own definitions, then a depth
first search through the links), then validate → default on None → store → run the linker.
The definition tables are generated from the source.
-/
namespace Suds.Options
open Suds.Gen

/-- A Python value as far as the options machinery looks at it. -/
structure Val where
  isNone : Bool
  isa : List String           -- class names it is an instance of (`isinstance`)
  repr : String               -- canonical rendering (identity for objects)
  tnode : Option Nat := none  -- for a Transport object: the node of its `.options`
  deriving Repr, DecidableEq

def Val.none : Val := { isNone := true, isa := [], repr := "None", tnode := Option.none }

inductive Domain where
  | client | transport
  deriving Repr, DecidableEq

def defsOf : Domain → List OptDef
  | .client => clientOptionDefs
  | .transport => transportOptionDefs

/-- The default of a definition, as a value. -/
def defaultVal (d : OptDef) : Val :=
  if d.default = "None" then Val.none else { isNone := false, isa := [], repr := d.default, tnode := Option.none }

structure Node where
  domain : Domain
  values : List (String × Val)   -- `Properties.defined`
  links : List Nat
  deriving Repr, DecidableEq

abbrev World := List Node

def newNode (dom : Domain) : Node :=
  { domain := dom, values := (defsOf dom).map fun d => (d.name, defaultVal d), links := [] }

def World.node (w : World) (n : Nat) : Node := w.getD n (newNode .client)

def defines (w : World) (n : Nat) (name : String) : Bool :=
  (defsOf (w.node n).domain).any (·.name == name)

/-- One iteration of `for x in self.links` inside `provider`. -/
def provStep (rec : Nat → Option Nat) (seen : List Nat) (acc : Option Nat) (x : Nat) : Option Nat :=
  match acc with
  | some r => some r
  | none => if seen.contains x then none else rec x

/-- `Properties.provider(name, history)`; `path` = the nodes currently on the search path. -/
def findProv (w : World) (name : String) : Nat → Nat → List Nat → Option Nat
  | 0, _, _ => none
  | fuel + 1, n, path =>
    if defines w n name then some n
    else (w.node n).links.foldl (provStep (fun x => findProv w name fuel x (n :: path)) (n :: path)) none

/-- The provider of `name` seen from node `n` (the node itself when nobody defines it). -/
def provider (w : World) (n : Nat) (name : String) : Nat :=
  (findProv w name (w.length + 1) n []).getD n

inductive Err where
  | attributeError      -- unknown name or value of the wrong type
  | linkError           -- `Link.validate` refused (raised after the value was stored)
  deriving Repr, DecidableEq

def lookupDef (dom : Domain) (name : String) : Option OptDef := (defsOf dom).find? (·.name == name)

/-- `Definition.validate` -/
def accepts (d : OptDef) (v : Val) : Bool :=
  v.isNone || d.classes.isEmpty || v.isa.any (d.classes.contains ·)

def setValue : List (String × Val) → String → Val → List (String × Val)
  | [], _, _ => []
  | (k, x) :: rest, name, v =>
    if k = name then (k, v) :: setValue rest name v else (k, x) :: setValue rest name v

def getValue : List (String × Val) → String → Val
  | [], _ => Val.none
  | (k, x) :: rest, name => if k = name then x else getValue rest name

def modifyNode (w : World) (n : Nat) (f : Node → Node) : World :=
  w.mapIdx fun i x => if i = n then f x else x

/-- all nodes reachable through links (for `domains()` / `keys()` of `Link.validate`) -/
def reach (w : World) : Nat → List Nat → List Nat
  | 0, acc => acc
  | fuel + 1, acc =>
    let next := acc.foldl (fun a n => (w.node n).links.foldl (fun a2 x => if a2.contains x then a2 else a2 ++ [x]) a) acc
    if next.length = acc.length then acc else reach w fuel next

/-- `Link(a, b)` with its validation. -/
def link (w : World) (a b : Nat) : Except Err World :=
  if (w.node a).links.contains b || (w.node b).links.contains a then .error .linkError
  else
    let ra := reach w (w.length + 1) [a]
    let rb := reach w (w.length + 1) [b]
    let da := ra.map fun n => (w.node n).domain
    let db := rb.map fun n => (w.node n).domain
    if da.any (db.contains ·) then .error .linkError
    else .ok (modifyNode (modifyNode w a fun x => { x with links := x.links ++ [b] }) b
                fun x => { x with links := x.links ++ [a] })

/-- `Properties.unlink(other)` -/
def unlink (w : World) (a b : Nat) : World :=
  modifyNode (modifyNode w a fun x => { x with links := x.links.filter (· != b) }) b
    fun x => { x with links := x.links.filter (· != a) }

/-- `TpLinker.updated(properties, prev, next)`: unlink the old transport's options, link the new
one's. A refused link is reported, but by then the value is stored and the old link is gone. -/
def relink (w1 : World) (p : Nat) (prev next : Val) : World × Option Err :=
  let w2 := match prev.tnode with
    | some t => unlink w1 p t
    | none => w1
  match next.tnode with
  | some t => match link w2 p t with
    | .ok w3 => (w3, none)
    | .error _ => (w2, some .linkError)
  | none => (w2, none)

/-- The store step of `Properties.__set` at the providing node `p`. -/
def store (w : World) (p : Nat) (name : String) (v : Val) : World :=
  modifyNode w p fun x => { x with values := setValue x.values name v }

/-- `Properties.set(name, value)` entered at node `n`. The world is returned even on a link
error because the value was already stored by then. -/
def set (w : World) (n : Nat) (name : String) (v : Val) : World × Option Err :=
  let p := provider w n name
  match lookupDef (w.node p).domain name with
  | none => (w, some .attributeError)
  | some d =>
    if !accepts d v then (w, some .attributeError)
    else
      let v' := if v.isNone then defaultVal d else v
      let w1 := store w p name v'
      if d.linker = "" then (w1, none)
      else relink w1 p (getValue (w.node p).values name) v'

/-- `Properties.get(name)` entered at node `n`. -/
def get (w : World) (n : Nat) (name : String) : Except Err Val :=
  let p := provider w n name
  match lookupDef (w.node p).domain name with
  | none => .error .attributeError
  | some _ => .ok (getValue (w.node p).values name)

/-- `Properties.update(other)`: set every defined item of `src`, in order, entering at `dst`. -/
def updateFrom (w : World) (dst : Nat) (items : List (String × Val)) : World :=
  items.foldl (fun acc kv => (set acc dst kv.1 kv.2).1) w

/-- `Client.clone()`: fresh client options; the transport is deep-copied (a new transport whose
options are updated from the original's, `HttpTransport.__deepcopy__`); then
`cp.update(deepcopy(mp))`. Returns the world and the new client node (= old length) and, when
there is a transport, its options node (= old length + 1). -/
def clone (w : World) (c : Nat) (freshRepr : String) : World :=
  let cnew := w.length
  let w1 := w ++ [newNode .client]
  let items := (w.node c).values
  let tv := getValue items "transport"
  match tv.tnode with
  | none => updateFrom w1 cnew items
  | some t =>
    let tnew := w1.length
    let w2 := w1 ++ [newNode .transport]
    let w3 := updateFrom w2 tnew (w.node t).values
    let tv' : Val := { tv with repr := freshRepr, tnode := some tnew }
    updateFrom w3 cnew (items.map fun kv => if kv.1 == "transport" then (kv.1, tv') else kv)

end Suds.Options
