import SudsModel.Reply
/-!
Model of `suds/plugin.py` (`PluginContainer.__getattr__` domain filter, `Method.__call__` in-order
dispatch) and of the hook call sites of one invocation (`_SoapClient.send/process_reply`,
`DocumentReader.open/__fetch`, `Client.__init__`), over the generated tables.
-/
namespace Suds.Plugin
open Suds.Gen Suds.Reply

/-- A registered plugin: its base class and the hooks it overrides (others are the no-op defaults). -/
structure Plug where
  kind : String
  hooks : List String
  deriving Repr, DecidableEq

def domainClass (domain : String) : Option String := (pluginDomains.find? (·.1 == domain)).map (·.2)

def pmatches (cls hook : String) (p : Plug) : Bool := p.kind == cls && p.hooks.contains hook

/-- `plugins.<domain>.<hook>(...)`: the plugins of the domain's class, in registration order. -/
def dispatchFrom (cls hook : String) : Nat → List Plug → List (Nat × String)
  | _, [] => []
  | i, p :: ps => if pmatches cls hook p then (i, hook) :: dispatchFrom cls hook (i + 1) ps
                  else dispatchFrom cls hook (i + 1) ps

def dispatch (plugins : List Plug) (domain hook : String) : List (Nat × String) :=
  match domainClass domain with
  | some cls => dispatchFrom cls hook 0 plugins
  | none => []

/-- The hooks of `_SoapClient.send`. -/
def sendLog (plugins : List Plug) : List (Nat × String) :=
  sendHookCalls.flatMap (dispatch plugins "message")

/-- Which of the reply hooks an invocation gets to (cf. `Reply.process`). -/
def replyStages (status : Option Nat) (b : Body) (retxml : Bool) : List String :=
  let s := status.getD replyDefaultStatus
  if replyAcceptedStatuses.contains s then []
  else
    let parsed := replyParsedStatuses.contains s
    if parsed && b == .malformed then ["received"]
    else
      let pre := if parsed then ["received", "parsed"] else ["received"]
      if parsed && b.isFault then pre
      else if s ≠ 200 then pre
      else if retxml then pre
      else if b == .nonSoap then pre
      else pre ++ ["unmarshalled"]

def replyLog (plugins : List Plug) (status : Option Nat) (b : Body) (retxml : Bool) : List (Nat × String) :=
  ((replyHookCalls.filter ((replyStages status b retxml).contains ·)).flatMap (dispatch plugins "message"))

/-- The whole invocation; `reply = none`: nothing comes back (nosend). -/
def invokeLog (plugins : List Plug) (reply : Option (Option Nat × Body)) (retxml : Bool) : List (Nat × String) :=
  sendLog plugins ++ match reply with
    | none => []
    | some (st, b) => replyLog plugins st b retxml

/-- `DocumentReader.open` of a document that has to be fetched / that comes from the cache. -/
def openLog (plugins : List Plug) (fetched : Bool) : List (Nat × String) :=
  (if fetched then fetchHookCalls.flatMap (dispatch plugins "document") else []) ++
    openHookCalls.flatMap (dispatch plugins "document")

def stageIdx (h : String) : Nat :=
  (["marshalled", "sending", "received", "parsed", "unmarshalled"].idxOf h)

end Suds.Plugin
