/-!
Model of `suds/argparser.py` (`_ArgParser`, `Frame`, `ChoiceFrame`) and the recursive
specification it is meant to implement. No imports (linked into the driver).

* Impl: the frame stack is `(root, chain)`: the sentinel/root frame plus the open frames
  outermost-first (`self.__stack[0]` and `self.__stack[1:]`). `reopen` is `__update_context`
  (`__match_ancestry` + `__pop_frames_above` + `__push_frames`), `closeChain` is the repeated
  `__pop_top_frame`/`process_subframe`.
  The "multiple values for a single choice" exception is modelled by a sticky `conflict`
  flag that is propagated to the sentinel and turned into the error at the end: the real
  code raises at once, and nothing but the error is observable after that.
* Spec: a parameter tree `PT`; `required` = sum over sequences / min over choice branches,
  `allowed` = number of leaves, one value per choice.
-/
namespace Suds.ArgParser

/-- An ancestry item: identity (`is` comparison) and its `choice()` answer. -/
structure Anc where
  id : Nat
  choice : Bool
  deriving Repr, DecidableEq, BEq

/-- A parameter definition as `parse_args` sees it. -/
structure Leaf where
  name : String
  optional : Bool
  anc : List Anc
  deriving Repr, DecidableEq

/-- Counters of a frame = what a closed frame (or a parameter) contributes to its parent. -/
structure Acc where
  allowed : Nat
  required : Nat
  hasValue : Bool
  hasItem : Bool      -- `ChoiceFrame.__has_item`
  conflict : Bool     -- a choice received two values (exception pending)
  deriving Repr, DecidableEq

def Acc.empty : Acc := ⟨0, 0, false, false, false⟩

/-- `Frame._process_item` / `ChoiceFrame._process_item` on the counters. -/
def Acc.addRaw (choice : Bool) (p c : Acc) : Acc :=
  if choice then
    { allowed := p.allowed + c.allowed
      required := if p.hasItem then min p.required c.required else c.required
      hasValue := p.hasValue || c.hasValue
      hasItem := true
      conflict := p.conflict || c.conflict || (p.hasValue && c.hasValue) }
  else
    { allowed := p.allowed + c.allowed
      required := p.required + c.required
      hasValue := p.hasValue || c.hasValue
      hasItem := true
      conflict := p.conflict || c.conflict }

structure Frame where
  id : Option Nat          -- `none`: the sentinel frame
  choice : Bool
  acc : Acc
  deriving Repr, DecidableEq

inductive Err where
  | multiChoice                                   -- "got multiple values for a single choice parameter"
  | multipleValues (name : String)                -- "got multiple values for parameter '%s'"
  | unexpectedKw (name : String)                  -- "got an unexpected keyword argument '%s'"
  | positional (required allowed given : Nat)     -- "takes N [to M] positional argument(s) but G was/were given"
  deriving Repr, DecidableEq

def fresh (a : Anc) : Frame := { id := some a.id, choice := a.choice, acc := Acc.empty }

def Frame.item (f : Frame) (c : Acc) : Frame := { f with acc := f.acc.addRaw f.choice c }

/-- Pop every frame of the chain into the frame below it; result: the updated bottom frame. -/
def closeChain : Frame → List Frame → Frame
  | f, [] => f
  | f, g :: gs => f.item (closeChain g gs).acc

/-- `__update_context` (for the empty ancestry: close everything above the root). -/
def reopen : Frame → List Frame → List Anc → Frame × List Frame
  | root, [], anc => (root, anc.map fresh)
  | root, f :: fs, [] => (root.item (closeChain f fs).acc, [])
  | root, f :: fs, a :: as =>
    if f.id = some a.id then
      let r := reopen f fs as
      (root, r.1 :: r.2)
    else (root.item (closeChain f fs).acc, (a :: as).map fresh)

/-- Apply `item` to the top frame of `(root, chain)`. -/
def addTop : Frame → List Frame → Acc → Frame × List Frame
  | root, [], c => (root.item c, [])
  | root, f :: fs, c =>
    let r := addTop f fs c
    (root, r.1 :: r.2)

def leafAcc (optional hasValue : Bool) : Acc :=
  ⟨1, if optional then 0 else 1, hasValue, true, false⟩

/-- `__update_context` + `process_parameter` on the top frame. -/
def feedR (st : Frame × List Frame) (anc : List Anc) (c : Acc) : Frame × List Frame :=
  let r := reopen st.1 st.2 anc
  addTop r.1 r.2 c

/-- As the code does it: an empty ancestry leaves the stack untouched. -/
def feed (st : Frame × List Frame) (anc : List Anc) (c : Acc) : Frame × List Frame :=
  if anc.isEmpty then addTop st.1 st.2 c else feedR st anc c

abbrev Val := Option String     -- `none` = Python `None`

structure St where
  frames : Frame × List Frame
  args : List Val
  kwargs : List (String × Val)
  withArgs : List String
  delivered : List (String × Bool × Val)     -- (name, in_choice_context, value)
  deriving Repr

def popKw (name : String) : List (String × Val) → Option (Val × List (String × Val))
  | [] => none
  | (k, v) :: rest =>
    if k = name then some (v, rest)
    else (popKw name rest).map fun (x, r) => (x, (k, v) :: r)

/-- `__get_param_value`: (has_argument, value, remaining args, remaining kwargs). -/
def getParam (name : String) (args : List Val) (kwargs : List (String × Val)) :
    Bool × Val × List Val × List (String × Val) :=
  match args with
  | v :: rest => (true, v, rest, kwargs)
  | [] => match popKw name kwargs with
    | some (v, rest) => (true, v, [], rest)
    | none => (false, none, [], kwargs)

/-- `__process_parameter` -/
def step (st : St) (l : Leaf) : St :=
  let g := getParam l.name st.args st.kwargs
  let withArgs := if g.1 then st.withArgs ++ [l.name] else st.withArgs
  let fr := feed st.frames l.anc (leafAcc l.optional g.2.1.isSome)
  let inChoice := fr.2.any (·.choice)
  { frames := fr, args := g.2.2.1, kwargs := g.2.2.2, withArgs,
    delivered := st.delivered ++ [(l.name, inChoice, g.2.1)] }

structure Result where
  required : Nat
  allowed : Nat
  delivered : List (String × Bool × Val)
  deriving Repr, DecidableEq

def sentinel : Frame := { id := none, choice := false, acc := Acc.empty }

/-- `__check_for_extra_arguments` and the result. -/
def finish (strict : Bool) (acc : Acc) (restArgs : List Val) (restKw : List (String × Val))
    (withArgs : List String) (given : Nat) (delivered : List (String × Bool × Val)) :
    Except Err Result :=
  if strict && acc.conflict then .error .multiChoice
  else if strict then
    match restKw with
    | (k, _) :: _ =>
      if withArgs.contains k then .error (.multipleValues k) else .error (.unexpectedKw k)
    | [] =>
      if !restArgs.isEmpty then .error (.positional acc.required acc.allowed given)
      else .ok ⟨acc.required, acc.allowed, delivered⟩
  else .ok ⟨acc.required, acc.allowed, delivered⟩

/-- `_ArgParser.__call__` -/
def run (strict : Bool) (leaves : List Leaf) (args : List Val) (kwargs : List (String × Val)) :
    Except Err Result :=
  let st0 : St := { frames := (sentinel, []), args, kwargs, withArgs := [], delivered := [] }
  let st := leaves.foldl step st0
  let top := closeChain st.frames.1 st.frames.2
  finish strict top.acc st.args st.kwargs st.withArgs (args.length + kwargs.length) st.delivered

/-! ### Specification -/

/-- Parameter trees; leaves carry a payload. -/
inductive PT (α : Type) where
  | leaf (a : α)
  | node (id : Nat) (choice : Bool) (kids : List (PT α))
  deriving Repr

/-- Leaf payloads with their ancestry relative to the forest root, in document order. -/
def PT.flat {α} : PT α → List (List Anc × α)
  | .leaf a => [([], a)]
  | .node i c kids => (flatKids kids).map fun p => (⟨i, c⟩ :: p.1, p.2)
where flatKids : List (PT α) → List (List Anc × α)
  | [] => []
  | k :: ks => k.flat ++ flatKids ks

def flatForest {α} (kids : List (PT α)) : List (List Anc × α) := PT.flat.flatKids kids

/-- Replace the leaf payloads, left to right, by `f payload value` using the values of a list
(`dflt` when the list is too short). Returns the remaining values. -/
def PT.fill {α β γ} (f : α → β → γ) (dflt : β) : PT α → List β → PT γ × List β
  | .leaf a, vs => (.leaf (f a (vs.headD dflt)), vs.tail)
  | .node i c kids, vs =>
    let r := fillKids f dflt kids vs
    (.node i c r.1, r.2)
where fillKids {α β γ} (f : α → β → γ) (dflt : β) : List (PT α) → List β → List (PT γ) × List β
  | [], vs => ([], vs)
  | k :: ks, vs =>
    let r := k.fill f dflt vs
    let r2 := fillKids f dflt ks r.2
    (r.1 :: r2.1, r2.2)

def fillForest {α β γ} (f : α → β → γ) (dflt : β) (kids : List (PT α)) (vs : List β) : List (PT γ) :=
  (PT.fill.fillKids f dflt kids vs).1

/-- Combine a child's summary into its parent container: sum / min, one value per choice.
A container without any parameter in it is invisible. -/
def Acc.add (choice : Bool) (p c : Acc) : Acc :=
  if !c.hasItem then p else p.addRaw choice c

/-- The recursive rule. Leaves carry `(optional, hasValue)`. -/
def PT.summ : PT (Bool × Bool) → Acc
  | .leaf a => leafAcc a.1 a.2
  | .node _ c kids => summKids c Acc.empty kids
where summKids (choice : Bool) (acc : Acc) : List (PT (Bool × Bool)) → Acc
  | [] => acc
  | k :: ks => summKids choice (acc.add choice k.summ) ks

def summForest (kids : List (PT (Bool × Bool))) : Acc := PT.summ.summKids false Acc.empty kids

/-- `in_choice_context` of each leaf: some container on its path is a choice. -/
def inChoiceOf (p : List Anc) : Bool := p.any (·.choice)

/-- Positional-then-keyword binding of values to the parameters in order (`__get_param_value`).
Per parameter `(hasArgument, value)`; and the leftovers. -/
def bind : List String → List Val → List (String × Val) →
    List (Bool × Val) × List Val × List (String × Val)
  | [], args, kw => ([], args, kw)
  | n :: ns, args, kw =>
    let g := getParam n args kw
    let r := bind ns g.2.2.1 g.2.2.2
    ((g.1, g.2.1) :: r.1, r.2.1, r.2.2)

/-- A parameter definition in a tree: name and `optional()`. -/
abbrev PDef := String × Bool

/-- The specification of a call whose parameters are the forest `kids` (the children of the
sentinel frame): counts by the recursive rule, Python-like binding, errors. -/
def spec (strict : Bool) (kids : List (PT PDef)) (args : List Val) (kwargs : List (String × Val)) :
    Except Err Result :=
  let lv := flatForest kids
  let names := lv.map (·.2.1)
  let b := bind names args kwargs
  let valued := fillForest (fun (d : PDef) (x : Bool × Val) => (d.2, x.2.isSome)) (false, none) kids b.1
  let acc := summForest valued
  let delivered := (lv.zip b.1).map fun (l, x) => (l.2.1, inChoiceOf l.1, x.2)
  let withArgs := ((names.zip b.1).filter (fun nb => nb.2.1)).map (·.1)
  finish strict acc b.2.1 b.2.2 withArgs (args.length + kwargs.length) delivered

/-- The leaves `parse_args` is given for a forest. -/
def leavesOf (kids : List (PT PDef)) : List Leaf :=
  (flatForest kids).map fun l => ⟨l.2.1, l.2.2, l.1⟩

/-- The implementation run on the flattened forest. -/
def runForest (strict : Bool) (kids : List (PT PDef)) (args : List Val) (kwargs : List (String × Val)) :
    Except Err Result :=
  run strict (leavesOf kids) args kwargs

end Suds.ArgParser
