import SudsModel.Xsd.DepSort
/-!
Model of document-graph loading (`wsdl.Definitions.__init__` / `Import.load`,
`sxbasic.Import.open` / `Include.open`, `Schema.__init__`): two depth-first traversals with a
memo by URL. Documents are numbered; a traversal is the generic memoised depth-first walk `visit`
of `SudsModel/Xsd/DepSort.lean` (the memo is `processed`, in order of first entry).

* WSDL level: `imported_definitions` — every `Definitions(url)` fetches its document on entry and
  then loads its `wsdl:import`s (edges of `wsdl`); a document already in the memo is not fetched.
* schema level: each `Definitions` builds its schema once all its imports are done, with a fresh
  `loaded_schemata` memo: the `xsd:import` / `xsd:include` locations of its inline schema nodes
  (and of the schema documents it pulled in through `wsdl:import`) are loaded depth-first over the
  edges of `xsd`. An inline import is skipped when it has no location or names a namespace that
  another inline schema node of the same WSDL defines (`Import.__locate`).

No Mathlib import.
-/
namespace Suds.Loader
open Suds.Xsd

/-- an `xsd:import` / `xsd:include` in an inline schema node: namespace and target document -/
structure InlineRef where
  isImport : Bool
  ns : String
  target : Option Nat
  deriving Repr, DecidableEq

structure InlineBlock where
  tns : String
  refs : List InlineRef
  deriving Repr, DecidableEq

structure Web where
  wsdl : Graph                                  -- Definitions documents and their wsdl:import targets
  xsd : Graph                                   -- schema documents and their import / include targets
  inline : List (Nat × List InlineBlock)        -- per Definitions document: its schema nodes, in order
  deriving Repr

/-- documents fetched by `Definitions(...)` constructors, in fetch order -/
def wsdlFetches (w : Web) (root : Nat) : List Nat :=
  (visit w.wsdl (w.wsdl.length + 1) ⟨[], []⟩ root).processed.reverse

/-- the order in which the Definitions objects build their schemas: imports first -/
def buildOrder (w : Web) (root : Nat) : List Nat :=
  (visit w.wsdl (w.wsdl.length + 1) ⟨[], []⟩ root).rsorted.reverse

def blocksOf (w : Web) (d : Nat) : List InlineBlock :=
  match w.inline.find? (·.1 == d) with
  | some e => e.2
  | none => []

/-- the schema documents one Definitions asks for directly (`Import.open` on its inline nodes) -/
def passRoots (w : Web) (d : Nat) : List Nat :=
  let blocks := blocksOf w d
  let inlineNs := blocks.map (·.tns)
  blocks.flatMap fun b => b.refs.filterMap fun r =>
    if r.isImport && r.ns != b.tns && inlineNs.contains r.ns then none else r.target

/-- the schema documents fetched while one Definitions builds its schema, in fetch order -/
def passFetches (w : Web) (d : Nat) : List Nat :=
  (visitAll w.xsd (w.xsd.length + 1) ⟨[], []⟩ (passRoots w d)).processed.reverse

/-- every fetch of a load, grouped: the Definitions documents, then one group per schema build -/
def allFetches (w : Web) (root : Nat) : List Nat :=
  wsdlFetches w root ++ (buildOrder w root).flatMap (passFetches w)

end Suds.Loader

namespace Suds.Loader

/-! ### the document cache (`reader.DocumentReader.open` / `DefinitionsReader.open`)

A cached entry is written only after the document has been fetched *and* parsed; the WSDL object
only after the whole construction has returned. -/

/-- what the source answers for one fetch -/
inductive Outcome where
  | unreachable                -- the transport raises
  | illFormed                  -- bytes that do not parse
  | doc (content : Nat)        -- a well-formed document (content abstracted to a number)
  deriving Repr, DecidableEq

abbrev DocCache := List (Nat × Nat)      -- url ↦ parsed content

def cacheGet (c : DocCache) (u : Nat) : Option Nat := (c.find? (·.1 == u)).map (·.2)

/-- `DocumentReader.open(url)` with cachingpolicy 0: (the document or failure, the cache afterwards) -/
def openDoc (c : DocCache) (u : Nat) (src : Nat → Outcome) : Option Nat × DocCache :=
  match cacheGet c u with
  | some d => (some d, c)
  | none =>
    match src u with
    | .doc d => (some d, c ++ [(u, d)])
    | _ => (none, c)

/-- a load opens documents one after the other and stops at the first failure -/
def openAll (c : DocCache) (src : Nat → Outcome) : List Nat → Option (List Nat) × DocCache
  | [] => (some [], c)
  | u :: rest =>
    match openDoc c u src with
    | (none, c') => (none, c')
    | (some d, c') =>
      match openAll c' src rest with
      | (none, c'') => (none, c'')
      | (some ds, c'') => (some (d :: ds), c'')

/-- every entry is a faithful copy of what the source holds -/
def Faithful (c : DocCache) (src : Nat → Outcome) : Prop := ∀ u d, (u, d) ∈ c → src u = .doc d

end Suds.Loader
