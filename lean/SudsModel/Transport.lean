/-!
Model of the pure parts of `suds/transport/http.py`: Base64 (both alphabets) as used for the
preemptive Basic credentials, the credentials header, the request-body transform chosen by the
caller's `Content-Encoding`, and the response mapping. Sockets, urllib, cookie policy and
gzip/zlib themselves are runtime (trusted, exercised by the loopback harness). No imports.
-/
namespace Suds.Transport

abbrev Byte := Nat    -- values < 256

def stdAlphabet : List Char :=
  "ABCDEFGHIJKLMNOPQRSTUVWXYZabcdefghijklmnopqrstuvwxyz0123456789+/".toList

def urlAlphabet : List Char :=
  "ABCDEFGHIJKLMNOPQRSTUVWXYZabcdefghijklmnopqrstuvwxyz0123456789-_".toList

def sextetChar (alpha : List Char) (s : Nat) : Char := alpha.getD s '?'

def charSextet (alpha : List Char) (c : Char) : Option Nat :=
  let i := alpha.idxOf c
  if i < alpha.length then some i else none

/-- `base64.b64encode` / `urlsafe_b64encode` -/
def encode (alpha : List Char) : List Byte → List Char
  | [] => []
  | [a] => [sextetChar alpha (a / 4), sextetChar alpha ((a % 4) * 16), '=', '=']
  | [a, b] => [sextetChar alpha (a / 4), sextetChar alpha ((a % 4) * 16 + b / 16),
               sextetChar alpha ((b % 16) * 4), '=']
  | a :: b :: c :: rest =>
    sextetChar alpha (a / 4) :: sextetChar alpha ((a % 4) * 16 + b / 16) ::
    sextetChar alpha ((b % 16) * 4 + c / 64) :: sextetChar alpha (c % 64) :: encode alpha rest

/-- A standard (RFC 4648) decoder, as a server would use. -/
def decode (alpha : List Char) : List Char → Option (List Byte)
  | [] => some []
  | [c1, c2, '=', '='] => do
    let s1 ← charSextet alpha c1
    let s2 ← charSextet alpha c2
    pure [s1 * 4 + s2 / 16]
  | [c1, c2, c3, '='] => do
    let s1 ← charSextet alpha c1
    let s2 ← charSextet alpha c2
    let s3 ← charSextet alpha c3
    pure [s1 * 4 + s2 / 16, (s2 % 16) * 16 + s3 / 4]
  | c1 :: c2 :: c3 :: c4 :: rest => do
    let s1 ← charSextet alpha c1
    let s2 ← charSextet alpha c2
    let s3 ← charSextet alpha c3
    let s4 ← charSextet alpha c4
    let r ← decode alpha rest
    pure ((s1 * 4 + s2 / 16) :: ((s2 % 16) * 16 + s3 / 4) :: ((s3 % 4) * 64 + s4) :: r)
  | _ => none

/-- `user:password` split at the first colon (RFC 7617). -/
def splitColon : List Byte → Option (List Byte × List Byte)
  | [] => none
  | b :: rest => if b = 58 then some ([], rest) else (splitColon rest).map fun (u, p) => (b :: u, p)

/-- The value of the `Authorization` header after `Basic `. -/
def credentials (alpha : List Char) (user pass : List Byte) : List Char := encode alpha (user ++ [58] ++ pass)

inductive BodyCoding where
  | identity | gzip | deflate
  deriving Repr, DecidableEq

/-- `HttpTransport.send`: how the message is transformed given the caller's Content-Encoding. -/
def requestCoding (contentEncoding : Option String) : BodyCoding :=
  match contentEncoding with
  | some "gzip" => .gzip
  | some "deflate" => .deflate
  | _ => .identity

/-- How a response body is transformed given the server's Content-Encoding. -/
def responseCoding (contentEncoding : Option String) : BodyCoding := requestCoding contentEncoding

inductive Outcome where
  | reply            -- Reply(200, headers, body)
  | transportError (code : Nat)
  deriving Repr, DecidableEq

/-- urllib raises HTTPError outside 2xx (after following redirects); suds maps it. -/
def responseOutcome (status : Nat) : Outcome :=
  if 200 ≤ status ∧ status < 300 then .reply else .transportError status

end Suds.Transport
