import SudsModel.Lemmas.RoundTrip
/-!
C02 — how decoded children are collected and what a node becomes (`umx/core.py`
`append_children` / `postprocess`, `umx/typed.py`, `umx/encoded.py`), for every sequence of
children. The decoder reads the namespace-resolved infoset (`Info`), so two presentations of one
infoset are one input to it; that suds' parser and prefix passes deliver that infoset is what the
C02 correspondence (and C04/C05) check.
-/
namespace Suds.Schema
open Suds.Xml

/-- the decoded values filed under key `k`, in document order -/
def valsOf (k : String) (xs : List (String × Bool × Py)) : List Py :=
  (xs.filter (·.1 == k)).map (·.2.2)

theorem plookup_pset_same (k : String) (v : Py) : ∀ acc, (∃ o, plookup k acc = some o) →
    plookup k (pset k v acc) = some v := by
  intro acc
  induction acc with
  | nil => intro ⟨o, h⟩; simp [plookup] at h
  | cons e rest ih =>
    intro ⟨o, h⟩
    obtain ⟨k', v'⟩ := e
    by_cases hk : k' == k
    · simp [pset, plookup, hk]
    · simp only [plookup, hk] at h
      simp [pset, plookup, hk, ih ⟨o, h⟩]

theorem plookup_pset_other (k k2 : String) (v : Py) (hne : k2 ≠ k) : ∀ acc,
    plookup k (pset k2 v acc) = plookup k acc := by
  intro acc
  induction acc with
  | nil =>
    have : (k2 == k) = false := by simpa using hne
    simp [pset, plookup, this]
  | cons e rest ih =>
    obtain ⟨k', v'⟩ := e
    by_cases hk : k' == k2
    · have e1 : k' = k2 := by simpa using hk
      subst e1
      have : (k' == k) = false := by simpa using hne
      simp [pset, plookup, this]
    · by_cases hk2 : k' == k
      · simp [pset, plookup, hk, hk2]
      · simp [pset, plookup, hk, hk2, ih]

theorem plookup_append_other (k k2 : String) (v : Py) (hne : k2 ≠ k) : ∀ acc,
    plookup k (acc ++ [(k2, v)]) = plookup k acc := by
  intro acc
  induction acc with
  | nil =>
    have : (k2 == k) = false := by simpa using hne
    simp [plookup, this]
  | cons e rest ih =>
    obtain ⟨k', v'⟩ := e
    by_cases hk : k' == k <;> simp [plookup, hk, ih]

theorem plookup_append_new (k : String) (v : Py) : ∀ acc, plookup k acc = none →
    plookup k (acc ++ [(k, v)]) = some v := by
  intro acc
  induction acc with
  | nil => intro _; simp [plookup]
  | cons e rest ih =>
    intro h
    obtain ⟨k', v'⟩ := e
    by_cases hk : k' == k
    · simp [plookup, hk] at h
    · simp only [plookup, hk] at h
      simp [plookup, hk, ih h]

/-- a child filed under another key leaves `k`'s slot alone -/
theorem accStep_other (acc : List (String × Py)) (k k2 : String) (multi : Bool) (v : Py) (hne : k2 ≠ k) :
    plookup k (accStep acc k2 multi v) = plookup k acc := by
  unfold accStep
  split
  · exact plookup_pset_other k k2 _ hne acc
  · exact plookup_pset_other k k2 _ hne acc
  · split
    · split <;> exact plookup_append_other k k2 _ hne acc
    · exact plookup_append_other k k2 _ hne acc

/-- once a slot holds a list, every further child under that key is appended to it -/
theorem accStep_list (acc : List (String × Py)) (k : String) (multi : Bool) (v : Py) (l : List Py)
    (h : plookup k acc = some (.list l)) : plookup k (accStep acc k multi v) = some (.list (l ++ [v])) := by
  unfold accStep
  simp only [h]
  exact plookup_pset_same k _ acc ⟨_, h⟩

theorem foldl_list (k : String) : ∀ (xs : List (String × Bool × Py)) (acc : List (String × Py)) (l : List Py),
    plookup k acc = some (.list l) →
    plookup k (xs.foldl (fun acc x => accStep acc x.1 x.2.1 x.2.2) acc) = some (.list (l ++ valsOf k xs)) := by
  intro xs
  induction xs with
  | nil => intro acc l h; simpa [valsOf] using h
  | cons x xs ih =>
    intro acc l h
    obtain ⟨k2, m, v⟩ := x
    simp only [List.foldl_cons]
    by_cases hk : k2 = k
    · subst hk
      have := ih (accStep acc k2 m v) (l ++ [v]) (accStep_list acc k2 m v l h)
      simpa [valsOf, List.filter_cons] using this
    · have h' : plookup k (accStep acc k2 m v) = some (.list l) := by
        rw [accStep_other acc k k2 m v hk]; exact h
      have hb : (k2 == k) = false := by simpa using hk
      have := ih _ l h'
      simpa [valsOf, List.filter_cons, hb] using this

theorem foldl_none (k : String) : ∀ (xs : List (String × Bool × Py)) (acc : List (String × Py)),
    plookup k acc = none → (∀ x ∈ xs, x.1 = k → x.2.1 = true) →
    (valsOf k xs).head? ≠ some .none →
    plookup k (xs.foldl (fun acc x => accStep acc x.1 x.2.1 x.2.2) acc) =
      (if valsOf k xs = [] then none else some (.list (valsOf k xs))) := by
  intro xs
  induction xs with
  | nil => intro acc h _ _; simpa [valsOf] using h
  | cons x xs ih =>
    intro acc h hm hh
    obtain ⟨k2, m, v⟩ := x
    simp only [List.foldl_cons]
    by_cases hk : k2 = k
    · subst hk
      have hmt : m = true := hm (k2, m, v) (by simp) rfl
      subst hmt
      have hv : v ≠ .none := by
        intro e; apply hh; simp [valsOf, List.filter_cons, e]
      have hfirst : plookup k2 (accStep acc k2 true v) = some (.list [v]) := by
        unfold accStep
        simp only [h]
        cases v <;> first | exact absurd rfl hv | exact plookup_append_new k2 _ acc h
      have := foldl_list k2 xs _ [v] hfirst
      simpa [valsOf, List.filter_cons] using this
    · have hb : (k2 == k) = false := by simpa using hk
      have h' : plookup k (accStep acc k2 m v) = none := by
        rw [accStep_other acc k k2 m v hk]; exact h
      have hv : valsOf k ((k2, m, v) :: xs) = valsOf k xs := by simp [valsOf, List.filter_cons, hb]
      rw [hv] at hh ⊢
      exact ih _ h' (fun x hx => hm x (List.mem_cons_of_mem _ hx)) hh

/-- **Repeating elements decode to lists, even for one occurrence, in document order; absent
members stay absent.** For any sequence of decoded children (other members interleaved at will): if
every child named `k` belongs to a repeating member and the first of them is not nil, the object's
`k` is the list of all of them in order — a list of one for a single occurrence — and there is no
`k` at all when none occurs. -/
theorem repeating_member_is_list (k : String) (xs : List (String × Bool × Py))
    (hm : ∀ x ∈ xs, x.1 = k → x.2.1 = true) (hh : (valsOf k xs).head? ≠ some .none) :
    plookup k (accumulate xs) = (if valsOf k xs = [] then none else some (.list (valsOf k xs))) :=
  foldl_none k xs [] rfl hm hh

/-- **A single-occurrence member keeps its value as is** (None for nil included). -/
theorem single_member_is_value (k : String) (pre post : List (String × Bool × Py)) (v : Py)
    (hpre : ∀ x ∈ pre, x.1 ≠ k) (hpost : ∀ x ∈ post, x.1 ≠ k) :
    plookup k (accumulate (pre ++ (k, false, v) :: post)) = some v := by
  have other : ∀ (ys : List (String × Bool × Py)) (acc : List (String × Py)), (∀ x ∈ ys, x.1 ≠ k) →
      plookup k (ys.foldl (fun acc x => accStep acc x.1 x.2.1 x.2.2) acc) = plookup k acc := by
    intro ys
    induction ys with
    | nil => intro acc _; rfl
    | cons y ys ih =>
      intro acc hy
      simp only [List.foldl_cons]
      rw [ih _ (fun x hx => hy x (List.mem_cons_of_mem _ hx))]
      exact accStep_other acc k y.1 y.2.1 y.2.2 (hy y (by simp))
  simp only [accumulate, List.foldl_append, List.foldl_cons]
  rw [other post _ hpost]
  have hnone : plookup k (pre.foldl (fun acc x => accStep acc x.1 x.2.1 x.2.2) []) = none := by
    rw [other pre [] hpre]; rfl
  generalize pre.foldl (fun acc x => accStep acc x.1 x.2.1 x.2.2) [] = acc0 at hnone ⊢
  show plookup k (accStep acc0 k false v) = some v
  unfold accStep
  simp only [hnone]
  exact plookup_append_new k v _ hnone

/-- D32 (known finding): a nil item standing *first* in a repeating element is lost, while the
same item anywhere else is kept as None. -/
theorem nil_first_item_witness :
    accumulate [("a", true, .none), ("a", true, .text "1" "int")] = [("a", .list [.text "1" "int"])] ∧
    accumulate [("a", true, .text "1" "int"), ("a", true, .none)] = [("a", .list [.text "1" "int", .none])] := by
  constructor <;> rfl

/-! ### what a node becomes -/

/-- **xsi:nil is None** for a node with no attributes or children of its own. -/
theorem nil_is_none (cls : String) (hasKids : Bool) (text : Option String) (nillable : Bool) (ty : String) :
    postprocess cls [] true hasKids text nillable ty = .none := by
  simp [postprocess]

/-- A node with decoded attributes or children is an object of its (actual) type's class. -/
theorem data_is_object (cls : String) (d : String × Py) (data : List (String × Py)) (nil hasKids : Bool)
    (text : Option String) (nillable : Bool) (ty : String) :
    postprocess cls (d :: data) nil hasKids text nillable ty = .obj cls (d :: data) := by
  simp [postprocess]

/-- A leaf carrying text is that text, to be translated as the builtin type it resolved to. -/
theorem leaf_is_typed_text (cls s : String) (hasKids nillable : Bool) (ty : String) :
    postprocess cls [] false hasKids (some s) nillable ty = .text s ty := by
  simp [postprocess]

/-- **xsi:type selects the derived type**: whatever type the schema declares for a node, when its
`xsi:type` names a complex type the schema knows, the node is post-processed as that type (its class
name, its members and attributes). -/
theorem xsi_type_selects_type (env : Env) (f : Nat) (t : TRef) (nillable : Bool) (ns : Option String)
    (name : String) (attrs : List IAttr) (text : Option String) (kids : List Info) (u n : String) (rk : Key)
    (h1 : typeAttr attrs = some (u, n)) (h2 : env.trefOf u n = some (.complex rk)) :
    ∃ data, decode env (f + 1) t nillable (.mk ns name attrs text kids) =
      postprocess rk.2 data (isNil attrs) (!kids.isEmpty) text nillable "" := by
  simp only [decode, h1, h2, Option.getD_some]
  exact ⟨_, rfl⟩

/-- A leaf written by the marshaller decodes to its own text under its own type, and a nil to None. -/
theorem leaf_roundtrip (env : Env) (f g : Nat) (name : String) (ns : Option String) (ty s : String)
    (henc : env.encoded = false) :
    (marshal env (g + 1) name ns (.builtin ty) false (.leaf s)).map (decode env (f + 1) (.builtin ty) false) =
      [.text s ty] := by
  simp [marshal, encType, henc, decode, typeAttr, postprocess, isNil]

theorem nil_roundtrip (env : Env) (f g : Nat) (name : String) (ns : Option String) (ty : String)
    (henc : env.encoded = false) :
    (marshal env (g + 1) name ns (.builtin ty) true .none).map (decode env (f + 1) (.builtin ty) true) = [.none] := by
  simp [marshal, encType, henc, decode, typeAttr, postprocess, isNil, xsiNil]

/-! ### one message part or many -/

/-- the nodes a reply is decoded from and the members they are matched against (wrapped / rpc) -/
theorem reply_no_parts (env : Env) (fuel : Nat) (op : Op) (body : List Info)
    (hs : op.style ≠ .bare) (h0 : op.outs = []) : reply env fuel op none body = .none := by
  unfold reply
  cases hst : op.style <;> simp_all

/-- **One single-occurrence part: its value**, decoded from the first node of the reply content
(None when the content is empty). -/
theorem reply_single_part (env : Env) (fuel : Nat) (op : Op) (w : Info) (rest : List Info) (rt : Member)
    (hs : op.style ≠ .bare) (h1 : op.outs = [rt]) (hm : rt.unbounded = false) :
    reply env fuel op none (w :: rest) =
      (match w.kids with
        | nd :: _ => decode env fuel rt.type false nd
        | [] => .none) := by
  unfold reply
  cases hst : op.style <;> simp_all <;> (cases w.kids <;> rfl)

/-- **One repeating part: always a list**, one entry per node, in document order — also for a
single node and for none. -/
theorem reply_repeating_part (env : Env) (fuel : Nat) (op : Op) (w : Info) (rest : List Info) (rt : Member)
    (hs : op.style ≠ .bare) (h1 : op.outs = [rt]) (hm : rt.unbounded = true) :
    reply env fuel op none (w :: rest) = .list (w.kids.map fun nd => decode env fuel rt.type false nd) := by
  unfold reply
  cases hst : op.style <;> simp_all

/-- **Several parts: a composite `reply` object.** -/
theorem reply_composite (env : Env) (fuel : Nat) (op : Op) (body : List Info) (a b : Member) (more : List Member)
    (hs : op.style ≠ .bare) (h2 : op.outs = a :: b :: more) :
    ∃ fields, reply env fuel op none body = .obj "reply" fields := by
  unfold reply
  cases hst : op.style <;> simp_all <;> exact ⟨_, rfl⟩

/-! ### round trip with the C01 marshaller -/

/-- **Marshal, then decode, gives the value back** — for every flat struct type (any number of
members with builtin types, distinct names, single or repeating, any form and namespace), every
assignment of lexical texts to its members (absent members, single values, lists of any length) and
every schema environment in which the type has those members and no attributes: the element the
marshaller writes decodes to an object of that type holding, in schema order, each present
single member's text under its type and each present repeating member's texts as a list. -/
theorem flat_struct_roundtrip (env : Env) (henc : env.encoded = false) (f g : Nat) (name : String)
    (ns : Option String) (k : Key) (ffs : List FlatField) (ok : FlatOK ffs)
    (hm : members env (env.types.length + 1) k = ffs.map fun ff => (ff.m, ff.declNs))
    (ha : attrsOf env (env.types.length + 1) k = []) (hne : ∃ ff ∈ ffs, ff.texts ≠ []) :
    (marshal env (g + 3) name ns (.complex k) false (.obj none (fieldsOf ffs))).map
        (decode env (f + 2) (.complex k) false) =
      [.obj k.2 (ffs.flatMap fun ff => ff.group.entry)] := by
  rw [marshal_flat env henc g name ns k ffs ok hm ha]
  simp only [List.map_cons, List.map_nil, decode_flat env f name ns k ffs ok hm ha]
  have hdata : (ffs.flatMap fun ff => ff.group.entry) ≠ [] := by
    obtain ⟨ff, hff, ht⟩ := hne
    intro he
    have hall := List.flatMap_eq_nil_iff.mp he ff hff
    cases htx : ff.texts with
    | nil => exact ht htx
    | cons s rest =>
      simp only [FlatField.group, Group.entry, htx, List.map_cons] at hall
      split at hall
      · simp at hall
      · split at hall <;> simp at hall
  cases hd : (ffs.flatMap fun ff => ff.group.entry) with
  | nil => exact absurd hd hdata
  | cons e es => simp [postprocess]

/-- the value with every member absent is the content-free element; suds decodes it to the empty
string (the alphabet of the correspondence has no content-free objects) -/
theorem flat_struct_all_absent (env : Env) (henc : env.encoded = false) (f g : Nat) (name : String)
    (ns : Option String) (k : Key) (ffs : List FlatField) (ok : FlatOK ffs)
    (hm : members env (env.types.length + 1) k = ffs.map fun ff => (ff.m, ff.declNs))
    (ha : attrsOf env (env.types.length + 1) k = []) (hall : ∀ ff ∈ ffs, ff.texts = []) :
    (marshal env (g + 3) name ns (.complex k) false (.obj none (fieldsOf ffs))).map
        (decode env (f + 2) (.complex k) false) = [.text "" ""] := by
  rw [marshal_flat env henc g name ns k ffs ok hm ha]
  simp only [List.map_cons, List.map_nil, decode_flat env f name ns k ffs ok hm ha]
  have h1 : (ffs.flatMap fun ff => ff.group.entry) = [] := by
    apply List.flatMap_eq_nil_iff.mpr
    intro ff hff
    simp [FlatField.group, Group.entry, hall ff hff]
  have h2 : ffs.flatMap (FlatField.kids env) = [] := by
    apply List.flatMap_eq_nil_iff.mpr
    intro ff hff
    simp [FlatField.kids, hall ff hff]
  simp [h1, h2, postprocess]

/-- Non-vacuity: a struct with a single and a repeating member meets `FlatOK`. -/
example : FlatOK [⟨⟨"name", .builtin "string", 1, false, false, true, false, none⟩, 0, "string", ["n"]⟩,
                  ⟨⟨"tag", .builtin "int", 0, true, true, false, false, none⟩, 0, "int", ["1", "2", "3"]⟩] :=
  ⟨by decide, by decide, by intro ff h; simp at h; rcases h with rfl | rfl <;> rfl,
   by intro ff h hu; simp at h; rcases h with rfl | rfl <;> simp_all⟩

/-! Non-vacuity / worked example on the environment of a derived type. -/
def exEnv2 : Env :=
  { uris := ["urn:a"],
    types := [⟨(0, "P"), none, [⟨"name", .builtin "string", 1, false, false, true, false, none⟩,
                               ⟨"tag", .builtin "int", 0, true, true, true, false, none⟩], []⟩,
              ⟨(0, "Q"), some (0, "P"), [⟨"extra", .builtin "boolean", 1, false, false, true, false, none⟩], []⟩] }

/-- a struct round trip through marshal and decode, derived type and repeated member included -/
example :
    (marshal exEnv2 6 "p" none (.complex (0, "P")) false
      (.obj (some (0, "Q")) [("extra", .leaf "true"), ("tag", .list [.leaf "1", .leaf "2"]), ("name", .leaf "n")])).map
      (fun i => match decode exEnv2 6 (.complex (0, "P")) false i with
        | .obj cls fs => (cls, fs.map (·.1))
        | _ => ("", [])) = [("Q", ["name", "tag", "tag", "extra"].eraseDups)] := by
  decide

end Suds.Schema
