import SudsModel.Lemmas.Builder
/-!
C03 — what `Builder.build` puts in a factory object, for every schema environment and type.
-/
namespace Suds.Schema
open Suds.Xml

def Py.fieldNames : Py → List String
  | .obj _ fs => fs.map (·.1)
  | _ => []

/-- At the top level (empty history) every member contributes exactly one attribute, named after it. -/
theorem skeletonMember_one (env : Env) (f : Nat) (md : Member × Nat) :
    ∃ v, skeletonMember env (f + 1) [] md = [(md.1.name, v)] := by
  simp only [skeletonMember, List.contains_nil, Bool.false_eq_true, if_false]
  split
  · exact ⟨_, rfl⟩
  · split
    · exact ⟨_, rfl⟩
    · exact ⟨_, rfl⟩
    · split <;> exact ⟨_, rfl⟩

/-- **The members are exactly the content model, in schema order.** The object built for type `k`
has, first, one `_name` per attribute of the type (inherited first) and then one attribute per
member of the flattened content model (inherited first) that is not a choice branch — nothing else,
nothing missing, in that order. -/
theorem skeleton_fields (env : Env) (f : Nat) (k : Key) :
    (skeleton env (f + 1) k).fieldNames =
      (attrsOf env (env.types.length + 1) k).map (fun a => "_" ++ a.name) ++
      ((members env (env.types.length + 1) k).filter (fun x => !x.1.inChoice)).map (·.1.name) := by
  simp only [skeleton, Py.fieldNames, List.map_append, List.map_map]
  congr 1
  generalize (members env (env.types.length + 1) k).filter (fun x => !x.1.inChoice) = ms
  induction ms with
  | nil => simp
  | cons md ms ih =>
    obtain ⟨v, hv⟩ := skeletonMember_one env f md
    simp only [List.flatMap_cons, List.map_append, hv, List.map_cons, List.map_nil, List.singleton_append]
    rw [ih]

/-- **Choice branches are not pre-populated.** -/
theorem choice_branch_absent (env : Env) (f : Nat) (k : Key) (md : Member × Nat)
    (hm : md ∈ members env (env.types.length + 1) k) (hc : md.1.inChoice = true)
    (huniq : ∀ md' ∈ members env (env.types.length + 1) k, md'.1.name = md.1.name → md'.1.inChoice = true)
    (hattr : ∀ a ∈ attrsOf env (env.types.length + 1) k, "_" ++ a.name ≠ md.1.name) :
    md.1.name ∉ (skeleton env (f + 1) k).fieldNames := by
  rw [skeleton_fields]
  intro h
  rcases List.mem_append.mp h with h | h
  · obtain ⟨a, ha, e⟩ := List.mem_map.mp h
    exact hattr a ha e
  · obtain ⟨md', hmd', e⟩ := List.mem_map.mp h
    have := List.mem_filter.mp hmd'
    have hc' := huniq md' this.1 e
    simp [hc'] at this

/-- **Repeating elements start as empty lists**, **leaves and optional members as None**. -/
theorem repeating_is_empty_list (env : Env) (f : Nat) (hist : List (Member × Nat)) (md : Member × Nat)
    (hh : hist.contains md = false) (hu : md.1.unbounded = true) :
    skeletonMember env (f + 1) hist md = [(md.1.name, .list [])] := by
  simp only [skeletonMember, hh, hu]; simp

theorem leaf_is_none (env : Env) (f : Nat) (hist : List (Member × Nat)) (md : Member × Nat) (n : String)
    (hh : hist.contains md = false) (hu : md.1.unbounded = false) (ht : md.1.type = .builtin n) :
    skeletonMember env (f + 1) hist md = [(md.1.name, .none)] := by
  simp only [skeletonMember, hh, hu, ht]; simp

theorem optional_complex_is_none (env : Env) (f : Nat) (hist : List (Member × Nat)) (md : Member × Nat) (k : Key)
    (hh : hist.contains md = false) (hu : md.1.unbounded = false) (ht : md.1.type = .complex k)
    (ho : md.1.min = 0) :
    skeletonMember env (f + 1) hist md = [(md.1.name, .none)] := by
  simp only [skeletonMember, hh, hu, ht, ho]
  simp

/-- **Required complex children are pre-built recursively**: an object of the child's type holding
the type's attribute defaults followed by the contributions of its non-choice members, built with
this member added to the history. -/
theorem required_complex_prebuilt (env : Env) (f : Nat) (hist : List (Member × Nat)) (md : Member × Nat) (k : Key)
    (hh : hist.contains md = false) (hu : md.1.unbounded = false) (ht : md.1.type = .complex k)
    (hr : md.1.min ≠ 0)
    (hne : ¬ ((members env (env.types.length + 1) k).isEmpty = true ∧ (attrsOf env (env.types.length + 1) k).isEmpty = true)) :
    skeletonMember env (f + 1) hist md =
      [(md.1.name, .obj k.2 ((attrsOf env (env.types.length + 1) k).map attrField ++
        ((members env (env.types.length + 1) k).filter (fun x => !x.1.inChoice)).flatMap
          (fun x => skeletonMember env f (md :: hist) x)))] := by
  have hne' : ((members env (env.types.length + 1) k).isEmpty && (attrsOf env (env.types.length + 1) k).isEmpty) = false := by
    cases h1 : (members env (env.types.length + 1) k).isEmpty <;> cases h2 : (attrsOf env (env.types.length + 1) k).isEmpty <;> simp_all
  simp only [skeletonMember, hh, hu, ht, hne']
  simp [hr]

/-- **Recursion is cut off**: a member already on the path contributes nothing, so a type that
(indirectly) requires itself still yields a finite object. -/
theorem recursion_cut_off (env : Env) (f : Nat) (hist : List (Member × Nat)) (md : Member × Nat)
    (hh : hist.contains md = true) : skeletonMember env f hist md = [] := by
  cases f with
  | zero => rfl
  | succ f => simp only [skeletonMember, hh]; simp

/-- **Attributes hold their declared default** (None when there is none; the implementation's
`""` for that case is known finding D29). -/
theorem attribute_defaults (env : Env) (f : Nat) (k : Key) :
    ∃ rest, skeleton env f k = .obj k.2 ((attrsOf env (env.types.length + 1) k).map attrField ++ rest) := by
  exact ⟨_, rfl⟩

/-- **The builder terminates within the number of member declarations**, whatever the types refer
to (themselves included): with more fuel than there are distinct member declarations in the schema
the built object no longer depends on the fuel - the recursion history, not the fuel, ends it. -/
theorem skeleton_fuel_independent (env : Env) (k : Key) (f1 f2 : Nat)
    (h1 : (allMembers env).eraseDups.length < f1) (h2 : (allMembers env).eraseDups.length < f2) :
    skeleton env f1 k = skeleton env f2 k := by
  have hrem : remaining env [] ≤ (allMembers env).eraseDups.length := by
    unfold remaining
    exact List.length_filter_le _ _
  unfold skeleton
  have : ((members env (env.types.length + 1) k).filter fun x => !x.1.inChoice).flatMap
        (fun x => skeletonMember env f1 [] x) =
      ((members env (env.types.length + 1) k).filter fun x => !x.1.inChoice).flatMap
        (fun x => skeletonMember env f2 [] x) := by
    apply flatMap_congr_mem
    intro x hx
    exact skeletonMember_fuel env _ [] x hrem (members_in_allMembers env k x (List.mem_filter.mp hx).1) f1 f2 h1 h2
  simp only [this]

/-! Non-vacuity: a type that requires itself through a required member. -/
def exRec : Env :=
  { uris := ["urn:a"],
    types := [⟨(0, "Node"), none,
      [⟨"value", .builtin "int", 1, false, false, true, false, none⟩,
       ⟨"next", .complex (0, "Node"), 1, false, false, true, false, none⟩,
       ⟨"alt", .builtin "string", 1, false, false, true, true, none⟩,
       ⟨"items", .builtin "string", 0, true, false, true, false, none⟩],
      [⟨"id", "int", false, some "7"⟩]⟩] }

example : (skeleton exRec 8 (0, "Node")).fieldNames = ["_id", "value", "next", "items"] := by decide

example : (match skeleton exRec 8 (0, "Node") with
    | .obj _ fs => (plookup "next" fs).map Py.fieldNames
    | _ => none) = some ["_id", "value", "items"] := by decide

end Suds.Schema
