import SudsModel.Lemmas.Edit
/-!
# C19 — Editing or cloning the XML tree affects exactly the nodes named

Model: `SudsModel/Xml/Tree.lean`, `SudsModel/Xml/Edit.lean`; lemmas: `SudsModel/Lemmas/Edit.lean`.
Node identity (`id`) stands for Python object identity; `Nodup ids` = no node object occurs twice.
-/
namespace Suds.Props.C19
open Suds.Xml

/-- **detach / remove**: the implementation's search (first node that *is* the given one, search
stops there) removes exactly the node named — wherever it sits, whatever its siblings are called —
and hands back that very subtree; nothing else in the tree changes. -/
theorem detach_exact (c : Nat) (e : Elem) (h : e.ids.Nodup) :
    (e.cut c).1 = e.erase c ∧ (e.cut c).2 = findKids c e.kids := cut_eq_erase c e h

/-- Removing a direct child: exactly that child leaves the list; siblings stay, unchanged, in order. -/
theorem remove_child_exact (c : Nat) (kids : List Elem) (h : (idsKids kids).Nodup)
    (hc : ∃ k ∈ kids, k.id = c) : eraseKids c kids = kids.filter (fun k => k.id != c) :=
  eraseKids_direct c kids h hc

/-- A node that is not in the tree: `detach` changes nothing. -/
theorem detach_absent (c : Nat) (e : Elem) (h : c ∉ idsKids e.kids) : e.cut c = (e, none) := cut_notin c e h

/-- D1 (fixed in the repository): what `list.remove` did with `Element.__eq__` (= same name and
namespace). Asked to remove the *second* `<a/>`, it removes the first. -/
theorem eq_based_wrong_node_witness :
    let a1 : Elem := .mk 2 none "a" none [] [] (some "one") []
    let a2 : Elem := .mk 3 none "a" none [] [] (some "two") []
    (eraseFirstBy (fun k => k.name == a2.name) [a1, a2]).map Elem.id = [3] ∧
    (eraseKids a2.id [a1, a2]).map Elem.id = [2] := by decide

/-- **replaceChild**: the child is located by identity … -/
theorem replace_locates_child (c : Nat) (pre post : List Elem) (x : Elem) (hx : x.id = c)
    (hpre : ∀ y ∈ pre, y.id ≠ c) : indexBy (·.id == c) (pre ++ x :: post) = some pre.length :=
  indexBy_pos c pre post x hx hpre

/-- … and the content nodes end up, in order, exactly where it was. -/
theorem replace_inserts_in_place (pre post content : List Elem) :
    content.foldl insStep (pre ++ post, pre.length) = (pre ++ content ++ post, pre.length + content.length) :=
  insert_seq pre post content

/-- **prune** keeps exactly the children that are non-empty after their own pruning, each judged
on itself, in order. -/
theorem prune_exact (kids : List Elem) :
    pruneKids kids = (kids.map Elem.prune).filter (fun k => !k.isEmptyAll) := pruneKids_exact kids

/-- **clone**: the copy consists of fresh, pairwise distinct nodes (identities `next, next+1, …`),
so it shares no node with any tree built before, and has as many nodes as the original. -/
theorem clone_fresh (ctx : Ctx) (next : Nat) (e : Elem) :
    (e.clone ctx next).1.ids = List.range' next e.size ∧ (e.clone ctx next).2 = next + e.size :=
  clone_ids ctx next e

theorem clone_independent (ctx : Ctx) (next : Nat) (e : Elem) (old : List Nat) (hold : ∀ i ∈ old, i < next) :
    ∀ i ∈ (e.clone ctx next).1.ids, i ∉ old := by
  intro i hi hio
  rw [(clone_ids ctx next e).1] at hi
  have := (List.mem_range'_1.mp hi).1
  have := hold i hio
  omega

/-- The copy keeps the text (D2, fixed in the repository), the attributes and the local name. -/
theorem clone_keeps_text_attrs (ctx : Ctx) (next : Nat) (e : Elem) :
    (e.clone ctx next).1.text = e.text ∧ (e.clone ctx next).1.attrs = e.attrs ∧
    (e.clone ctx next).1.name = e.name ∧ (e.clone ctx next).1.pfx = e.pfx := by
  cases e; simp [Elem.clone, Elem.text, Elem.attrs, Elem.name, Elem.pfx]

/-- Lookups: `getChildren(name)` is the in-order sub-list of matching children; `getChild` is its head. -/
theorem getChild_is_first (e : Elem) (ctx : Ctx) (q : String) :
    getChild e ctx q = (getChildren e ctx (some q)).head? := by
  simp [getChild, getChildren, List.head?_filter]

/-! ### Non-vacuity -/

def demo : Elem :=
  .mk 1 none "r" none [("p", "urn:p")] [] none
    [.mk 2 none "a" none [] [] (some "one") [], .mk 3 none "a" none [] [⟨some "p", "k", "v"⟩] none [],
     .mk 4 (some "p") "a" none [] [] none [.mk 5 none "a" (some "urn:d") [] [] none []]]

example : demo.ids.Nodup := by decide
example : ((demo.cut 3).1.kids.map Elem.id, (demo.cut 3).2.map Elem.id) = ([2, 4], some 3) := by decide
example : (demo.prune.kids.map Elem.id) = [2, 3] := by decide
example : ((demo.clone [] 10).1.ids) = [10, 11, 12, 13, 14] := by decide
example : (demo.kids.filter fun c => elemMatch c [demo.scope] (some "a") none).map Elem.id = [2, 3, 4] ∧
          (demo.kids.filter fun c => elemMatch c [demo.scope] (some "a") (some (some "urn:p"))).map Elem.id = [4] := by
  decide

/-! ### set / unset name exactly the attribute given -/

/-- **An unqualified name only ever names an unqualified attribute** (`type` is not `xsi:type`): when
`set(name, v)` with an unprefixed name updates an existing attribute, that attribute has no prefix and
exactly that name (D42, repaired in the repository). -/
theorem set_unqualified_targets_unqualified (e : Elem) (ctx : Ctx) (q : String) (hq : (splitPrefix q).1 = none)
    (k : Nat) (h : setAttrIdx e ctx q = some k) :
    ∃ a, e.attrs[k]? = some a ∧ a.pfx = none ∧ a.name = (splitPrefix q).2 := by
  simp only [setAttrIdx, hq] at h
  obtain ⟨hk, hp, _⟩ := List.findIdx?_eq_some_iff_getElem.mp h
  simp only [Bool.and_eq_true, Option.isNone_iff_eq_none, beq_iff_eq] at hp
  exact ⟨e.attrs[k], by simp [hk], hp.1, hp.2⟩

/-! ### lookups by path -/

/-- `getChildren` returns exactly the matching children, in document order. -/
theorem getChildren_exact (e : Elem) (ctx : Ctx) (q : String) :
    getChildren e ctx (some q) =
      e.kids.filter (fun c => elemMatch c (e.scope :: ctx) (nsArg e ctx q).1 (nsArg e ctx q).2) := rfl

/-- **A path with a missing step finds nothing** (it never falls back to the children of the node
where the walk stopped). -/
theorem childrenAtPath_missing_step (e : Elem) (ctx : Ctx) (steps : List String) (leaf : String)
    (h : walkPath e ctx steps = none) : childrenAtPath e ctx (steps ++ [leaf]) = [] := by
  simp [childrenAtPath, h]

/-- **A complete path returns exactly the children of the node it leads to that match the last
step** - name and, for a prefixed step, the namespace the prefix has there - in document order. -/
theorem childrenAtPath_exact (e : Elem) (ctx : Ctx) (steps : List String) (leaf : String) (node : Elem) (c : Ctx)
    (h : walkPath e ctx steps = some (node, c)) :
    childrenAtPath e ctx (steps ++ [leaf]) =
      node.kids.filter (fun k => elemMatch k (node.scope :: c) (nsArg node c leaf).1 (nsArg node c leaf).2) := by
  simp [childrenAtPath, h, getChildren]

/-- A one-step path is `getChildren`. -/
theorem childrenAtPath_single (e : Elem) (ctx : Ctx) (leaf : String) :
    childrenAtPath e ctx [leaf] = getChildren e ctx (some leaf) := by
  simp [childrenAtPath, walkPath]

/-- Each step of the walk takes the first matching child of the node reached so far. -/
theorem walkPath_step (e : Elem) (ctx : Ctx) (name : String) (rest : List String) (r : Elem)
    (h : getChild e ctx name = some r) : walkPath e ctx (name :: rest) = walkPath r (e.scope :: ctx) rest := by
  simp [walkPath, h]

/-- **unset removes exactly the attribute `getAttribute` finds**: the list before it and the list
after it are kept as they are - no other attribute with that local name goes with it. -/
theorem unset_removes_one (e : Elem) (ctx : Ctx) (q : String) (k : Nat) (h : getAttrIdx e ctx q = some k) :
    attrsAfterUnset e ctx q = e.attrs.take k ++ e.attrs.drop (k + 1) ∧ k < e.attrs.length := by
  have hk : k < e.attrs.length := by
    unfold getAttrIdx at h
    exact (List.findIdx?_eq_some_iff_getElem.mp h).1
  refine ⟨?_, hk⟩
  simp only [attrsAfterUnset, h]
  exact List.eraseIdx_eq_take_drop_succ _ _

theorem unset_length (e : Elem) (ctx : Ctx) (q : String) (k : Nat) (h : getAttrIdx e ctx q = some k) :
    (attrsAfterUnset e ctx q).length + 1 = e.attrs.length := by
  have hk := (unset_removes_one e ctx q k h).2
  simp only [attrsAfterUnset, h, List.length_eraseIdx, hk, if_true]
  omega

/-- Nothing matches: nothing changes. -/
theorem unset_absent (e : Elem) (ctx : Ctx) (q : String) (h : getAttrIdx e ctx q = none) :
    attrsAfterUnset e ctx q = e.attrs := by
  simp only [attrsAfterUnset, h]

/-- **set changes one value in place** (name, prefix, position and every other attribute kept) ... -/
theorem set_existing (e : Elem) (ctx : Ctx) (q v : String) (k : Nat) (h : setAttrIdx e ctx q = some k)
    (hk : k < e.attrs.length) :
    (attrsAfterSet e ctx q v).length = e.attrs.length ∧
    (attrsAfterSet e ctx q v)[k]? = some { e.attrs[k] with value := v } ∧
    ∀ j, j ≠ k → (attrsAfterSet e ctx q v)[j]? = e.attrs[j]? := by
  simp only [attrsAfterSet, h]
  refine ⟨by simp, ?_, ?_⟩
  · simp [hk, List.getD_eq_getElem?_getD]
  · intro j hj
    simp [Ne.symm hj]

/-- ... **or appends one new attribute** when none is named. -/
theorem set_new (e : Elem) (ctx : Ctx) (q v : String) (h : setAttrIdx e ctx q = none) :
    attrsAfterSet e ctx q v = e.attrs ++ [⟨(splitPrefix q).1, (splitPrefix q).2, v⟩] := by
  simp only [attrsAfterSet, h]

/-- Non-vacuity: a node holding `p:k` and `k`; unsetting the first leaves the second. -/
example : ([⟨some "p", "k", "1"⟩, ⟨none, "k", "2"⟩] : List Attr).eraseIdx 0 = [⟨none, "k", "2"⟩] := by decide

/-! (worked instances of the path lookups are in the correspondence: `splitPrefix` goes through
`String.splitOn`, which `decide` does not reduce) -/

end Suds.Props.C19
