import SudsModel.Xml.Edit
namespace Suds.Props.C19
open Suds.Xml
example : True := trivial
end Suds.Props.C19
