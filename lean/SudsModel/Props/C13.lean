import SudsModel.Sched
/-!
# C13 — Concurrent calls do not see each other's data
PARTIAL by nature: the theorem is about the step model. That binding objects carry no per-call
state is read off the source by the translator (generated tables); which operations are atomic
under the GIL, and everything inside C extensions, is runtime and exercised by the controlled
scheduler of the harness only.
-/
namespace Suds.Props.C13
open Suds.Sched Suds.Gen

/-- Binding objects (shared by every call made through a WSDL) are not written after construction,
and no method of `Binding` uses a field that holds a helper with per-use mutable state. (Breaks
when such state is (re)introduced, e.g. the shared `MultiRef` of D6.) -/
theorem bindings_hold_no_call_state : bindingMethodWrites = [] ∧ sharedStatefulHelperUses = [] := by decide

/-- The only stores on shared schema objects / the object factory are keyed cache fills. -/
theorem shared_writes_are_memo :
    ∀ w ∈ sharedMemoWrites, w.2.2 = "item" ∧ (w.2.1 = "resolved_cache" ∨ w.2.1 = "cache") := by decide

theorem cell_cons_self (k v : Nat) (l : List (Nat × Nat)) : cell k ((k, v) :: l) = some v := by simp [cell]

theorem memoOK_exec (f : Nat → Nat) (datum : Nat → Nat) (s : Shared) (who : Nat) (st : Step) (h : MemoOK f s) :
    MemoOK f (exec f datum s who st).1 := by
  cases st with
  | memoRead k =>
    simp only [exec]
    cases hg : cell k s.memo with
    | some v => simpa [hg] using h
    | none =>
      simp only [hg]
      intro k' v' hk
      simp only [cell] at hk
      split at hk
      · injection hk with hk; subst hk; rename_i he; rw [he]
      · exact h k' v' hk
  | scratchWrite v => simpa [exec, MemoOK] using h
  | scratchRead v => simpa [exec] using h
  | priv => simpa [exec] using h

/-- **Non-interference**: when no call uses shared scratch state, then under EVERY interleaving of
any number of calls each call observes exactly what it would observe running alone — memo cells
only ever hold the value determined by their key, whoever filled them first. -/
theorem noninterference (f : Nat → Nat) (datum : Nat → Nat) (sched : List (Nat × Step)) (s : Shared)
    (hm : MemoOK f s) (hs : noScratch sched = true) (who : Nat) :
    observations who (run f datum s sched) = solo f (stepsOf who sched) := by
  induction sched generalizing s with
  | nil => simp [run, observations, stepsOf, solo]
  | cons x rest ih =>
    obtain ⟨w, st⟩ := x
    have hm' := memoOK_exec f datum s w st hm
    cases st with
    | memoRead k =>
      have hs' : noScratch rest = true := by simpa [noScratch] using hs
      have hobs : (exec f datum s w (.memoRead k)).2 = some (f k) := by
        simp only [exec]
        cases hg : cell k s.memo with
        | some v => simp [hm k v hg]
        | none => simp
      simp only [run, hobs]
      by_cases hw : w = who
      · subst hw
        simp only [observations, stepsOf, List.filter_cons, beq_self_eq_true, if_true, List.map_cons, solo]
        have := ih _ hm' hs'
        simp only [observations, stepsOf] at this
        rw [this]
      · have hb : (w == who) = false := by simpa using hw
        simp only [observations, stepsOf, List.filter_cons, hb, Bool.false_eq_true, if_false]
        have := ih _ hm' hs'
        simpa [observations, stepsOf] using this
    | scratchWrite v => simp [noScratch] at hs
    | scratchRead v => simp [noScratch] at hs
    | priv =>
      have hs' : noScratch rest = true := by simpa [noScratch] using hs
      have := ih _ hm' hs'
      simp only [run, exec]
      by_cases hw : w = who
      · subst hw
        simp only [observations, stepsOf, List.filter_cons, beq_self_eq_true, if_true, List.map_cons, solo] at this ⊢
        exact this
      · have hb : (w == who) = false := by simpa using hw
        simp only [observations, stepsOf, List.filter_cons, hb, Bool.false_eq_true, if_false] at this ⊢
        exact this

/-- D6 (fixed in the repository): with a shared scratch variable one preemption between a call's
write and its read hands it the other call's data. -/
theorem scratch_interference_witness :
    let sched : List (Nat × Step) := [(0, .scratchWrite 7), (1, .scratchWrite 7), (0, .scratchRead 7), (1, .scratchRead 7)]
    observations 0 (run (fun k => k) (fun who => 100 + who) ⟨[], []⟩ sched) = [101] ∧
    observations 0 (run (fun k => k) (fun who => 100 + who) ⟨[], []⟩
      [(0, .scratchWrite 7), (0, .scratchRead 7), (1, .scratchWrite 7), (1, .scratchRead 7)]) = [100] := by decide

example : MemoOK (fun k => k * 2) ⟨[], []⟩ := by intro k v h; simp [cell] at h
example : observations 1 (run (fun k => k * 2) (fun _ => 0) ⟨[], []⟩
    [(0, .memoRead 3), (1, .memoRead 3), (1, .priv), (0, .memoRead 4), (1, .memoRead 4)]) = [6, 8] := by decide

end Suds.Props.C13
