import SudsModel.Lemmas.DepSort
import SudsModel.Xsd.Qualify
import SudsModel.Xsd.Consolidate
/-!
C07 — the dependencies-first ordering underneath `Schema.dereference` (`dependency_sort`), for every
dependency tree of any size: cycles, self-loops and dangling edges included.
-/
namespace Suds.Xsd
open List

theorem final_state (g : Graph) :
    let s := visitAll g (g.length + 1) ⟨[], []⟩ g.keys
    Step g ⟨[], []⟩ s ∧ (∀ k, k ∈ g.keys → k ∈ s.processed) := by
  have hi : InvA g ⟨[], []⟩ := ⟨fun _ h => by simp at h, fun _ h => by simp at h, List.nodup_nil, List.nodup_nil⟩
  have ha : Adq g ⟨[], []⟩ (g.length + 1) := by simp [Adq, Graph.keys]
  exact ⟨visitAll_step (fun s d => visit_step _ s d) g.keys _ hi ha,
    fun k hk => visitAll_marks g.keys _ hi ha k hk hk⟩

/-- **Every key exactly once.** Whatever the graph (cyclic, self-referential, with edges to
objects that are not keys), the result is a permutation of the keys: the traversal terminates
within its fuel, drops nothing and repeats nothing. -/
theorem depsort_perm (g : Graph) (hn : g.keys.Nodup) : (depsort g).Perm g.keys := by
  obtain ⟨hs, hm⟩ := final_state g
  have hsub : ∀ x, x ∈ (depsort g) ↔ x ∈ g.keys := by
    intro x
    simp only [depsort, List.mem_reverse]
    constructor
    · intro hx; exact hs.inv.keys x (hs.inv.sub x hx)
    · intro hx
      have hp := hm x hx
      by_cases hin : x ∈ (visitAll g (g.length + 1) ⟨[], []⟩ g.keys).rsorted
      · exact hin
      · have := (hs.stack x).mp ⟨hp, hin⟩
        simp at this
  exact (List.perm_ext_iff_of_nodup (by simpa [depsort] using (List.reverse_perm _).symm.nodup hs.inv.nds) hn).mpr hsub

/-- **Dependencies first.** In an acyclic tree (some rank drops along every edge between keys),
whenever `x` is listed at some position, each of its dependencies that is itself a key stands at an
earlier position. Dangling edges are ignored. -/
theorem depsort_dependencies_first (g : Graph) (rank : Nat → Nat) (hr : Ranked g rank)
    (pre post : List Nat) (x : Nat) (h : depsort g = pre ++ x :: post)
    (ds : List Nat) (hd : g.deps x = some ds) (d : Nat) (hdm : d ∈ ds) (hk : d ∈ g.keys) : d ∈ pre := by
  have hi : InvA g ⟨[], []⟩ := ⟨fun _ h => by simp at h, fun _ h => by simp at h, List.nodup_nil, List.nodup_nil⟩
  have ha : Adq g ⟨[], []⟩ (g.length + 1) := by simp [Adq, Graph.keys]
  have ho : ORev g (visitAll g (g.length + 1) ⟨[], []⟩ g.keys).rsorted :=
    visitAll_ordered (fun s d => visit_ordered hr _ s d) g.keys _ hi ha trivial
      (fun d _ _ x hx => by simp at hx)
  have hrev : (visitAll g (g.length + 1) ⟨[], []⟩ g.keys).rsorted = post.reverse ++ x :: pre.reverse := by
    have : (depsort g).reverse = (pre ++ x :: post).reverse := by rw [h]
    simpa [depsort] using this
  rw [hrev] at ho
  have := (ORev.of_append _ _ ho).1 ds hd d hdm hk
  simpa using this

/-- Non-vacuity: an acyclic tree with a dangling edge meets the hypotheses (rank = the key). -/
example : Ranked [(3, [1, 2, 9]), (2, [1]), (1, [])] id := ranked_of_rankedB (by decide)

example : depsort [(3, [1, 2, 9]), (2, [1]), (1, [])] = [1, 2, 3] := by decide

/-- D14 (known finding): with a cycle on the path the documented contract for *indirect*
dependencies fails — X(2) depends on W(3) through Y(1), W is in no cycle, yet X precedes W. -/
theorem cycle_entry_witness : depsort [(1, [2, 3]), (2, [1]), (3, [])] = [2, 3, 1] := by decide

end Suds.Xsd

namespace Suds.Xsd
open Suds.Xml

/-- **Prefix names do not matter**: two references with the same local part whose prefixes denote
the same namespace in their respective scopes qualify to the same name — whatever the prefixes are
called and wherever in the two documents they are declared. -/
theorem qualify_prefix_names_do_not_matter (ref1 ref2 : String) (ctx1 ctx2 : Ctx) (tns1 tns2 : Option String)
    (p1 p2 n u : String) (h1 : splitPrefix ref1 = (some p1, n)) (h2 : splitPrefix ref2 = (some p2, n))
    (r1 : resolvePrefix p1 ctx1 = some u) (r2 : resolvePrefix p2 ctx2 = some u) :
    qualifyRef ref1 ctx1 tns1 = qualifyRef ref2 ctx2 tns2 := by
  simp [qualifyRef, h1, h2, r1, r2]

/-- **A default namespace is as good as a prefix**: an unprefixed reference under `xmlns="u"`
qualifies like the prefixed one whose prefix denotes `u`. -/
theorem qualify_default_namespace_like_prefix (n ref2 : String) (ctx1 ctx2 : Ctx) (tns1 tns2 : Option String)
    (p u : String) (h1 : splitPrefix n = (none, n)) (d1 : defaultNs ctx1 = some u)
    (h2 : splitPrefix ref2 = (some p, n)) (r2 : resolvePrefix p ctx2 = some u) :
    qualifyRef n ctx1 tns1 = qualifyRef ref2 ctx2 tns2 := by
  simp [qualifyRef, h1, h2, d1, r2]

/-- Without any default namespace in scope an unprefixed reference means the schema's own target
namespace (suds' reading of "improperly written" schemas). -/
theorem qualify_unprefixed_falls_back_to_tns (n : String) (ctx : Ctx) (tns : Option String)
    (h1 : splitPrefix n = (none, n)) (d : defaultNs ctx = none) : qualifyRef n ctx tns = some (n, tns) := by
  simp [qualifyRef, h1, d]

/-- An unresolvable prefix is an error, never a guess. -/
theorem qualify_unknown_prefix (ref : String) (ctx : Ctx) (tns : Option String) (p n : String)
    (h : splitPrefix ref = (some p, n)) (r : resolvePrefix p ctx = none) : qualifyRef ref ctx tns = none := by
  simp [qualifyRef, h, r]

/-- the premises are satisfiable: a prefix declared two levels up, and a default namespace -/
example : resolvePrefix "zz" [([], none), ([("zz", "urn:x")], some "urn:d")] = some "urn:x" ∧
    defaultNs [([], none), ([("zz", "urn:x")], some "urn:d")] = some "urn:d" := by decide

end Suds.Xsd

namespace Suds.Xsd

/-- **Consolidation does not change a local element's form**: a declaration moved under a node with
another `elementFormDefault` still has the form its own node gave it. -/
theorem consolidation_keeps_form (own target : Form) (e : LocalDecl) :
    effectiveForm target (stampForm own target e) = effectiveForm own e := by
  unfold stampForm effectiveForm
  by_cases h : own = target
  · simp [h]
  · simp [h]

/-- the declarations of the first node are untouched and keep their form as well -/
theorem consolidation_keeps_first (a b : SchemaNode) (e : LocalDecl) (h : e ∈ a.locals) :
    e ∈ (consolidate a b).locals ∧ (consolidate a b).formDefault = a.formDefault := by
  simp [consolidate, h]

theorem consolidation_moves_every_declaration (a b : SchemaNode) (e : LocalDecl) (h : e ∈ b.locals) :
    ∃ e', e' ∈ (consolidate a b).locals ∧ e'.name = e.name ∧
      effectiveForm (consolidate a b).formDefault e' = effectiveForm b.formDefault e := by
  refine ⟨stampForm b.formDefault a.formDefault e, ?_, ?_, ?_⟩
  · simp only [consolidate, List.mem_append, List.mem_map]
    exact Or.inr ⟨e, h, rfl⟩
  · unfold stampForm; split <;> rfl
  · exact consolidation_keeps_form _ _ _

/-- D17 (fixed): without the stamp a moved declaration takes the other node's default. -/
theorem unstamped_form_witness :
    effectiveForm .unqualified ⟨"m", none⟩ ≠ effectiveForm .qualified ⟨"m", none⟩ := by decide

theorem tlookup_append_other (t : PrefixTable) (p q u : String) (h : q ≠ p) :
    tlookup p (t ++ [(q, u)]) = tlookup p t := by
  induction t with
  | nil =>
    have : (q == p) = false := by simpa using h
    simp [tlookup, this]
  | cons e rest ih =>
    obtain ⟨q', u'⟩ := e
    by_cases hq : q' == p <;> simp [tlookup, hq, ih]

/-- **Consolidation never rebinds a prefix of the first node** (D37, fixed): whatever the second
node binds, every prefix bound in the first keeps its namespace. -/
theorem consolidation_keeps_prefixes (p u : String) : ∀ (b existing : PrefixTable),
    tlookup p existing = some u → tlookup p (mergePrefixes existing b) = some u := by
  intro b
  induction b with
  | nil => intro existing h; exact h
  | cons e rest ih =>
    intro existing h
    obtain ⟨q, v⟩ := e
    unfold mergePrefixes
    cases hq : tlookup q existing with
    | some w => exact ih existing h
    | none =>
      apply ih
      have hne : q ≠ p := by
        intro e; subst e; rw [h] at hq; cases hq
      rw [tlookup_append_other existing p q v hne]
      exact h

theorem scopeLookup_append_other (own outer : PrefixTable) (p q u : String) (h : q ≠ p) :
    scopeLookup p (own ++ [(q, u)]) outer = scopeLookup p own outer := by
  simp [scopeLookup, tlookup_append_other own p q u h]

/-- **Consolidation never changes what a prefix means in the first node's scope** (D37 and D54, fixed):
a prefix the first node binds itself *or inherits* keeps its namespace whatever the second node binds. -/
theorem consolidation_keeps_scope (p u : String) (outer : PrefixTable) : ∀ (b existing : PrefixTable),
    scopeLookup p existing outer = some u → scopeLookup p (mergePrefixesIn outer existing b) outer = some u := by
  intro b
  induction b with
  | nil => intro existing h; exact h
  | cons e rest ih =>
    intro existing h
    obtain ⟨q, v⟩ := e
    unfold mergePrefixesIn
    cases hq : scopeLookup q existing outer with
    | some w => exact ih existing h
    | none =>
      apply ih
      have hne : q ≠ p := by
        intro e; subst e; rw [h] at hq; cases hq
      rw [scopeLookup_append_other existing outer p q v hne]
      exact h

/-- with nothing inherited the hand-over is the plain `setdefault` one -/
theorem mergePrefixesIn_nil (b existing : PrefixTable) : mergePrefixesIn [] existing b = mergePrefixes existing b := by
  induction b generalizing existing with
  | nil => rfl
  | cons e rest ih =>
    obtain ⟨q, v⟩ := e
    unfold mergePrefixesIn mergePrefixes
    cases hq : tlookup q existing <;> simp [scopeLookup, hq, tlookup, ih]

/-- D54 witness: the first node inherits `pa` (bound above it), the second binds `pa` to something else; the plain
`setdefault` hand-over would capture the first node's `pa`, the scoped one does not. -/
example : scopeLookup "pa" (mergePrefixes [] [("pa", "urn:n1")]) [("pa", "urn:n0")] = some "urn:n1" ∧
    scopeLookup "pa" (mergePrefixesIn [("pa", "urn:n0")] [] [("pa", "urn:n1")]) [("pa", "urn:n0")] = some "urn:n0" := by
  decide

example : (consolidate ⟨.unqualified, [("p", "urn:a")], [⟨"x", none⟩]⟩
                       ⟨.qualified, [("p", "urn:b"), ("q", "urn:c")], [⟨"y", none⟩, ⟨"z", some .unqualified⟩]⟩) =
    ⟨.unqualified, [("p", "urn:a"), ("q", "urn:c")],
     [⟨"x", none⟩, ⟨"y", some .qualified⟩, ⟨"z", some .unqualified⟩]⟩ := by decide

end Suds.Xsd
