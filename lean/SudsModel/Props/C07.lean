import SudsModel.Lemmas.DepSort
/-!
C07 — the dependencies-first ordering underneath `Schema.dereference` (`dependency_sort`), for every
dependency tree of any size: cycles, self-loops and dangling edges included.
-/
namespace Suds.Xsd
open List

theorem final_state (g : Graph) :
    let s := visitAll g (g.length + 1) ⟨[], []⟩ g.keys
    Step g ⟨[], []⟩ s ∧ (∀ k, k ∈ g.keys → k ∈ s.processed) := by
  have hi : InvA g ⟨[], []⟩ := ⟨fun _ h => by simp at h, fun _ h => by simp at h, List.nodup_nil, List.nodup_nil⟩
  have ha : Adq g ⟨[], []⟩ (g.length + 1) := by simp [Adq, Graph.keys]
  exact ⟨visitAll_step (fun s d => visit_step _ s d) g.keys _ hi ha,
    fun k hk => visitAll_marks g.keys _ hi ha k hk hk⟩

/-- **Every key exactly once.** Whatever the graph (cyclic, self-referential, with edges to
objects that are not keys), the result is a permutation of the keys: the traversal terminates
within its fuel, drops nothing and repeats nothing. -/
theorem depsort_perm (g : Graph) (hn : g.keys.Nodup) : (depsort g).Perm g.keys := by
  obtain ⟨hs, hm⟩ := final_state g
  have hsub : ∀ x, x ∈ (depsort g) ↔ x ∈ g.keys := by
    intro x
    simp only [depsort, List.mem_reverse]
    constructor
    · intro hx; exact hs.inv.keys x (hs.inv.sub x hx)
    · intro hx
      have hp := hm x hx
      by_cases hin : x ∈ (visitAll g (g.length + 1) ⟨[], []⟩ g.keys).rsorted
      · exact hin
      · have := (hs.stack x).mp ⟨hp, hin⟩
        simp at this
  exact (List.perm_ext_iff_of_nodup (by simpa [depsort] using (List.reverse_perm _).symm.nodup hs.inv.nds) hn).mpr hsub

/-- **Dependencies first.** In an acyclic tree (some rank drops along every edge between keys),
whenever `x` is listed at some position, each of its dependencies that is itself a key stands at an
earlier position. Dangling edges are ignored. -/
theorem depsort_dependencies_first (g : Graph) (rank : Nat → Nat) (hr : Ranked g rank)
    (pre post : List Nat) (x : Nat) (h : depsort g = pre ++ x :: post)
    (ds : List Nat) (hd : g.deps x = some ds) (d : Nat) (hdm : d ∈ ds) (hk : d ∈ g.keys) : d ∈ pre := by
  have hi : InvA g ⟨[], []⟩ := ⟨fun _ h => by simp at h, fun _ h => by simp at h, List.nodup_nil, List.nodup_nil⟩
  have ha : Adq g ⟨[], []⟩ (g.length + 1) := by simp [Adq, Graph.keys]
  have ho : ORev g (visitAll g (g.length + 1) ⟨[], []⟩ g.keys).rsorted :=
    visitAll_ordered (fun s d => visit_ordered hr _ s d) g.keys _ hi ha trivial
      (fun d _ _ x hx => by simp at hx)
  have hrev : (visitAll g (g.length + 1) ⟨[], []⟩ g.keys).rsorted = post.reverse ++ x :: pre.reverse := by
    have : (depsort g).reverse = (pre ++ x :: post).reverse := by rw [h]
    simpa [depsort] using this
  rw [hrev] at ho
  have := (ORev.of_append _ _ ho).1 ds hd d hdm hk
  simpa using this

/-- Non-vacuity: an acyclic tree with a dangling edge meets the hypotheses (rank = the key). -/
example : Ranked [(3, [1, 2, 9]), (2, [1]), (1, [])] id := ranked_of_rankedB (by decide)

example : depsort [(3, [1, 2, 9]), (2, [1]), (1, [])] = [1, 2, 3] := by decide

/-- D14 (known finding): with a cycle on the path the documented contract for *indirect*
dependencies fails — X(2) depends on W(3) through Y(1), W is in no cycle, yet X precedes W. -/
theorem cycle_entry_witness : depsort [(1, [2, 3]), (2, [1]), (3, [])] = [2, 3, 1] := by decide

end Suds.Xsd
