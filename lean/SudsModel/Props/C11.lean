import SudsModel.Cache
/-!
# C11 — The cache never changes what a client does
Model: `SudsModel/Cache.lean`. Partial: "most recent" under *concurrent* writers is not claimed
(the OS may interleave and split writes); the decoder's rejection of damaged bytes is an assumption
of the model, validated by the harness's crash sweep on every byte offset.
-/
namespace Suds.Props.C11
open Suds.Cache

theorem lookup_erase_self (id : String) (fs : List (String × File)) : lookup id (erase id fs) = none := by
  induction fs with
  | nil => rfl
  | cons kv rest ih =>
    obtain ⟨k, f⟩ := kv
    simp only [erase]
    split
    · exact ih
    · rename_i h; simp [lookup, h, ih]

theorem lookup_erase_other (id other : String) (fs : List (String × File)) (h : other ≠ id) :
    lookup other (erase id fs) = lookup other fs := by
  induction fs with
  | nil => rfl
  | cons kv rest ih =>
    obtain ⟨k, f⟩ := kv
    simp only [erase]
    split
    · rename_i hk; subst hk; simp [lookup, Ne.symm h, ih]
    · simp [lookup, ih]

/-- Every file on disk carries (possibly damaged) bytes of the object most recently stored under
its id, and its time stamp is that of the store. -/
def Inv (s : State) (sp : Spec) : Prop :=
  ∀ id f, lookup id s.dir.files = some f → specLookup id sp = some (f.obj, f.ctime)

theorem lookup_map_tear (id x : String) (fs : List (String × File)) (f : File)
    (h : lookup x (fs.map fun kv => if kv.1 = id then (kv.1, { kv.2 with intact := false }) else kv) = some f) :
    ∃ g, lookup x fs = some g ∧ g.obj = f.obj ∧ g.ctime = f.ctime := by
  induction fs with
  | nil => simp [lookup] at h
  | cons kv rest ih =>
    obtain ⟨k, g⟩ := kv
    simp only [List.map_cons] at h
    by_cases hk : k = id
    · simp only [hk, if_true, lookup] at h ⊢
      by_cases hx : id = x
      · simp only [hx, if_true] at h ⊢
        injection h with h; subst h; exact ⟨g, rfl, rfl, rfl⟩
      · simp only [hx, if_false] at h ⊢; exact ih h
    · simp only [hk, if_false, lookup] at h ⊢
      by_cases hx : k = x
      · simp only [hx, if_true] at h ⊢; exact ⟨g, rfl, by injection h with h; rw [h], by injection h with h; rw [h]⟩
      · simp only [hx, if_false] at h ⊢; exact ih h

theorem inv_step (s : State) (sp : Spec) (op : Op) (h : Inv s sp) : Inv (step s op).1 (specStep sp s.now op) := by
  intro x f hx
  cases op with
  | put id o =>
    simp only [step, upsert, lookup, specStep, specLookup] at hx ⊢
    by_cases hid : id = x
    · simp only [hid, if_true] at hx ⊢; injection hx with hx; subst hx; rfl
    · simp only [hid, if_false] at hx ⊢
      rw [lookup_erase_other id x _ (Ne.symm hid)] at hx
      exact h x f hx
  | get id d =>
    simp only [step, getEntry, specStep] at hx ⊢
    split at hx
    · exact h x f hx
    · split at hx
      · by_cases hid : x = id
        · subst hid; simp [lookup_erase_self] at hx
        · simp only at hx; rw [lookup_erase_other id x _ hid] at hx; exact h x f hx
      · split at hx
        · exact h x f hx
        · by_cases hid : x = id
          · subst hid; simp [lookup_erase_self] at hx
          · simp only at hx; rw [lookup_erase_other id x _ hid] at hx; exact h x f hx
  | purge id =>
    simp only [step, specStep] at hx ⊢
    by_cases hid : x = id
    · subst hid; simp [lookup_erase_self] at hx
    · rw [lookup_erase_other id x _ hid] at hx; exact h x f hx
  | clear => simp [step, lookup] at hx
  | advance dt => simp only [step, specStep] at hx ⊢; exact h x f hx
  | reopen v =>
    simp only [step, specStep] at hx ⊢
    split at hx
    · exact h x f hx
    · simp [lookup] at hx
  | tear id =>
    simp only [step, specStep] at hx ⊢
    obtain ⟨g, hg, ho, hc⟩ := lookup_map_tear id x _ f hx
    rw [← ho, ← hc]; exact h x g hg
  | vanish id =>
    simp only [step, specStep] at hx ⊢
    by_cases hid : x = id
    · subst hid; simp [lookup_erase_self] at hx
    · rw [lookup_erase_other id x _ hid] at hx; exact h x f hx
  | stamp v => simp only [step, specStep] at hx ⊢; exact h x f hx

/-- **Every lookup along every history** returns nothing or the object most recently stored under
that id, and then only while it is fresh for the instance asking. -/
theorem get_refines_map (ops : List Op) (s : State) (sp : Spec) (h : Inv s sp) :
    ∀ r ∈ run s sp ops, r.1 = none ∨
      ∃ o t, r.2.1 = some (o, t) ∧ r.1 = some o ∧ (r.2.2.1 = 0 ∨ ¬ (t + r.2.2.1 < r.2.2.2)) := by
  induction ops generalizing s sp with
  | nil => simp [run]
  | cons op ops ih =>
    intro r hr
    have hinv := inv_step s sp op h
    cases op with
    | get id d =>
      simp only [run, List.mem_cons] at hr
      rcases hr with rfl | hr
      · simp only [step, getEntry]
        cases hl : lookup id s.dir.files with
        | none => simp
        | some f =>
          simp only
          by_cases he : d ≠ 0 ∧ f.ctime + d < s.now
          · simp [he]
          · simp only [he, if_false]
            by_cases hi : f.intact = true
            · simp only [hi, if_true]
              right
              refine ⟨f.obj, f.ctime, h id f hl, rfl, ?_⟩
              by_cases hd : d = 0
              · exact Or.inl hd
              · right; intro hlt; exact he ⟨hd, hlt⟩
            · simp [hi]
      · exact ih _ _ hinv r hr
    | put id o => exact ih _ _ hinv r (by simpa [run] using hr)
    | purge id => exact ih _ _ hinv r (by simpa [run] using hr)
    | clear => exact ih _ _ hinv r (by simpa [run] using hr)
    | advance dt => exact ih _ _ hinv r (by simpa [run] using hr)
    | reopen v => exact ih _ _ hinv r (by simpa [run] using hr)
    | tear id => exact ih _ _ hinv r (by simpa [run] using hr)
    | vanish id => exact ih _ _ hinv r (by simpa [run] using hr)
    | stamp v => exact ih _ _ hinv r (by simpa [run] using hr)

/-- The empty directory satisfies the invariant, so the theorem covers every history from a fresh cache. -/
theorem inv_init (now : Nat) (v : Option String) : Inv ⟨⟨[], v⟩, now⟩ [] := by
  intro id f h; simp [lookup] at h

/-- A damaged entry reads as a miss and is removed, so the next load refetches. -/
theorem damaged_is_miss_and_purged (s : State) (id : String) (d : Nat) (f : File)
    (hl : lookup id s.dir.files = some f) (hd : f.intact = false) :
    (getEntry s id d).2 = none ∧ lookup id (getEntry s id d).1.dir.files = none := by
  simp only [getEntry, hl]
  split <;> simp [hd, lookup_erase_self]

/-- An expired entry reads as a miss and is removed; duration 0 never expires. -/
theorem expiry (s : State) (id : String) (d : Nat) (f : File) (hl : lookup id s.dir.files = some f) :
    (d ≠ 0 ∧ f.ctime + d < s.now → (getEntry s id d).2 = none ∧ lookup id (getEntry s id d).1.dir.files = none) ∧
    (d = 0 → f.intact = true → (getEntry s id d).2 = some f.obj) := by
  constructor
  · intro he; simp [getEntry, hl, he, lookup_erase_self]
  · intro hd hi; simp [getEntry, hl, hd, hi]

/-- A cache written by another suds version is emptied when an instance opens it. -/
theorem foreign_version_cleared (s : State) (v : String) (h : s.dir.version ≠ some v) :
    (step s (.reopen v)).1.dir.files = [] ∧ (step s (.reopen v)).1.dir.version = some v := by
  simp [step, h]

example : run ⟨⟨[], none⟩, 0⟩ [] [.reopen "1.2.0", .put "a" 1, .put "a" 2, .get "a" 0, .tear "a", .get "a" 0, .get "a" 0,
    .put "b" 3, .advance 10, .get "b" 5, .reopen "9", .get "a" 0]
  = [(some 2, some (2, 0), 0, 0), (none, some (2, 0), 0, 0), (none, some (2, 0), 0, 0), (none, some (3, 0), 5, 10),
     (none, some (2, 0), 0, 10)] := by decide

/-- **Ids never alias**: under one prefix and one suffix two ids give one file name only when they are
the same id - nothing of the id is cut off, folded or hashed away. -/
theorem entryFile_injective (p s a b : String) (h : entryFile p a s = entryFile p b s) : a = b := by
  unfold entryFile at h
  have h' := congrArg String.toList h
  simp only [String.toList_append] at h'
  have h1 := List.append_cancel_right h'
  have h2 := List.append_cancel_right h1
  have h3 := List.append_cancel_left h2
  exact String.toList_inj.mp h3

/-- `Reader.mangle`: the id of an entry is a fixed-length digest of the location, a dash and the kind of entry:
two kinds of entry for one location never share an id. -/
theorem mangled_kinds_differ (digest k1 k2 : String) (h : digest ++ "-" ++ k1 = digest ++ "-" ++ k2) : k1 = k2 := by
  have h' := congrArg String.toList h
  simp only [String.toList_append] at h'
  exact String.toList_inj.mp (List.append_cancel_left h')

example : entryFile "suds" "0123-wsdl" "px" ≠ entryFile "suds" "0123-document" "px" := by decide

end Suds.Props.C11
