import SudsModel.Lemmas.Prefix
import SudsModel.Lemmas.Promote
/-!
# C05 — Wire-format options never change what a request means

Model: `SudsModel/Xml/Prefix.lean` (promotePrefixes, PrefixNormalizer, refitPrefixes, infoset).
The whole-tree statement for `promotePrefixes` is `promote_preserves_infoset` (every well-formed
tree); the unguarded statement is refuted by `promoteStmt_false`. For the un-repaired rule the D5
witness shows the capture. PARTIAL: the normaliser and `refitPrefixes` have no whole-tree theorem;
those rest on the correspondence (model = code on generated trees) plus the expat oracle.
-/
namespace Suds.Props.C05
open Suds.Xml

/-- The statement without any hypothesis on the tree: promotion preserves the infoset of every
tree. It is false (`promoteStmt_false`): a tree that uses a prefix nobody in scope declares is not
namespace-well-formed, and a declaration hoisted from a sibling gives that use a meaning. -/
def promoteStmt : Prop := ∀ t : Elem, ((t.promote true).info []).beq (t.info []) = true

/-- **promotePrefixes preserves the infoset of every namespace-well-formed tree** (any size, depth,
tables and declarations): with `D` any set of non-special prefixes containing every declared
prefix, a tree whose prefix uses are all bound (`Elem.WF`: element and attribute prefixes bound,
`p:rest` attribute values with `p` bound or never declared, tables are dicts) is read by a
namespace-aware processor exactly as before the pass — same element and attribute namespaces, same
QName values, same text, same order. -/
theorem promote_preserves_infoset (D : String → Prop) (hD : ∀ p, D p → lookup p Suds.Gen.specialPrefixes = none)
    (t : Elem) (hw : t.WF D []) : (t.promote true).info [] = t.info [] := by
  obtain ⟨i, p, n, e, m, a, tx, kids⟩ := t
  simp only [Elem.WF] at hw
  obtain ⟨hk, hn, hp, ha, hkids⟩ := hw
  obtain ⟨K1, K2, K3, K4⟩ := promoteKids_ok hD kids [] p e m hkids hk hn
  have R := rel_of_ext_same K1
  have hrp := rp_of_ext hD hk K2 R.1
  simp only [Elem.promote, Elem.info]
  rw [K4 _ (Rel.refl D _), nsOf_rp hrp R.2 hp, attrs_rp hrp a ha]

/-- The same for a subtree promoted below a parent (the recursive step, as `Binding.get_message`
never calls it but `Element.promotePrefixes` allows): whatever the parent's table becomes, the
subtree reads the same in it, and everything that resolved at the parent still does. -/
theorem promote_subtree_preserves_infoset (D : String → Prop) (hD : ∀ p, D p → lookup p Suds.Gen.specialPrefixes = none)
    (k : Elem) (gamma : Ctx) (ppfx pe : Option String) (pt : Table)
    (hw : k.WF D ((pt, pe) :: gamma)) (hk : KeysIn D pt) (hn : NodupKeys pt) :
    (k.promoteIn true gamma ppfx pe pt).1.info (((k.promoteIn true gamma ppfx pe pt).2, pe) :: gamma) =
      k.info ((pt, pe) :: gamma) ∧
    ∀ q u, resolvePrefix.resolveUp q ((pt, pe) :: gamma) = some u →
      resolvePrefix.resolveUp q (((k.promoteIn true gamma ppfx pe pt).2, pe) :: gamma) = some u := by
  obtain ⟨A1, _, _, A4⟩ := promoteIn_ok hD k gamma ppfx pe pt hw hk hn
  exact ⟨A4 _ (Rel.refl D _), fun q u h => (A1 q).1 u h⟩

/-- Not namespace-well-formed: `p:z` uses a prefix only a sibling declares. -/
def unboundUse : Elem :=
  .mk 1 none "r" none [] [] none
    [.mk 2 none "x" none [("p", "urn:two")] [] none [],
     .mk 3 none "y" none [] [] none [.mk 4 (some "p") "z" none [] [] none []]]

theorem promoteStmt_false : ¬ promoteStmt := by
  intro h
  have h2 : (((unboundUse.promote true).info []).beq (unboundUse.info [])) = true := h unboundUse
  revert h2
  decide

/-- One hoist step, other uses: nothing that resolved below the parent changes its namespace. -/
theorem hoist_keeps_other_uses (p u : String) (T : Table) (e : Option String) (gamma inner : Ctx)
    (hT : lookup p T = none)
    (hin : resolvePrefix.resolveUp p gamma = none ∨ resolvePrefix.resolveUp p gamma = some u)
    (q v : String)
    (h : resolvePrefix.resolveUp q (inner ++ (T, e) :: gamma) = some v) :
    resolvePrefix.resolveUp q (inner ++ (dictSet T p u, e) :: gamma) = some v :=
  Suds.Xml.hoist_keeps_other_uses p u T e gamma inner hT hin q v h

/-- One hoist step, the donor: what resolved at or below the child that gave the declaration away
still resolves to the same namespace. -/
theorem hoist_keeps_donor_uses (p u : String) (m T : Table) (ec e : Option String) (gamma inner : Ctx)
    (hm : lookup p m = some u) (hT : lookup p T = none) (q v : String)
    (h : resolvePrefix.resolveUp q (inner ++ (m, ec) :: (T, e) :: gamma) = some v) :
    resolvePrefix.resolveUp q (inner ++ (tableErase p m, ec) :: (dictSet T p u, e) :: gamma) = some v :=
  Suds.Xml.hoist_keeps_donor_uses p u m T ec e gamma inner hm hT q v h

/-- The tree of D5: `p` is bound to `urn:one` on the envelope and re-declared as `urn:two` on a
leaf; a sibling subtree uses `p`. -/
def d5 : Elem :=
  .mk 1 (some "e") "Envelope" none [("e", "urn:env"), ("p", "urn:one")] [] none
    [.mk 2 (some "e") "Body" none [] [] none
      [.mk 3 none "r" none [] [] none
        [.mk 4 none "x" none [("p", "urn:two")] [] none [],
         .mk 5 none "y" none [] [] none [.mk 6 (some "p") "z" none [] [] none []]]]]

/-- D5 (fixed in the repository): the old rule (hoist whenever the parent has no *own* binding)
captures — `p:z` changes namespace; the repaired rule does not. -/
theorem capture_witness :
    ((d5.promote false).info []).beq (d5.info []) = false ∧ ((d5.promote true).info []).beq (d5.info []) = true := by
  decide

/-- Promotion never touches names, prefixes, attributes or text: only declaration tables move. -/
theorem promote_keeps_names (fixed : Bool) (i : Nat) (p : Option String) (n : String) (e : Option String)
    (m : Table) (a : List Attr) (t : Option String) (kids : List Elem) :
    ((Elem.mk i p n e m a t kids).promote fixed).name = n ∧ ((Elem.mk i p n e m a t kids).promote fixed).pfx = p ∧
    ((Elem.mk i p n e m a t kids).promote fixed).attrs = a ∧ ((Elem.mk i p n e m a t kids).promote fixed).text = t := by
  simp [Elem.promote, Elem.name, Elem.pfx, Elem.attrs, Elem.text]

/-- After `refitPrefixes` no element carries a prefix. -/
theorem refit_removes_element_prefix (ctx : Ctx) (below : Bool) (e : Elem) : (e.refit ctx below).pfx = none := by
  cases e; simp [Elem.refit, Elem.pfx]

/-- Non-vacuity: the D5 tree is well-formed for `D = {e, p}`. -/
example : d5.WF (· ∈ ["e", "p"]) [] := wfb_sound _ _ _ (by decide)

/-- The decidable form used by the driver: whenever the checker accepts a tree (with the declared
prefixes `decl`, none of them special), promotion preserves its infoset. -/
theorem promote_preserves_infoset_checked (decl : List String)
    (hs : decl.all (fun p => (lookup p Suds.Gen.specialPrefixes).isNone) = true)
    (t : Elem) (h : t.wfb decl [] = true) : (t.promote true).info [] = t.info [] := by
  refine promote_preserves_infoset (· ∈ decl) (fun p hp => ?_) t (wfb_sound decl t [] h)
  have := (List.all_eq_true.mp hs) p hp
  simpa [Option.isNone_iff_eq_none] using this

/-- What the driver evaluates (`prefix.wf`): a tree accepted by `Elem.wellFormed` keeps its infoset. -/
theorem wellFormed_preserved (t : Elem) (h : t.wellFormed = true) : (t.promote true).info [] = t.info [] := by
  simp only [Elem.wellFormed, Bool.and_eq_true] at h
  exact promote_preserves_infoset_checked t.declared h.1 t h.2

example : d5.wellFormed = true := by decide

example : (d5.promote true).nsp = [("e", "urn:env"), ("p", "urn:one")] := by decide
example : ((d5.refit [] false).kids.map Elem.expns) = [some "urn:env"] := by decide

end Suds.Props.C05
