import SudsModel.Xml.Prefix
namespace Suds.Props.C05
open Suds.Xml
example : True := trivial
end Suds.Props.C05
