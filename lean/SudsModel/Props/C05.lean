import SudsModel.Lemmas.Prefix
/-!
# C05 — Wire-format options never change what a request means

Model: `SudsModel/Xml/Prefix.lean` (promotePrefixes, PrefixNormalizer, refitPrefixes, infoset).
PARTIAL: the whole-tree statements (`promoteStmt`, `normalizeStmt`) are written down but not proved;
what is proved is the heart of the argument — one hoist step captures nothing and the donor keeps
its binding — and the witness that the un-repaired rule does capture (D5). The whole-tree claim
rests on the correspondence (model = code on generated trees) plus the expat oracle.
-/
namespace Suds.Props.C05
open Suds.Xml

/-- Full statement (not proved): promotion preserves the infoset of every tree. -/
def promoteStmt : Prop := ∀ t : Elem, (t.promote true).info [] |>.beq (t.info []) = true

/-- One hoist step, other uses: nothing that resolved below the parent changes its namespace. -/
theorem hoist_keeps_other_uses (p u : String) (T : Table) (e : Option String) (gamma inner : Ctx)
    (hT : lookup p T = none)
    (hin : resolvePrefix.resolveUp p gamma = none ∨ resolvePrefix.resolveUp p gamma = some u)
    (q v : String)
    (h : resolvePrefix.resolveUp q (inner ++ (T, e) :: gamma) = some v) :
    resolvePrefix.resolveUp q (inner ++ (dictSet T p u, e) :: gamma) = some v :=
  Suds.Xml.hoist_keeps_other_uses p u T e gamma inner hT hin q v h

/-- One hoist step, the donor: what resolved at or below the child that gave the declaration away
still resolves to the same namespace. -/
theorem hoist_keeps_donor_uses (p u : String) (m T : Table) (ec e : Option String) (gamma inner : Ctx)
    (hm : lookup p m = some u) (hT : lookup p T = none) (q v : String)
    (h : resolvePrefix.resolveUp q (inner ++ (m, ec) :: (T, e) :: gamma) = some v) :
    resolvePrefix.resolveUp q (inner ++ (tableErase p m, ec) :: (dictSet T p u, e) :: gamma) = some v :=
  Suds.Xml.hoist_keeps_donor_uses p u m T ec e gamma inner hm hT q v h

/-- The tree of D5: `p` is bound to `urn:one` on the envelope and re-declared as `urn:two` on a
leaf; a sibling subtree uses `p`. -/
def d5 : Elem :=
  .mk 1 (some "e") "Envelope" none [("e", "urn:env"), ("p", "urn:one")] [] none
    [.mk 2 (some "e") "Body" none [] [] none
      [.mk 3 none "r" none [] [] none
        [.mk 4 none "x" none [("p", "urn:two")] [] none [],
         .mk 5 none "y" none [] [] none [.mk 6 (some "p") "z" none [] [] none []]]]]

/-- D5 (fixed in the repository): the old rule (hoist whenever the parent has no *own* binding)
captures — `p:z` changes namespace; the repaired rule does not. -/
theorem capture_witness :
    ((d5.promote false).info []).beq (d5.info []) = false ∧ ((d5.promote true).info []).beq (d5.info []) = true := by
  decide

/-- Promotion never touches names, prefixes, attributes or text: only declaration tables move. -/
theorem promote_keeps_names (fixed : Bool) (i : Nat) (p : Option String) (n : String) (e : Option String)
    (m : Table) (a : List Attr) (t : Option String) (kids : List Elem) :
    ((Elem.mk i p n e m a t kids).promote fixed).name = n ∧ ((Elem.mk i p n e m a t kids).promote fixed).pfx = p ∧
    ((Elem.mk i p n e m a t kids).promote fixed).attrs = a ∧ ((Elem.mk i p n e m a t kids).promote fixed).text = t := by
  simp [Elem.promote, Elem.name, Elem.pfx, Elem.attrs, Elem.text]

/-- After `refitPrefixes` no element carries a prefix. -/
theorem refit_removes_element_prefix (ctx : Ctx) (below : Bool) (e : Elem) : (e.refit ctx below).pfx = none := by
  cases e; simp [Elem.refit, Elem.pfx]

example : (d5.promote true).nsp = [("e", "urn:env"), ("p", "urn:one")] := by decide
example : ((d5.refit [] false).kids.map Elem.expns) = [some "urn:env"] := by decide

end Suds.Props.C05
