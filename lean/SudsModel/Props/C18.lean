import SudsModel.Xml.MultiRef
import SudsModel.Lemmas.MultiRef
import SudsModel.Xml.Prefix
import Std.Data.String.ToNat
/-!
# C18 — Referenced (multiref) content decodes exactly like inlined content
Model: `SudsModel/Xml/MultiRef.lean`. The whole-reply statement is `outlined_body_decodes`: for every
tree, every choice of the nodes moved out of line and every nesting of references, resolution gives
back the inlined tree. What a schema-driven decoder then makes of the two equal trees is the same by
construction; that the implementation's `MultiRef.process` is the modelled function is the
correspondence, and the decoded values are compared on the real client (oracle).
-/
namespace Suds.Props.C18
open Suds.Xml

mutual
  def noHref : Elem → Bool
    | .mk i p n x m a t kids => (hrefOf (.mk i p n x m a t kids)).isNone && noHrefKids kids
  def noHrefKids : List Elem → Bool
    | [] => true
    | k :: ks => noHref k && noHrefKids ks
end

mutual
/-- Content without references is left exactly as it is. -/
theorem resolve_no_href (cat : Catalog) : (fuel : Nat) → (e : Elem) → noHref e = true → e.resolve cat fuel = e
  | 0, e, _ => by cases e; simp [Elem.resolve]
  | fuel + 1, .mk i p n x m a t kids, h => by
    simp only [noHref, Bool.and_eq_true, Option.isNone_iff_eq_none] at h
    simp only [Elem.resolve, h.1]
    rw [resolveKids_no_href cat fuel kids h.2]
theorem resolveKids_no_href (cat : Catalog) : (fuel : Nat) → (kids : List Elem) → noHrefKids kids = true →
    resolveKids cat fuel kids = kids
  | _, [], _ => by simp [resolveKids]
  | fuel, k :: ks, h => by
    simp only [noHrefKids, Bool.and_eq_true] at h
    simp only [resolveKids]
    rw [resolve_no_href cat fuel k h.1, resolveKids_no_href cat fuel ks h.2]
end

/-- One reference: the referrer takes over the referenced node's children (after its own), its
text and its attributes except `id`, and loses the `href`; the result is then resolved further. -/
theorem resolve_reference (cat : Catalog) (fuel : Nat) (i : Nat) (p : Option String) (n : String) (x : Option String)
    (m : List (String × String)) (a : List Attr) (t : Option String) (kids : List Elem)
    (hi : Nat) (key : String) (ref : Elem)
    (hh : hrefOf (.mk i p n x m a t kids) = some (hi, key)) (hc : catalogGet key cat = some ref) :
    (Elem.mk i p n x m a t kids).resolve cat (fuel + 1) =
      .mk i p n x m (a.eraseIdx hi ++ ref.attrs.filter (·.name != "id"))
        (match ref.text with | some "" => none | other => other)
        (resolveKids cat fuel (kids ++ ref.kids)) := by
  simp only [Elem.resolve, hh, hc]
  rfl

/-- A reference that was out-lined from content without further references gives back exactly
that content: `<r href="#k"/>` + `<multiRef id="k">C</multiRef>` reads as `<r>C</r>`. -/
theorem outline_inline_one_level (cat : Catalog) (fuel : Nat) (i : Nat) (p : Option String) (n : String)
    (x : Option String) (m : List (String × String)) (key : String) (ref : Elem)
    (hc : catalogGet key cat = some ref) (hn : noHrefKids ref.kids = true) :
    (Elem.mk i p n x m [⟨none, "href", key⟩] none []).resolve cat (fuel + 1) =
      .mk i p n x m (ref.attrs.filter (·.name != "id")) (match ref.text with | some "" => none | other => other)
        ref.kids := by
  have hh : hrefOf (.mk i p n x m [⟨none, "href", key⟩] none []) = some (0, key) := by
    simp [hrefOf, Elem.attrs]
  rw [resolve_reference cat fuel i p n x m _ none [] 0 key ref hh hc]
  simp [resolveKids_no_href cat fuel ref.kids hn]

/-- An href with no matching id leaves that element unresolved and nothing else is disturbed:
its attributes and text stay, its children are processed as usual. -/
theorem dangling_href_local (cat : Catalog) (fuel : Nat) (i : Nat) (p : Option String) (n : String) (x : Option String)
    (m : List (String × String)) (a : List Attr) (t : Option String) (kids : List Elem) (hi : Nat) (key : String)
    (hh : hrefOf (.mk i p n x m a t kids) = some (hi, key)) (hc : catalogGet key cat = none) :
    (Elem.mk i p n x m a t kids).resolve cat (fuel + 1) = .mk i p n x m a t (resolveKids cat fuel kids) := by
  simp only [Elem.resolve, hh, hc]

theorem resolveKids_length (cat : Catalog) (fuel : Nat) (kids : List Elem) :
    (resolveKids cat fuel kids).length = kids.length := by
  induction kids with
  | nil => simp [resolveKids]
  | cons k ks ih => simp [resolveKids, ih]

/-- The body keeps exactly its SOAP roots (unmarked, or marked `root="1"`), in order. -/
theorem body_keeps_roots (fuel : Nat) (body : Elem) (ctx : Ctx) :
    (processBody fuel body ctx).kids.length = (body.kids.filter fun k => soaproot k (body.scope :: ctx)).length := by
  cases body
  simp [processBody, Elem.setKids, Elem.kids, resolveKids_length]

/-- **Out-of-line = inline, at any nesting depth** (one subtree, any catalogue that serves it): the
writer replaces any set `S` of nodes - nested ones included - by `href` stubs and stores each
node's attributes (+ `id`, + extras such as `soapenc:root`), text and out-lined children under
its id; resolution returns the original tree, the out-lined nodes carrying the extras. -/
theorem outline_resolve_roundtrip (S : Nat → Bool) (key : Nat → String) (extra : Nat → List Attr) (cat : Catalog)
    (e : Elem) (fuel : Nat) (hf : e.size ≤ fuel) (ho : e.Outlinable S key extra cat) :
    (e.outline S key).resolve cat fuel = e.marked S extra :=
  resolve_outline S key extra cat e fuel hf ho

/-- **The whole body.** `roots`: the reply content as it would be written inline. The writer emits
the referrers followed by one out-of-line copy per out-lined node (any position works for the
catalogue: it is built from all body children). With distinct node identities and distinct id
strings, `build_catalog` + `update` over that body give back `roots` exactly (plus the extras). -/
theorem outlined_body_decodes (S : Nat → Bool) (key : Nat → String) (extra : Nat → List Attr) (rid : Nat → Nat)
    (hkey : ∀ i j, key i = key j → i = j) (roots : List Elem) (hid : (idsKids roots).Nodup)
    (hp : PlainKids S extra roots) (fuel : Nat) (hf : sizeKids roots ≤ fuel) :
    resolveKids
      (buildCatalog (outlineKids S key roots ++ (outlinedKids S roots).map (fun o => mkRef S key extra (rid o.id) o)))
      fuel (outlineKids S key roots) = markedKids S extra roots := by
  rw [buildCatalog_body S key extra rid roots hp]
  have hn := catOf_nodup S key extra rid hkey (outlinedKids S roots)
    ((outlinedKids_ids_sublist S roots).nodup hid)
  exact resolveKids_outline S key extra _ roots fuel hf
    (outlinableKids_of_plain S key extra rid _ hn roots (fun _ h => h) hp)

/-- Without extras the result is literally the inline content. -/
theorem outlined_body_decodes_plain (S : Nat → Bool) (key : Nat → String) (rid : Nat → Nat)
    (hkey : ∀ i j, key i = key j → i = j) (roots : List Elem) (hid : (idsKids roots).Nodup)
    (hp : PlainKids S (fun _ => []) roots) (fuel : Nat) (hf : sizeKids roots ≤ fuel) :
    resolveKids
      (buildCatalog (outlineKids S key roots ++
        (outlinedKids S roots).map (fun o => mkRef S key (fun _ => []) (rid o.id) o)))
      fuel (outlineKids S key roots) = roots := by
  rw [outlined_body_decodes S key (fun _ => []) rid hkey roots hid hp fuel hf, markedKids_nil]

/-- `MultiRef.process` on such a body, when the referrers are its SOAP roots (the copies are marked
`soapenc:root="0"`): the body is left with the inline content. -/
theorem process_outlined_body (S : Nat → Bool) (key : Nat → String) (extra : Nat → List Attr) (rid : Nat → Nat)
    (hkey : ∀ i j, key i = key j → i = j) (roots : List Elem) (hid : (idsKids roots).Nodup)
    (hp : PlainKids S extra roots) (fuel : Nat) (hf : sizeKids roots ≤ fuel)
    (bi : Nat) (bp : Option String) (bn : String) (bx : Option String) (bm : List (String × String))
    (ba : List Attr) (bt : Option String) (ctx : Ctx)
    (hroots : (outlineKids S key roots ++ (outlinedKids S roots).map (fun o => mkRef S key extra (rid o.id) o)).filter
        (fun k => soaproot k ((bm, bx) :: ctx)) = outlineKids S key roots) :
    (processBody fuel (.mk bi bp bn bx bm ba bt
      (outlineKids S key roots ++ (outlinedKids S roots).map (fun o => mkRef S key extra (rid o.id) o))) ctx).kids =
      markedKids S extra roots := by
  simp only [processBody, Elem.kids, Elem.scope, Elem.nsp, Elem.expns, Elem.setKids, hroots]
  exact outlined_body_decodes S key extra rid hkey roots hid hp fuel hf

/-! ### Non-vacuity -/

/-- nested out-lining: node 2 and, inside it, node 4 are moved out of line. -/
def nestedRoots : List Elem :=
  [.mk 1 none "resp" none [] [] none
    [.mk 2 none "a" none [] [⟨none, "k", "v"⟩] none
      [.mk 3 none "b" none [] [] (some "t") [], .mk 4 none "c" none [] [] (some "u") [.mk 5 none "d" none [] [] none []]],
     .mk 6 none "e" none [] [] (some "w") []]]

def nestedS (i : Nat) : Bool := i == 2 || i == 4

example : PlainKids nestedS (fun _ => []) nestedRoots := by
  simp [nestedRoots, PlainKids, Elem.Plain, nestedS]

example : (outlinedKids nestedS nestedRoots).map Elem.id = [2, 4] := by decide

/-- every hypothesis of `outlined_body_decodes_plain` holds for this reply with decimal id strings -/
example : resolveKids
    (buildCatalog (outlineKids nestedS Nat.repr nestedRoots ++
      (outlinedKids nestedS nestedRoots).map (fun o => mkRef nestedS Nat.repr (fun _ => []) (100 + o.id) o)))
    6 (outlineKids nestedS Nat.repr nestedRoots) = nestedRoots :=
  outlined_body_decodes_plain nestedS Nat.repr (100 + ·) (fun _ _ h => Nat.repr_injective h) nestedRoots
    (by decide) (by simp [nestedRoots, PlainKids, Elem.Plain, nestedS]) 6 (by decide)

def bodyDemo : Elem :=
  .mk 1 none "Body" none [("enc", soapencUri)] [] none
    [.mk 2 none "resp" none [] [] none
      [.mk 3 none "a" none [] [⟨none, "href", "#r1"⟩] none [], .mk 4 none "b" none [] [⟨none, "href", "#zz"⟩] none []],
     .mk 5 none "multiRef" none [] [⟨none, "id", "r1"⟩, ⟨some "enc", "root", "0"⟩, ⟨none, "k", "v"⟩] (some "text")
      [.mk 6 none "c" none [] [] none []]]

/-- the hypotheses of `outline_inline_one_level` are met by the demo body: `#r1` is catalogued and
the referenced content holds no further reference; `#zz` is dangling. -/
example : (catalogGet "#r1" (buildCatalog bodyDemo.kids)).map Elem.id = some 5 ∧
    (catalogGet "#zz" (buildCatalog bodyDemo.kids)).isNone = true := by decide
example : noHrefKids ((bodyDemo.kids.getD 1 bodyDemo).kids) = true := by decide
example : (bodyDemo.kids.filter fun k => soaproot k [bodyDemo.scope]).map Elem.id = [2] := by decide

end Suds.Props.C18
