import SudsModel.Xml.MultiRef
/-!
# C18 — Referenced (multiref) content decodes exactly like inlined content
Model: `SudsModel/Xml/MultiRef.lean`. PARTIAL: one reference level and the locality facts are
proved; decoding of arbitrarily nested out-lining is compared with the inlined reply on the real
client (oracle) and `MultiRef.process` with the model (correspondence).
-/
namespace Suds.Props.C18
open Suds.Xml

mutual
  def noHref : Elem → Bool
    | .mk i p n x m a t kids => (hrefOf (.mk i p n x m a t kids)).isNone && noHrefKids kids
  def noHrefKids : List Elem → Bool
    | [] => true
    | k :: ks => noHref k && noHrefKids ks
end

mutual
/-- Content without references is left exactly as it is. -/
theorem resolve_no_href (cat : Catalog) : (fuel : Nat) → (e : Elem) → noHref e = true → e.resolve cat fuel = e
  | 0, e, _ => by cases e; simp [Elem.resolve]
  | fuel + 1, .mk i p n x m a t kids, h => by
    simp only [noHref, Bool.and_eq_true, Option.isNone_iff_eq_none] at h
    simp only [Elem.resolve, h.1]
    rw [resolveKids_no_href cat fuel kids h.2]
theorem resolveKids_no_href (cat : Catalog) : (fuel : Nat) → (kids : List Elem) → noHrefKids kids = true →
    resolveKids cat fuel kids = kids
  | _, [], _ => by simp [resolveKids]
  | fuel, k :: ks, h => by
    simp only [noHrefKids, Bool.and_eq_true] at h
    simp only [resolveKids]
    rw [resolve_no_href cat fuel k h.1, resolveKids_no_href cat fuel ks h.2]
end

/-- One reference: the referrer takes over the referenced node's children (after its own), its
text and its attributes except `id`, and loses the `href`; the result is then resolved further. -/
theorem resolve_reference (cat : Catalog) (fuel : Nat) (i : Nat) (p : Option String) (n : String) (x : Option String)
    (m : List (String × String)) (a : List Attr) (t : Option String) (kids : List Elem)
    (hi : Nat) (key : String) (ref : Elem)
    (hh : hrefOf (.mk i p n x m a t kids) = some (hi, key)) (hc : catalogGet key cat = some ref) :
    (Elem.mk i p n x m a t kids).resolve cat (fuel + 1) =
      .mk i p n x m (a.eraseIdx hi ++ ref.attrs.filter (·.name != "id"))
        (match ref.text with | some "" => none | other => other)
        (resolveKids cat fuel (kids ++ ref.kids)) := by
  simp only [Elem.resolve, hh, hc]
  rfl

/-- A reference that was out-lined from content without further references gives back exactly
that content: `<r href="#k"/>` + `<multiRef id="k">C</multiRef>` reads as `<r>C</r>`. -/
theorem outline_inline_one_level (cat : Catalog) (fuel : Nat) (i : Nat) (p : Option String) (n : String)
    (x : Option String) (m : List (String × String)) (key : String) (ref : Elem)
    (hc : catalogGet key cat = some ref) (hn : noHrefKids ref.kids = true) :
    (Elem.mk i p n x m [⟨none, "href", key⟩] none []).resolve cat (fuel + 1) =
      .mk i p n x m (ref.attrs.filter (·.name != "id")) (match ref.text with | some "" => none | other => other)
        ref.kids := by
  have hh : hrefOf (.mk i p n x m [⟨none, "href", key⟩] none []) = some (0, key) := by
    simp [hrefOf, Elem.attrs]
  rw [resolve_reference cat fuel i p n x m _ none [] 0 key ref hh hc]
  simp [resolveKids_no_href cat fuel ref.kids hn]

/-- An href with no matching id leaves that element unresolved and nothing else is disturbed:
its attributes and text stay, its children are processed as usual. -/
theorem dangling_href_local (cat : Catalog) (fuel : Nat) (i : Nat) (p : Option String) (n : String) (x : Option String)
    (m : List (String × String)) (a : List Attr) (t : Option String) (kids : List Elem) (hi : Nat) (key : String)
    (hh : hrefOf (.mk i p n x m a t kids) = some (hi, key)) (hc : catalogGet key cat = none) :
    (Elem.mk i p n x m a t kids).resolve cat (fuel + 1) = .mk i p n x m a t (resolveKids cat fuel kids) := by
  simp only [Elem.resolve, hh, hc]

theorem resolveKids_length (cat : Catalog) (fuel : Nat) (kids : List Elem) :
    (resolveKids cat fuel kids).length = kids.length := by
  induction kids with
  | nil => simp [resolveKids]
  | cons k ks ih => simp [resolveKids, ih]

/-- The body keeps exactly its SOAP roots (unmarked, or marked `root="1"`), in order. -/
theorem body_keeps_roots (fuel : Nat) (body : Elem) (ctx : Ctx) :
    (processBody fuel body ctx).kids.length = (body.kids.filter fun k => soaproot k (body.scope :: ctx)).length := by
  cases body
  simp [processBody, Elem.setKids, Elem.kids, resolveKids_length]

/-! ### Non-vacuity -/
def bodyDemo : Elem :=
  .mk 1 none "Body" none [("enc", soapencUri)] [] none
    [.mk 2 none "resp" none [] [] none
      [.mk 3 none "a" none [] [⟨none, "href", "#r1"⟩] none [], .mk 4 none "b" none [] [⟨none, "href", "#zz"⟩] none []],
     .mk 5 none "multiRef" none [] [⟨none, "id", "r1"⟩, ⟨some "enc", "root", "0"⟩, ⟨none, "k", "v"⟩] (some "text")
      [.mk 6 none "c" none [] [] none []]]

/-- the hypotheses of `outline_inline_one_level` are met by the demo body: `#r1` is catalogued and
the referenced content holds no further reference; `#zz` is dangling. -/
example : (catalogGet "#r1" (buildCatalog bodyDemo.kids)).map Elem.id = some 5 ∧
    (catalogGet "#zz" (buildCatalog bodyDemo.kids)).isNone = true := by decide
example : noHrefKids ((bodyDemo.kids.getD 1 bodyDemo).kids) = true := by decide
example : (bodyDemo.kids.filter fun k => soaproot k [bodyDemo.scope]).map Elem.id = [2] := by decide

end Suds.Props.C18
