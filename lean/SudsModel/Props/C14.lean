import SudsModel.Lemmas.Options2
/-!
# C14 — Options hold what was set, reject invalid values, and stay private to a client

Model: `SudsModel/Options.lean` (property sets, links, provider search, validate → default →
store → re-link, `Client.clone`), over the option definition tables GENERATED from
`suds/options.py` and `suds/transport/options.py`. Lemmas: `SudsModel/Lemmas/Options*.lean`.
`Star w c t`: the property sets of a client (`c`) and of its current transport (`t`), linked to
each other and to nothing else — the shape every client is in (checked by the correspondence).
-/
namespace Suds.Props.C14
open Suds.Options Suds.Gen

/-- No option name exists in both domains, so the owner of a name is unambiguous. -/
theorem domains_disjoint : ∀ d ∈ clientOptionDefs, ∀ e ∈ transportOptionDefs, d.name ≠ e.name :=
  Suds.Options.domains_disjoint

/-- Wrong type or unknown name: AttributeError and no effect at all. -/
theorem invalid_set_is_noop (w : World) (n : Nat) (name : String) (v : Val)
    (h : (set w n name v).2 = some .attributeError) : (set w n name v).1 = w :=
  Suds.Options.invalid_set_is_noop w n name v h

theorem set_rejected_iff (w : World) (n : Nat) (name : String) (v : Val) :
    (set w n name v).2 = some .attributeError ↔
      (match lookupDef (w.node (provider w n name)).domain name with
       | none => True
       | some d => accepts d v = false) := Suds.Options.set_rejected_iff w n name v

/-- A valid assignment is read back (default after `None`) … -/
theorem set_get (w : World) (n : Nat) (name : String) (v : Val) (d : OptDef)
    (hp : provider w n name < w.length)
    (hd : lookupDef (w.node (provider w n name)).domain name = some d)
    (hl : d.linker = "") (hacc : accepts d v = true) (hk : (w.node (provider w n name)).keysOK) :
    (set w n name v).2 = none ∧
    get (set w n name v).1 n name = .ok (if v.isNone then defaultVal d else v) :=
  Suds.Options.set_get w n name v d hp hd hl hacc hk

/-- … and every other option keeps its value, whoever reads it. -/
theorem set_frame (w : World) (n : Nat) (name : String) (v : Val) (d : OptDef)
    (hd : lookupDef (w.node (provider w n name)).domain name = some d)
    (hl : d.linker = "") (hacc : accepts d v = true) (m : Nat) (other : String) (ho : other ≠ name) :
    get (set w n name v).1 m other = get w m other :=
  Suds.Options.set_frame w n name v d hd hl hacc m other ho

/-- Transport options set on the client are the ones its transport uses, and the other way round. -/
theorem transport_option_shared (w : World) (c t : Nat) (h : Star w c t) (name : String) (v : Val) (d : OptDef)
    (hto : isTransportOpt name = true) (hd : lookupDef .transport name = some d) (hl : d.linker = "")
    (hacc : accepts d v = true) (hk : (w.node t).keysOK) :
    get (set w c name v).1 t name = .ok (if v.isNone then defaultVal d else v) ∧
    get (set w t name v).1 c name = .ok (if v.isNone then defaultVal d else v) :=
  Suds.Options.transport_option_shared w c t h name v d hto hd hl hacc hk

/-- They follow the client when the transport is replaced. -/
theorem transport_replacement (w : World) (c t t' : Nat) (h : Star w c t)
    (hdom : (w.node t').domain = .transport) (hlinks : (w.node t').links = [])
    (hne1 : t' ≠ c) (hne2 : t' ≠ t) (hlt : t' < w.length)
    (tv : Val) (htn : tv.tnode = some t') (hnn : tv.isNone = false) (hisa : "Transport" ∈ tv.isa)
    (hprev : (getValue (w.node c).values "transport").tnode = some t) :
    (set w c "transport" tv).2 = none ∧ Star (set w c "transport" tv).1 c t' ∧
    ((set w c "transport" tv).1.node t).links = [] :=
  Suds.Options.transport_replacement w c t t' h hdom hlinks hne1 hne2 hlt tv htn hnn hisa hprev

/-- Options of two clients (e.g. a clone and its original) are independent in both directions. -/
theorem clients_independent (w : World) (c1 t1 c2 t2 : Nat) (h1 : Star w c1 t1) (h2 : Star w c2 t2)
    (hd1 : c1 ≠ c2) (hd2 : c1 ≠ t2) (hd3 : t1 ≠ c2) (hd4 : t1 ≠ t2)
    (n : Nat) (hn : n = c1 ∨ n = t1) (m : Nat) (hm : m = c2 ∨ m = t2)
    (name : String) (v : Val) (d : OptDef)
    (hd : lookupDef (w.node (provider w n name)).domain name = some d)
    (hl : d.linker = "") (hacc : accepts d v = true) (other : String) :
    get (set w n name v).1 m other = get w m other :=
  Suds.Options.clients_independent w c1 t1 c2 t2 h1 h2 hd1 hd2 hd3 hd4 n hn m hm name v d hd hl hacc other

/-! ### Non-vacuity: a client with its transport, and its clone -/

def tval (n : Nat) (r : String) : Val := { isNone := false, isa := ["HttpTransport", "Transport", "object"], repr := r, tnode := some n }

def w0 : World := (set [newNode .client, newNode .transport] 0 "transport" (tval 1 "T1")).1
def w1 : World := clone w0 0 "T2"

set_option maxRecDepth 20000

example : (w0.node 0).links = [1] ∧ (w0.node 1).links = [0] := by decide +kernel
example : w1.length = 4 ∧ (w1.node 2).links = [3] ∧ (w1.node 3).links = [2] ∧ (w1.node 0).links = [1] := by decide +kernel
example : (get (set w1 2 "timeout" ⟨false, ["int"], "5", none⟩).1 3 "timeout").toOption.map (·.repr) = some "5" ∧
          (get (set w1 2 "timeout" ⟨false, ["int"], "5", none⟩).1 0 "timeout").toOption.map (·.repr) = some "90" := by
  decide +kernel
example : (set w1 0 "faults" ⟨false, ["str"], "'yes'", none⟩).2 = some .attributeError := by decide +kernel
example : (set w1 1 "nosuch" ⟨false, ["int"], "1", none⟩).2 = some .attributeError := by decide +kernel

end Suds.Props.C14
