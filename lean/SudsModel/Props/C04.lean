import SudsModel.Lemmas.Enc
/-!
# C04 — Character data survives the wire unchanged

Property theorems only. Model: `SudsModel/Xml/Enc.lean`; helper lemmas: `SudsModel/Lemmas/Enc.lean`.
`textValue` / `attrValue` are the reference XML 1.0 reader (§2.11 end-of-line handling, §3.3.3
attribute-value normalisation, §4.1 character references, §4.6 predefined entities).
-/
namespace Suds.Props.C04
open Suds.Enc Suds.Gen

/-- The five sequential `re.sub` calls of `Encoder.encode` over the *generated* table equal a
single left-to-right pass. (Breaks when `Encoder.encodings` is edited.) -/
theorem encode_is_one_pass (s : List Char) : encode s = enc1 s := encode_eq_enc1 s

/-- Well-formedness for every string: in the encoder's output no `<` (nor `"`) is raw and every
`&` starts a reference an XML processor knows. -/
theorem encode_wellformed (s : List Char) :
    (readRef ['<', '"'] id none (encode s)).isSome = true := by
  rw [encode_eq_enc1]
  exact read_enc1_isSome id (by intro c hc; simpa using hc) s

/-- Element text: an XML processor recovers exactly `s`, for every `s` without a predefined
entity spelling and without a carriage return. -/
theorem text_roundtrip (s : List Char) (hc : clean s = true) (hr : '\r' ∉ s) :
    textValue (encode s) = some s := by
  rw [encode_eq_enc1]
  unfold textValue
  rw [normEol_noCR _ (fun h => hr (enc1_mem_ws s '\r' (Or.inl rfl) h))]
  have := read_enc1_clean (stop := ['<']) id (by intro c hc; simp at hc; exact Or.inl hc)
    ⟨rfl, rfl, rfl, rfl, rfl⟩ s hc
  simpa using this

/-- Attribute value: an XML processor recovers exactly `s`, for every `s` without a predefined
entity spelling and without TAB / LF / CR. -/
theorem attr_roundtrip (s : List Char) (hc : clean s = true)
    (hr : '\r' ∉ s) (hn : '\n' ∉ s) (ht : '\t' ∉ s) :
    attrValue (encode s) = some s := by
  rw [encode_eq_enc1]
  unfold attrValue
  rw [normEol_noCR _ (fun h => hr (enc1_mem_ws s '\r' (Or.inl rfl) h))]
  have := read_enc1_clean (stop := ['<', '"']) attrLit (by intro c hc; simpa using hc)
    ⟨rfl, rfl, rfl, rfl, rfl⟩ s hc
  rw [this]
  congr 1
  have : ∀ c ∈ s, attrLit c = c := by
    intro c hcs
    unfold attrLit
    have h1 : c ≠ '\t' := fun h => ht (h ▸ hcs)
    have h2 : c ≠ '\n' := fun h => hn (h ▸ hcs)
    have h3 : c ≠ '\r' := fun h => hr (h ▸ hcs)
    simp [h1, h2, h3]
  exact (List.map_congr_left this).trans (List.map_id' s)

/-- The rendering of an un-escaped `Text` in element position round-trips. -/
theorem render_text_roundtrip (s : List Char) (hc : clean s = true) (hr : '\r' ∉ s) :
    textValue (renderText { s := s, escaped := false }) = some s := by
  simp only [renderText, Text.escape]
  exact text_roundtrip s hc hr

/-- `Text.escape` is idempotent: a text is encoded at most once however often it is rendered. -/
theorem escape_idempotent (t : Text) : t.escape.escape = t.escape := by
  unfold Text.escape
  by_cases h : t.escaped = true
  · simp [h]
  · by_cases h2 : encode t.s = t.s
    · simp [h, h2]
    · simp [h, h2]

/-- Any number of further `escape` calls changes nothing. -/
def escapeN : Nat → Text → Text
  | 0, t => t
  | n + 1, t => escapeN n t.escape

theorem escape_once (t : Text) (n : Nat) : escapeN (n + 1) t = t.escape := by
  induction n generalizing t with
  | zero => rfl
  | succ n ih =>
    show escapeN (n + 1) t.escape = t.escape
    rw [ih, escape_idempotent]

/-! ### The excluded points are real: witnesses of D10 and D11 on the model

The hypotheses of the round-trip theorems cannot be dropped: the unchanged code loses the
string at the excluded points. These are replayed on the implementation by the harness
(known findings `D10`, `D11`). -/

/-- D10: the text `&amp;` is sent as `&amp;` and read back as `&`. -/
theorem not_clean_witness :
    textValue (encode ['&','a','m','p',';']) = some ['&'] := by decide

/-- D11: a line feed in an attribute value is read back as a space. -/
theorem attr_newline_witness :
    attrValue (encode ['a','\n','b']) = some ['a',' ','b'] := by decide

/-- D11: a carriage return in element text is read back as a line feed. -/
theorem text_cr_witness :
    textValue (encode ['a','\r','b']) = some ['a','\n','b'] := by decide

/-! ### Non-vacuity -/

example : clean "a<b & \"c\" 'd' &#65; &ampx".toList = true := by decide
example : textValue (encode "a<b & \"c\" 'd' &#65;".toList) = some "a<b & \"c\" 'd' &#65;".toList := by
  decide
example : ({ s := "x<y".toList, escaped := false } : Text).escape.escaped = true := by decide

end Suds.Props.C04
