import SudsModel.Lemmas.Transport
/-!
# C15 — The HTTP transport delivers exactly the bytes and headers it was given
Partial by nature: sockets, urllib (header casing, redirects), `CookieJar` policy, timeouts and the
gzip/zlib codecs are runtime and covered by the loopback-server harness only. The theorems cover
the Base64 credentials and the status / coding decisions.
-/
namespace Suds.Props.C15
open Suds.Transport

/-- RFC 4648: decoding the encoding gives back every byte string. -/
theorem base64_roundtrip (bs : List Nat) (h : ∀ b ∈ bs, b < 256) :
    decode stdAlphabet (encode stdAlphabet bs) = some bs := Suds.Transport.base64_roundtrip bs h

/-- A server decoding the `Authorization: Basic …` value per RFC 7617 recovers exactly the user
name and the password (any bytes; the user name contains no colon). -/
theorem basic_auth_recovers (u p : List Nat) (hu : ∀ b ∈ u, b < 256) (hp : ∀ b ∈ p, b < 256) (hc : (58 : Nat) ∉ u) :
    (decode stdAlphabet (credentials stdAlphabet u p)).bind splitColon = some (u, p) :=
  Suds.Transport.basic_auth_recovers u p hu hp hc

/-- D9 (fixed): with the URL-safe alphabet a standard decoder does not recover `~:?`. -/
theorem urlsafe_witness : decode stdAlphabet (credentials urlAlphabet [126] [63]) = none ∧
    decode stdAlphabet (credentials stdAlphabet [126] [63]) = some [126, 58, 63] :=
  Suds.Transport.urlsafe_witness

/-- Every status outside 2xx surfaces as TransportError carrying that status; 2xx is a reply. -/
theorem error_mapping (status : Nat) :
    responseOutcome status = if 200 ≤ status ∧ status < 300 then .reply else .transportError status := rfl

theorem error_carries_status (status : Nat) (h : status < 200 ∨ 300 ≤ status) :
    responseOutcome status = .transportError status := by
  unfold responseOutcome
  have : ¬ (200 ≤ status ∧ status < 300) := by omega
  simp [this]

/-- The message is transformed only when the caller asked for gzip or deflate. -/
theorem body_identity_unless_requested (ce : Option String) (h1 : ce ≠ some "gzip") (h2 : ce ≠ some "deflate") :
    requestCoding ce = .identity := by
  unfold requestCoding
  split <;> simp_all

example : encode stdAlphabet [117, 58, 112] = "dTpw".toList := by decide +kernel
example : (decode stdAlphabet "dTpw".toList).bind splitColon = some ([117], [112]) := by decide +kernel

end Suds.Props.C15
