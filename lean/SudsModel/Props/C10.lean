import SudsModel.Select
/-!
# C10 — Service, port and method selection is deterministic and matches the WSDL
Model: `SudsModel/Select.lean`.
-/
namespace Suds.Props.C10
open Suds.Select

theorem pyIndex_lt {len : Nat} {i : Int} {n : Nat} (h : pyIndex len i = some n) : n < len := by
  unfold pyIndex at h
  split at h
  · split at h
    · injection h with h; omega
    · simp at h
  · split at h
    · injection h with h; omega
    · simp at h

theorem findIdx_lt {names : List String} {n : String} {i : Nat} (h : findIdx names n = some i) :
    i < names.length ∧ names[i]? = some n := by
  unfold findIdx at h
  simp only at h
  split at h
  · rename_i hlt
    injection h with h; subst h
    refine ⟨hlt, ?_⟩
    have hmem : n ∈ names := List.idxOf_lt_length_iff.mp hlt
    rw [List.getElem?_eq_getElem hlt]
    congr 1
    exact List.getElem_idxOf hlt
  · simp at h

theorem findService_lt {svcs : List Service} {k : Key} {s : Nat} (h : findService svcs k = .ok s) :
    s < svcs.length := by
  unfold findService at h
  split at h
  · simp at h
  · cases k with
    | idx i =>
      simp only at h
      split at h
      · rename_i n hn; injection h with h; subst h; exact pyIndex_lt hn
      · simp at h
    | name n =>
      simp only at h
      split at h
      · rename_i i hi; injection h with h; subst h
        have := (findIdx_lt hi).1; simpa using this
      · simp at h

theorem findPort_lt {svcs : List Service} {s : Nat} {k : Key} {p : Nat} (h : findPort svcs s k = .ok p) :
    p < (portsOf svcs s).length := by
  unfold findPort at h
  simp only at h
  split at h
  · simp at h
  · cases k with
    | idx i =>
      simp only at h
      split at h
      · rename_i n hn; injection h with h; subst h; exact pyIndex_lt hn
      · simp at h
    | name n =>
      simp only at h
      split at h
      · rename_i i hi; injection h with h; subst h
        have := (findIdx_lt hi).1; simpa using this
      · simp at h

/-- A value is well-formed when it names a declared service / port / method of the WSDL. -/
def Valid (svcs : List Service) : Val → Prop
  | .svcSel => True
  | .portSel s => s < svcs.length
  | .methSel s p => s < svcs.length ∧ p < (portsOf svcs s).length
  | .method s p m => s < svcs.length ∧ p < (portsOf svcs s).length ∧ m ∈ methodsOf svcs s p

theorem findMethod_valid {svcs s p m v} (hs : s < svcs.length) (hp : p < (portsOf svcs s).length)
    (h : findMethod svcs s p m = .ok v) : Valid svcs v := by
  unfold findMethod at h
  split at h
  · rename_i hc; injection h with h; subst h
    exact ⟨hs, hp, by simpa using hc⟩
  · simp at h

theorem methSel_map_valid {svcs s k v} (hs : s < svcs.length)
    (h : (findPort svcs s k).map (Val.methSel s ·) = .ok v) : Valid svcs v := by
  cases hf : findPort svcs s k with
  | error e => simp [hf, Except.map] at h
  | ok p =>
    simp [hf, Except.map] at h; subst h
    exact ⟨hs, findPort_lt hf⟩

theorem portItem_valid {svcs o s k v} (hs : s < svcs.length) (h : portItem svcs o s k = .ok v) :
    Valid svcs v := by
  unfold portItem at h
  split at h <;> exact methSel_map_valid hs h

theorem portAttr_valid {svcs o s m v} (hs : s < svcs.length) (h : portAttr svcs o s m = .ok v) :
    Valid svcs v := by
  unfold portAttr at h
  cases hd : defaultPort svcs o s with
  | error e => simp [hd, bind, Except.bind] at h
  | ok p =>
    simp only [hd, bind, Except.bind] at h
    have hp : p < (portsOf svcs s).length := by
      unfold defaultPort at hd; split at hd <;> exact findPort_lt hd
    exact findMethod_valid hs hp h

theorem step_valid {svcs o v st v'} (hv : Valid svcs v) (h : step svcs o v st = .ok v') : Valid svcs v' := by
  cases v with
  | svcSel =>
    cases st with
    | attr m =>
      simp only [step] at h
      cases hs : defaultService svcs o with
      | error e => simp [hs, bind, Except.bind] at h
      | ok s =>
        simp only [hs, bind, Except.bind] at h
        have hlt : s < svcs.length := by
          unfold defaultService at hs
          split at hs <;> exact findService_lt hs
        exact portAttr_valid hlt h
    | item k =>
      simp only [step] at h
      split at h
      · cases hs : findService svcs (.idx 0) with
        | error e => simp [hs, bind, Except.bind] at h
        | ok s =>
          simp only [hs, bind, Except.bind] at h
          exact portItem_valid (findService_lt hs) h
      · split at h
        · rename_i ds _
          cases hs : findService svcs ds with
          | error e => simp [hs, bind, Except.bind] at h
          | ok s =>
            simp only [hs, bind, Except.bind] at h
            exact portItem_valid (findService_lt hs) h
        · cases hs : findService svcs k with
          | error e => simp [hs, Except.map] at h
          | ok s =>
            simp [hs, Except.map] at h; subst h
            exact findService_lt hs
  | portSel s =>
    cases st with
    | attr m => exact portAttr_valid hv h
    | item k => exact portItem_valid hv h
  | methSel s p =>
    cases st with
    | attr m => exact findMethod_valid hv.1 hv.2 h
    | item k =>
      cases k with
      | name m => exact findMethod_valid hv.1 hv.2 h
      | idx i => simp [step] at h
  | method s p m => simp [step] at h

/-- **No fall-through**: whatever the WSDL, options and selector expression, a successful
selection names a service, a port of *that* service and an operation of *that* port; anything
else is an error (and an error carries no endpoint at all). -/
theorem selection_sound (svcs : List Service) (o : Opts) (steps : List Step) (v : Val)
    (h : eval svcs o steps = .ok v) : Valid svcs v := by
  unfold eval at h
  have : ∀ (steps : List Step) (v0 : Val), Valid svcs v0 →
      ∀ v, steps.foldlM (step svcs o) v0 = .ok v → Valid svcs v := by
    intro steps
    induction steps with
    | nil => intro v0 hv0 v hv; simp [List.foldlM, pure, Except.pure] at hv; subst hv; exact hv0
    | cons st rest ih =>
      intro v0 hv0 v hv
      simp only [List.foldlM, bind, Except.bind] at hv
      cases hs : step svcs o v0 st with
      | error e => simp [hs] at hv
      | ok v1 =>
        simp only [hs] at hv
        exact ih v1 (step_valid hv0 hs) v hv
  exact this steps .svcSel trivial v h

/-- Unknown names and out-of-range indexes raise the documented error. -/
theorem unknown_service (svcs : List Service) (n : String) (hne : svcs ≠ [])
    (h : n ∉ svcs.map (·.name)) : findService svcs (.name n) = .error .serviceNotFound := by
  have he : svcs.isEmpty = false := by cases svcs <;> simp_all
  have : findIdx (svcs.map (·.name)) n = none := by
    unfold findIdx
    have : ¬ List.idxOf n (svcs.map (·.name)) < (svcs.map (·.name)).length := by
      rw [List.idxOf_lt_length_iff]; exact h
    simp only [List.length_map] at this
    simp [this]
  simp [findService, he, this]

theorem unknown_port (svcs : List Service) (s : Nat) (n : String) (hne : portsOf svcs s ≠ [])
    (h : n ∉ (portsOf svcs s).map (·.name)) : findPort svcs s (.name n) = .error .portNotFound := by
  have he : (portsOf svcs s).isEmpty = false := by cases hp : portsOf svcs s <;> simp_all
  have : findIdx ((portsOf svcs s).map (·.name)) n = none := by
    unfold findIdx
    have : ¬ List.idxOf n ((portsOf svcs s).map (·.name)) < ((portsOf svcs s).map (·.name)).length := by
      rw [List.idxOf_lt_length_iff]; exact h
    simp only [List.length_map] at this
    simp [this]
  simp [findPort, he, this]

theorem unknown_method (svcs : List Service) (s p : Nat) (m : String) (h : m ∉ methodsOf svcs s p) :
    findMethod svcs s p m = .error .methodNotFound := by
  simp [findMethod, h]

theorem index_out_of_range (svcs : List Service) (i : Nat) (hne : svcs ≠ []) (h : svcs.length ≤ i) :
    findService svcs (.idx i) = .error .serviceNotFound := by
  have he : svcs.isEmpty = false := by cases svcs <;> simp_all
  have : pyIndex svcs.length (i : Int) = none := by
    simp [pyIndex]; omega
  simp [findService, he, this]

/-- A default port overrides every port subscript. -/
theorem default_port_overrides (svcs : List Service) (o : Opts) (dp : Key) (hp : o.port = some dp)
    (s : Nat) (k k' : Key) : portItem svcs o s k = portItem svcs o s k' := by
  simp [portItem, hp]

/-- With a single service the first subscript selects a port. -/
theorem single_service_passthrough (sv : Service) (o : Opts) (k : Key) :
    step [sv] o .svcSel (.item k) = portItem [sv] o 0 k := by
  simp [step, findService, pyIndex, bind, Except.bind]

/-- With a default service the first subscript selects a port of that service. -/
theorem default_service_passthrough (svcs : List Service) (o : Opts) (ds : Key) (hs : o.service = some ds)
    (hlen : svcs.length ≠ 1) (k : Key) (s : Nat) (hf : findService svcs ds = .ok s) :
    step svcs o .svcSel (.item k) = portItem svcs o s k := by
  simp [step, hlen, hs, hf, bind, Except.bind]

/-- Without defaults, attribute access goes to the first port of the first service. -/
theorem attr_uses_first (sv : Service) (rest : List Service) (pt : Port) (ports : List Port) (m : String)
    (hsv : sv.ports = pt :: ports) :
    eval (sv :: rest) ⟨none, none⟩ [.attr m] =
      if pt.methods.contains m then .ok (.method 0 0 m) else .error .methodNotFound := by
  simp [eval, List.foldlM, step, defaultService, findService, pyIndex, bind, Except.bind, portAttr, defaultPort, findPort,
    portsOf, hsv, findMethod, methodsOf, pure, Except.pure]
  split <;> simp_all

/-- `pyIndex` is `none` exactly outside `-len ≤ i < len`. -/
theorem pyIndex_none_iff (len : Nat) (i : Int) :
    pyIndex len i = none ↔ ((len : Int) ≤ i ∨ i < -(len : Int)) := by
  unfold pyIndex
  split
  · split <;> simp <;> omega
  · split <;> simp <;> omega

/-- Inside the range an index from the end names position `len + i`. -/
theorem pyIndex_negative (len : Nat) (i : Int) (h0 : i < 0) (h1 : -(len : Int) ≤ i) :
    pyIndex len i = some (len + i).toNat := by
  unfold pyIndex
  have : ¬ (0 ≤ i) := by omega
  simp only [this, if_false]
  have h2 : (-i).toNat ≤ len := by omega
  simp only [h2, if_true]
  congr 1
  omega

/-- **Any index outside the list - also a negative one - is reported as not found**, never as a
Python IndexError: for services ... -/
theorem service_index_outside (svcs : List Service) (i : Int) (hne : svcs ≠ [])
    (h : (svcs.length : Int) ≤ i ∨ i < -(svcs.length : Int)) :
    findService svcs (.idx i) = .error .serviceNotFound := by
  have he : svcs.isEmpty = false := by cases svcs <;> simp_all
  have : pyIndex svcs.length i = none := (pyIndex_none_iff _ _).mpr h
  simp [findService, he, this]

/-- ... and for ports. -/
theorem port_index_outside (svcs : List Service) (s : Nat) (i : Int) (hne : portsOf svcs s ≠ [])
    (h : ((portsOf svcs s).length : Int) ≤ i ∨ i < -((portsOf svcs s).length : Int)) :
    findPort svcs s (.idx i) = .error .portNotFound := by
  have he : (portsOf svcs s).isEmpty = false := by cases hp : portsOf svcs s <;> simp_all
  have : pyIndex (portsOf svcs s).length i = none := (pyIndex_none_iff _ _).mpr h
  simp [findPort, he, this]

/-- An index from the end inside the list selects that port. -/
theorem port_index_from_end (svcs : List Service) (s : Nat) (i : Int) (hne : portsOf svcs s ≠ [])
    (h0 : i < 0) (h1 : -((portsOf svcs s).length : Int) ≤ i) :
    findPort svcs s (.idx i) = .ok ((portsOf svcs s).length + i).toNat := by
  have he : (portsOf svcs s).isEmpty = false := by cases hp : portsOf svcs s <;> simp_all
  simp [findPort, he, pyIndex_negative _ _ h0 h1]

/-! ### Non-vacuity -/
def demo : List Service :=
  [⟨"S1", [⟨"P1", ["f", "g"]⟩, ⟨"P2", ["f"]⟩]⟩, ⟨"S2", [⟨"Q1", ["h"]⟩]⟩]

example : eval demo ⟨none, none⟩ [.item (.name "S2"), .item (.idx 0), .attr "h"] = .ok (.method 1 0 "h") := by rfl
example : eval demo ⟨none, none⟩ [.item (.idx (-1)), .attr "h"] = .ok (.method 1 0 "h") := by rfl
example : eval demo ⟨some (.name "S1"), none⟩ [.item (.name "P2"), .attr "f"] = .ok (.method 0 1 "f") := by rfl
example : eval demo ⟨none, some (.name "P2")⟩ [.attr "g"] = .error .methodNotFound := by rfl
example : eval demo ⟨none, none⟩ [.item (.name "S3"), .attr "f"] = .error .serviceNotFound := by rfl
example : eval demo ⟨none, none⟩ [.item (.idx 2)] = .error .serviceNotFound := by rfl
example : findPort demo 0 (.idx (-7)) = .error .portNotFound := by rfl
example : eval demo ⟨none, none⟩ [.item (.idx (-7))] = .error .serviceNotFound := by rfl

end Suds.Props.C10
