import SudsModel.ParseCfg
/-!
# C20 — Parsing never reaches outside the document
The theorem is about suds' configuration of the parser and its single funnel; expat and
`xml.sax.expatreader` themselves are trusted (and exercised by the audit-hook harness).
-/
namespace Suds.Props.C20
open Suds.ParseCfg Suds.Gen

/-- Every place under `suds/` that constructs an XML parser switches external general entities
off (breaks when a new construction site appears without it, or the line is removed). -/
theorem all_sites_disable_external_ges : ∀ s ∈ parserSites, siteSafe s = true := by decide

/-- There is at least one such site and no module uses another XML parsing library. -/
theorem single_parser_library : parserSites ≠ [] ∧ otherXmlLibUsers = [] := by decide

/-- For every stream of external references a parser built at a safe site resolves none. -/
theorem no_resolve_when_disabled (s : String × String × List String × List (String × Option Bool))
    (hs : siteSafe s = true) (refs : List Unit) : Action.resolve ∉ actions s refs := by
  have : gesSetting s = some false := by simpa [siteSafe] using hs
  simp [actions, this, onExternalRef]

example : (parserSites.map (·.2.1)) = ["saxparser"] := by decide

end Suds.Props.C20
