import SudsModel.Plugin
/-!
# C16 — Plugins run in order, once per stage, and later stages see their edits
Model: `SudsModel/Plugin.lean` over generated tables (plugin domains, hook call sites in source order).
-/
namespace Suds.Props.C16
open Suds.Plugin Suds.Gen Suds.Reply

/-- The hook call sites, as extracted from the source, are in the documented stage order. -/
theorem call_sites_in_stage_order :
    sendHookCalls = ["marshalled", "sending"] ∧ replyHookCalls = ["received", "parsed", "unmarshalled"] ∧
    fetchHookCalls = ["loaded"] ∧ openHookCalls = ["parsed"] ∧ initHookCalls = ["initialized"] := by decide

theorem dispatchFrom_mem (cls hook : String) (ps : List Plug) (i0 i : Nat) (h : String) :
    (i, h) ∈ dispatchFrom cls hook i0 ps ↔ h = hook ∧ i0 ≤ i ∧ ∃ p, ps[i - i0]? = some p ∧ pmatches cls hook p = true := by
  induction ps generalizing i0 with
  | nil => simp [dispatchFrom]
  | cons p ps ih =>
    simp only [dispatchFrom]
    by_cases hm : pmatches cls hook p = true
    · simp only [hm, if_true, List.mem_cons, Prod.mk.injEq, ih]
      constructor
      · rintro (⟨rfl, rfl⟩ | ⟨rfl, hle, q, hq, hqm⟩)
        · exact ⟨rfl, Nat.le_refl _, p, by simp, hm⟩
        · refine ⟨rfl, by omega, q, ?_, hqm⟩
          have : i - i0 = (i - (i0 + 1)) + 1 := by omega
          rw [this]; simpa using hq
      · rintro ⟨rfl, hle, q, hq, hqm⟩
        by_cases hi : i = i0
        · left; exact ⟨hi, rfl⟩
        · right
          refine ⟨rfl, by omega, q, ?_, hqm⟩
          have : i - i0 = (i - (i0 + 1)) + 1 := by omega
          rw [this] at hq; simpa using hq
    · have hm' : pmatches cls hook p = false := by simpa using hm
      simp only [hm', Bool.false_eq_true, if_false, ih]
      constructor
      · rintro ⟨rfl, hle, q, hq, hqm⟩
        refine ⟨rfl, by omega, q, ?_, hqm⟩
        have : i - i0 = (i - (i0 + 1)) + 1 := by omega
        rw [this]; simpa using hq
      · rintro ⟨rfl, hle, q, hq, hqm⟩
        have hi : i ≠ i0 := by
          intro he; subst he; simp at hq; subst hq; simp [hm'] at hqm
        refine ⟨rfl, by omega, q, ?_, hqm⟩
        have : i - i0 = (i - (i0 + 1)) + 1 := by omega
        rw [this] at hq; simpa using hq

/-- A stage calls exactly the plugins of the matching kind that override the hook … -/
theorem stage_calls_exactly (plugins : List Plug) (domain hook cls : String) (hd : domainClass domain = some cls)
    (i : Nat) (h : String) :
    (i, h) ∈ dispatch plugins domain hook ↔
      h = hook ∧ ∃ p, plugins[i]? = some p ∧ p.kind = cls ∧ hook ∈ p.hooks := by
  simp only [dispatch, hd, dispatchFrom_mem, Nat.sub_zero, Nat.zero_le, true_and, pmatches, Bool.and_eq_true,
    beq_iff_eq, List.contains_iff_mem]

theorem dispatchFrom_sorted (cls hook : String) (ps : List Plug) (i0 : Nat) :
    (dispatchFrom cls hook i0 ps).Pairwise (fun a b => a.1 < b.1) := by
  induction ps generalizing i0 with
  | nil => simp [dispatchFrom]
  | cons p ps ih =>
    simp only [dispatchFrom]
    split
    · refine List.Pairwise.cons ?_ (ih (i0 + 1))
      intro b hb
      have := (dispatchFrom_mem cls hook ps (i0 + 1) b.1 b.2).mp (by simpa using hb)
      simp; omega
    · exact ih (i0 + 1)

/-- … each exactly once and in registration order. -/
theorem stage_in_registration_order (plugins : List Plug) (domain hook : String) :
    (dispatch plugins domain hook).Pairwise (fun a b => a.1 < b.1) := by
  unfold dispatch
  split
  · exact dispatchFrom_sorted _ _ _ _
  · simp

theorem stage_once (plugins : List Plug) (domain hook : String) : (dispatch plugins domain hook).Nodup := by
  have := stage_in_registration_order plugins domain hook
  exact this.imp (fun {a b} h => by intro he; rw [he] at h; exact Nat.lt_irrefl _ h)

/-- Without a reply (nosend) only the two send-side hooks run. -/
theorem nosend_runs_send_hooks_only (plugins : List Plug) (retxml : Bool) (i : Nat) (h : String)
    (hm : (i, h) ∈ invokeLog plugins none retxml) : h = "marshalled" ∨ h = "sending" := by
  simp only [invokeLog, List.append_nil, sendLog, List.mem_flatMap] at hm
  obtain ⟨hook, hh, hmem⟩ := hm
  have hd : domainClass "message" = some "MessagePlugin" := by decide
  have := (stage_calls_exactly plugins "message" hook _ hd i h).mp hmem
  have hs : hook = "marshalled" ∨ hook = "sending" := by
    have : sendHookCalls = ["marshalled", "sending"] := by decide
    rw [this] at hh; simpa using hh
  rw [this.1]; exact hs

/-- `replyStages` depends on the status only through its class. -/
theorem replyStages_by_class (status : Option Nat) (b : Body) (retxml : Bool) :
    replyStages status b retxml =
      match classOf status with
      | .accepted => []
      | .other _ => ["received"]
      | .serverError => if b == .malformed then ["received"] else ["received", "parsed"]
      | .ok => if b == .malformed then ["received"]
               else if b.isFault || retxml || b == .nonSoap then ["received", "parsed"]
               else ["received", "parsed", "unmarshalled"] := by
  cases status with
  | none => cases b <;> cases retxml <;> decide
  | some s =>
    simp only [replyStages, classOf, Option.getD_some, replyAcceptedStatuses, replyParsedStatuses]
    by_cases h202 : s = 202
    · subst h202; cases b <;> cases retxml <;> decide
    · by_cases h204 : s = 204
      · subst h204; cases b <;> cases retxml <;> decide
      · by_cases h200 : s = 200
        · subst h200; cases b <;> cases retxml <;> decide
        · by_cases h500 : s = 500
          · subst h500; cases b <;> cases retxml <;> decide
          · have e1 : ([202, 204].contains s) = false := by simp [h202, h204]
            have e2 : ([200, 500].contains s) = false := by simp [h200, h500]
            simp [e1, e2, h202, h204, h200, h500]

/-- A fault, an error status, `retxml` or a 202/204 reply never reaches `unmarshalled`. -/
theorem no_unmarshalled (status : Option Nat) (b : Body) (retxml : Bool)
    (h : b.isFault = true ∨ retxml = true ∨ classOf status ≠ .ok) :
    "unmarshalled" ∉ replyStages status b retxml := by
  rw [replyStages_by_class]
  cases hc : classOf status with
  | accepted => simp
  | other s => simp
  | serverError => cases b <;> simp
  | ok =>
    rcases h with h | h | h
    · cases b <;> cases retxml <;> simp_all [Body.isFault]
    · cases b <;> cases retxml <;> simp_all [Body.isFault]
    · exact absurd hc h

/-- 202 / 204: no reply hook at all. -/
theorem accepted_runs_no_reply_hook (b : Body) (retxml : Bool) :
    replyStages (some 202) b retxml = [] ∧ replyStages (some 204) b retxml = [] := by
  cases b <;> cases retxml <;> decide

/-- The reply hooks an invocation reaches are always a prefix of received, parsed, unmarshalled. -/
theorem reply_stages_ordered (status : Option Nat) (b : Body) (retxml : Bool) :
    replyStages status b retxml ∈ [[], ["received"], ["received", "parsed"], ["received", "parsed", "unmarshalled"]] := by
  rw [replyStages_by_class]
  cases classOf status with
  | accepted => simp
  | other s => simp
  | serverError => cases b <;> simp
  | ok => cases b <;> cases retxml <;> simp [Body.isFault]

/-! ### Non-vacuity -/
def demo : List Plug :=
  [⟨"MessagePlugin", ["marshalled", "parsed"]⟩, ⟨"DocumentPlugin", ["parsed", "loaded"]⟩,
   ⟨"MessagePlugin", ["sending", "marshalled", "unmarshalled"]⟩, ⟨"InitPlugin", ["initialized"]⟩]

example : invokeLog demo (some (none, .normal)) false =
    [(0, "marshalled"), (2, "marshalled"), (2, "sending"), (0, "parsed"), (2, "unmarshalled")] := by decide
example : invokeLog demo (some (some 500, .fault11)) false =
    [(0, "marshalled"), (2, "marshalled"), (2, "sending"), (0, "parsed")] := by decide
example : invokeLog demo none false = [(0, "marshalled"), (2, "marshalled"), (2, "sending")] := by decide
example : openLog demo true = [(1, "loaded"), (1, "parsed")] ∧ openLog demo false = [(1, "parsed")] := by decide

end Suds.Props.C16
