import SudsModel.Lemmas.Schema
/-!
C01 — what the marshalling rules write, for every schema environment, type and value tree.
The model (`SudsModel/Xsd/Schema.lean`) is tied to `suds/mx/*`, `suds/bindings/*` by the request
correspondence of the C01 check; leaf text is the lexical form the C06 model describes.
-/
namespace Suds.Schema
open Suds.Xml

def _root_.Suds.Xml.Info.nsOf : Info → Option String
  | .mk ns _ _ _ _ => ns
def _root_.Suds.Xml.Info.attrsOf : Info → List IAttr
  | .mk _ _ a _ _ => a
def _root_.Suds.Xml.Info.textOf : Info → Option String
  | .mk _ _ _ t _ => t

/-- **Inherited members first.** The flattened content model of a derived type is its base
type's flattened content followed by its own particles in document order. -/
theorem members_inherited_first (env : Env) (f : Nat) (k : Key) (t : TypeDef) (b : Key)
    (ht : env.find k = some t) (hb : t.base = some b) :
    members env (f + 1) k = members env f b ++ t.own.map (fun m => (m, t.key.1)) := by
  simp [members, ht, hb]

theorem members_no_base (env : Env) (f : Nat) (k : Key) (t : TypeDef)
    (ht : env.find k = some t) (hb : t.base = none) :
    members env (f + 1) k = t.own.map (fun m => (m, t.key.1)) := by
  simp [members, ht, hb]

/-- **Every element written for an accessor carries that accessor's name and namespace** —
whatever the value (None, leaf, list of any length, object, array) and the depth. -/
theorem marshal_names (env : Env) : ∀ (f : Nat) (name : String) (ns : Option String) (t : TRef)
    (nillable : Bool) (v : Val) (i : Info), i ∈ marshal env f name ns t nillable v →
    i.name = name ∧ i.nsOf = ns := by
  intro f
  induction f with
  | zero => intro name ns t nl v i h; simp [marshal] at h
  | succ f ih =>
    intro name ns t nl v i h
    cases v with
    | none => simp [marshal] at h; subst h; exact ⟨rfl, rfl⟩
    | leaf s => simp [marshal] at h; subst h; exact ⟨rfl, rfl⟩
    | list items =>
      cases t with
      | array k => simp [marshal] at h; subst h; exact ⟨rfl, rfl⟩
      | builtin n =>
        simp only [marshal, List.mem_flatMap] at h
        obtain ⟨x, _, hx⟩ := h
        exact ih _ _ _ _ _ _ hx
      | complex k =>
        simp only [marshal, List.mem_flatMap] at h
        obtain ⟨x, _, hx⟩ := h
        exact ih _ _ _ _ _ _ hx
    | obj real fields =>
      cases t with
      | builtin n => simp [marshal] at h
      | array k => simp [marshal] at h
      | complex k => simp [marshal] at h; subst h; exact ⟨rfl, rfl⟩

/-- **Children in schema order, qualified as the form rules demand.** An object is written as one
element whose children are the contributions of the members of its *actual* type taken in
flattened schema order (inherited first, by `members_inherited_first`); each contribution consists
only of elements named after that member, in the member's declaring namespace when its form is
qualified and in no namespace otherwise. -/
theorem object_children_in_schema_order (env : Env) (f : Nat) (name : String) (ns : Option String) (k : Key)
    (nl : Bool) (real : Option Key) (fields : List (String × Val)) :
    ∃ attrs, marshal env (f + 1) name ns (.complex k) nl (.obj real fields) =
        [.mk ns name attrs none ((members env (env.types.length + 1) (real.getD k)).flatMap (emit env f fields))] ∧
      ∀ md i, i ∈ emit env f fields md →
        i.name = md.1.name ∧ i.nsOf = (if md.1.qualified then some (env.uri (md.1.refNs.getD md.2)) else none) := by
  refine ⟨(if real.getD k == k && !env.encoded then [] else [xsiType env (real.getD k)]) ++
    (attrsOf env (env.types.length + 1) (real.getD k)).filterMap (attrInfo fields), ?_, ?_⟩
  · simp only [marshal, emit]; rfl
  · intro md i hi
    unfold emit at hi
    split at hi
    · simp at hi
    · split at hi
      · simp at hi
      · exact marshal_names env _ _ _ _ _ _ _ hi

/-- **Absent optional values are omitted**: None or an empty list in an optional member or a choice
branch writes nothing. -/
theorem optional_none_omitted (env : Env) (f : Nat) (fields : List (String × Val)) (md : Member × Nat) (x : Val)
    (hx : vlookup md.1.name fields = some x) (hv : x.skippable = true) (ho : md.1.min = 0 ∨ md.1.inChoice = true) :
    emit env f fields md = [] := by
  have : skipped md.1 x = true := by
    rcases ho with h | h <;> simp [skipped, hv, h]
  simp [emit, hx, this]

/-- A member the caller did not mention writes nothing either. -/
theorem unmentioned_omitted (env : Env) (f : Nat) (fields : List (String × Val)) (md : Member × Nat)
    (hx : vlookup md.1.name fields = none) : emit env f fields md = [] := by
  simp [emit, hx]

/-- **xsi:nil for a nillable None** in a required member: exactly one empty element marked nil. -/
theorem required_nillable_none_is_nil (env : Env) (f : Nat) (fields : List (String × Val)) (md : Member × Nat)
    (hx : vlookup md.1.name fields = some .none) (hr : md.1.min ≠ 0) (hc : md.1.inChoice = false)
    (hn : md.1.nillable = true) :
    ∃ attrs, emit env (f + 1) fields md = [.mk (memberNs env md.1 md.2) md.1.name attrs none []] ∧ xsiNil ∈ attrs := by
  have hs : skipped md.1 .none = false := by simp [skipped, Val.skippable, hr, hc]
  refine ⟨encType env md.1.type ++ [xsiNil], ?_, ?_⟩
  · simp only [emit, hx, hs]; simp [marshal, hn]
  · simp

/-- **xsi:type exactly for a derived actual type** (literal use): the attribute naming the actual
type is written iff the value's type differs from the declared one. -/
theorem xsi_type_iff_derived (env : Env) (henc : env.encoded = false) (f : Nat) (name : String)
    (ns : Option String) (k : Key) (nl : Bool) (real : Option Key) (fields : List (String × Val)) (i : Info)
    (hi : i ∈ marshal env (f + 1) name ns (.complex k) nl (.obj real fields)) :
    ((i.attrsOf.filter (fun a => a.ns == some xsiUri && a.name == "type")) =
      if real.getD k = k then [] else [xsiType env (real.getD k)]) := by
  simp only [marshal, henc, List.mem_singleton] at hi
  subst hi
  have hattr : ∀ (l : List AttrDecl), ((l.filterMap (attrInfo fields)).filter
      (fun a => a.ns == some xsiUri && a.name == "type")) = [] := by
    intro l
    rw [List.filter_eq_nil_iff]
    intro a ha
    obtain ⟨d, _, hd⟩ := List.mem_filterMap.mp ha
    unfold attrInfo at hd
    split at hd
    · cases hd; simp
    · simp at hd
  by_cases h : real.getD k = k
  · simp [Info.attrsOf, h, hattr]
  · have : (real.getD k == k) = false := by simpa using h
    simp [Info.attrsOf, this, h, hattr, List.filter_append, xsiType]

/-- **SOAP arrays carry their item type and length**: a list passed for a section-5 array type is
one element whose `soapenc:arrayType` is the item type's QName followed by `[n]`, `n` the number of
items, and whose children are the items' elements, all named `item` in no namespace. -/
theorem array_type_and_length (env : Env) (f : Nat) (name : String) (ns : Option String) (k : Key) (nl : Bool)
    (items : List Val) (it : TRef) (hit : env.itemType k = some it) :
    ∃ kids, marshal env (f + 1) name ns (.array k) nl (.list items) =
      [.mk ns name (encType env (.array k) ++ [⟨some encUri, "arrayType",
        .qname (env.qnameOf it).1 ((env.qnameOf it).2 ++ "[" ++ toString items.length ++ "]")⟩]) none kids] ∧
      ∀ i ∈ kids, i.name = "item" ∧ i.nsOf = none := by
  refine ⟨items.flatMap fun x => marshal env f "item" none it false x, ?_, ?_⟩
  · simp only [marshal, hit, Option.getD_some]
  · intro i hi
    obtain ⟨x, _, hx⟩ := List.mem_flatMap.mp hi
    exact marshal_names env _ _ _ _ _ _ _ hx

/-- A repeating member writes one element per list item when the items are leaves. -/
theorem list_of_leaves_length (env : Env) (f : Nat) (name : String) (ns : Option String) (n : String) (nl : Bool)
    (texts : List String) :
    (marshal env (f + 2) name ns (.builtin n) nl (.list (texts.map .leaf))).length = texts.length := by
  simp only [marshal]
  induction texts with
  | nil => simp
  | cons t ts ih => simp [marshal, List.flatMap_cons] at *; omega

/-- **The right wrapper** (document/literal wrapped): one element named after the operation in the
schema's target namespace, holding the parameters' contributions in declaration order. -/
theorem wrapped_request_shape (env : Env) (fuel : Nat) (op : Op) (args : List (String × Val))
    (h : op.style = .wrapped) :
    ∃ kids, request env fuel op args = [.mk (some (env.uri 0)) op.name [] none kids] := by
  simp only [request, h]
  exact ⟨_, rfl⟩

/-- **The right wrapper** (rpc): one element named after the operation in the `soap:body`
namespace; every part accessor is written in no namespace. -/
theorem rpc_request_shape (env : Env) (fuel : Nat) (op : Op) (args : List (String × Val))
    (h : op.style = .rpc) :
    ∃ kids, request env fuel op args = [.mk (some rpcNs) op.name [] none kids] ∧
      ∀ i ∈ kids, i.nsOf = none ∧ ∃ p ∈ op.ins, i.name = p.name := by
  simp only [request, h]
  refine ⟨_, rfl, ?_⟩
  intro i hi
  obtain ⟨p, hp, hip⟩ := List.mem_flatMap.mp hi
  split at hip
  · simp at hip
  · split at hip
    · simp at hip
    · have := marshal_names env _ _ _ _ _ _ _ hip
      exact ⟨this.2, p, hp, this.1⟩

/-- **Bare parts**: every element of the body is one part's global element, in the schema's
target namespace. -/
theorem bare_request_shape (env : Env) (fuel : Nat) (op : Op) (args : List (String × Val))
    (h : op.style = .bare) (i : Info) (hi : i ∈ request env fuel op args) :
    i.nsOf = some (env.uri 0) ∧ ∃ p ∈ op.ins, i.name = op.name ++ "_" ++ p.name := by
  simp only [request, h] at hi
  obtain ⟨p, hp, hip⟩ := List.mem_flatMap.mp hi
  split at hip
  · simp at hip
  · have := marshal_names env _ _ _ _ _ _ _ hip
    exact ⟨this.2, p, hp, this.1⟩

/-- **Attributes on their owner**: besides `xsi:type`, the attributes of an object's element are
exactly those attributes of its actual type (inherited first) for which the value holds a text,
each unqualified and named as declared. -/
theorem object_attributes (env : Env) (f : Nat) (name : String) (ns : Option String) (k : Key)
    (nl : Bool) (real : Option Key) (fields : List (String × Val)) (i : Info)
    (hi : i ∈ marshal env (f + 1) name ns (.complex k) nl (.obj real fields)) :
    i.attrsOf.filter (fun a => a.ns == none) =
      (attrsOf env (env.types.length + 1) (real.getD k)).filterMap (attrInfo fields) ∧
    ∀ a ∈ (attrsOf env (env.types.length + 1) (real.getD k)).filterMap (attrInfo fields),
      ∃ d ∈ attrsOf env (env.types.length + 1) (real.getD k), a.name = d.name ∧ a.ns = none := by
  rw [marshal_obj] at hi
  simp only [List.mem_singleton] at hi
  subst hi
  have hall : ∀ a ∈ (attrsOf env (env.types.length + 1) (real.getD k)).filterMap (attrInfo fields),
      ∃ d ∈ attrsOf env (env.types.length + 1) (real.getD k), a.name = d.name ∧ a.ns = none := by
    intro a ha
    obtain ⟨d, hd, hda⟩ := List.mem_filterMap.mp ha
    refine ⟨d, hd, ?_⟩
    unfold attrInfo at hda
    split at hda
    · cases hda; exact ⟨rfl, rfl⟩
    · simp at hda
  refine ⟨?_, hall⟩
  simp only [Info.attrsOf, List.filter_append]
  have h1 : (List.filter (fun a => a.ns == none)
      (if (real.getD k == k && !env.encoded) = true then [] else [xsiType env (real.getD k)])) = [] := by
    split <;> simp [xsiType]
  rw [h1, List.nil_append]
  apply List.filter_eq_self.mpr
  intro a ha
  obtain ⟨_, _, _, hn⟩ := hall a ha
  simp [hn]

mutual
  /-- every node of the tree satisfies `p` -/
  def allNodes (p : Info → Bool) : Info → Bool
    | .mk ns n a t kids => p (.mk ns n a t kids) && allKidsNodes p kids
  def allKidsNodes (p : Info → Bool) : List Info → Bool
    | [] => true
    | k :: ks => allNodes p k && allKidsNodes p ks
end

theorem allKidsNodes_of_mem (p : Info → Bool) : ∀ (l : List Info), (∀ i ∈ l, allNodes p i = true) →
    allKidsNodes p l = true := by
  intro l
  induction l with
  | nil => intro _; rfl
  | cons a l ih =>
    intro h
    simp only [allKidsNodes, Bool.and_eq_true]
    exact ⟨h a (by simp), ih (fun i hi => h i (List.mem_cons_of_mem _ hi))⟩

def hasXsiType (i : Info) : Bool := i.attrsOf.any fun a => a.ns == some xsiUri && a.name == "type"

/-- **Section-5 encoding: every element names its type** — at every depth of every value tree
(None, leaves, structs, arrays and their items), under rpc/encoded each written element carries an
`xsi:type` attribute. -/
theorem encoded_every_element_typed (env : Env) (henc : env.encoded = true) :
    ∀ (f : Nat) (name : String) (ns : Option String) (t : TRef) (nl : Bool) (v : Val) (i : Info),
      i ∈ marshal env f name ns t nl v → allNodes hasXsiType i = true := by
  intro f
  induction f with
  | zero => intro name ns t nl v i h; simp [marshal] at h
  | succ f ih =>
    intro name ns t nl v i h
    cases v with
    | none =>
      simp only [marshal, List.mem_singleton] at h; subst h
      simp [allNodes, allKidsNodes, hasXsiType, Info.attrsOf, encType, henc]
    | leaf s =>
      simp only [marshal, List.mem_singleton] at h; subst h
      simp [allNodes, allKidsNodes, hasXsiType, Info.attrsOf, encType, henc]
    | list items =>
      cases t with
      | array k =>
        simp only [marshal, List.mem_singleton] at h; subst h
        simp only [allNodes, Bool.and_eq_true]
        refine ⟨by simp [hasXsiType, Info.attrsOf, encType, henc], ?_⟩
        apply allKidsNodes_of_mem
        intro j hj
        obtain ⟨x, _, hx⟩ := List.mem_flatMap.mp hj
        exact ih _ _ _ _ _ _ hx
      | builtin n =>
        simp only [marshal, List.mem_flatMap] at h
        obtain ⟨x, _, hx⟩ := h
        exact ih _ _ _ _ _ _ hx
      | complex k =>
        simp only [marshal, List.mem_flatMap] at h
        obtain ⟨x, _, hx⟩ := h
        exact ih _ _ _ _ _ _ hx
    | obj real fields =>
      cases t with
      | builtin n => simp [marshal] at h
      | array k => simp [marshal] at h
      | complex k =>
        rw [marshal_obj] at h
        simp only [List.mem_singleton] at h; subst h
        simp only [allNodes, Bool.and_eq_true]
        refine ⟨by simp [hasXsiType, Info.attrsOf, henc, xsiType], ?_⟩
        apply allKidsNodes_of_mem
        intro j hj
        obtain ⟨md, _, hmd⟩ := List.mem_flatMap.mp hj
        unfold emit at hmd
        split at hmd
        · simp at hmd
        · split at hmd
          · simp at hmd
          · exact ih _ _ _ _ _ _ hmd

/-! Non-vacuity: a concrete two-type environment with inheritance across namespaces. -/
def exEnv : Env :=
  { uris := ["urn:a", "urn:b"],
    types := [⟨(0, "Base"), none, [⟨"id", .builtin "int", 1, false, false, true, false, none⟩], []⟩,
              ⟨(1, "Derived"), some (0, "Base"),
               [⟨"tag", .builtin "string", 0, false, true, false, false, none⟩,
                ⟨"n", .builtin "int", 1, false, true, true, false, none⟩], []⟩] }

example : (members exEnv 3 (1, "Derived")).map (fun md => (md.1.name, md.2)) = [("id", 0), ("tag", 1), ("n", 1)] := by
  decide

example : beqKids (marshal exEnv 5 "x" (some "urn:a") (.complex (0, "Base")) false
    (.obj (some (1, "Derived")) [("n", .none), ("tag", .none), ("id", .leaf "7")]))
  [.mk (some "urn:a") "x" [xsiType exEnv (1, "Derived")] none
    [.mk (some "urn:a") "id" [] (some "7") [], .mk (some "urn:b") "n" [xsiNil] none []]] = true := by
  decide

end Suds.Schema
