import SudsModel.Lemmas.ArgParser4
/-!
# C08 — Call arguments bind to parameters like Python arguments, or fail loudly

Model: `SudsModel/ArgParser.lean` (`run` = `_ArgParser.__call__` on the frame stack; `spec` = the
recursive rule over the parameter tree). Lemmas: `SudsModel/Lemmas/ArgParser0..4.lean`.
-/
namespace Suds.Props.C08
open Suds.ArgParser

/-- **Main theorem.** For every parameter forest of any shape and depth whose sibling containers
are distinct objects, every positional/keyword argument vector and both settings of
`extraArgumentErrors`, the frame-stack parser (fed the flattened `(name, optional, ancestry)`
list, exactly what the bindings hand to `parse_args`) returns what the recursive rule returns:
the same required/allowed counts (sum over sequences, minimum over the visible branches of a
choice), the same `(name, in_choice_context, value)` sequence handed to the marshaller, and the
same error (kind and reported numbers). -/
theorem parse_refines_spec (strict : Bool) (kids : List (PT PDef)) (args : List Val)
    (kwargs : List (String × Val)) (hwf : PT.wf.wfKids kids) (htop : TopOK kids) :
    runForest strict kids args kwargs = spec strict kids args kwargs :=
  run_eq_spec strict kids args kwargs hwf htop

/-- With extra-argument checking disabled no call is rejected (any parameter list, any arguments). -/
theorem no_errors_when_disabled (leaves : List Leaf) (args : List Val) (kwargs : List (String × Val)) :
    ∃ r, run false leaves args kwargs = .ok r := by
  simp [run, finish]

/-- With checking enabled a call is rejected exactly when a choice got two values, a keyword is
left over (unknown, or naming a parameter that already has a value) or a positional is left over. -/
theorem rejected_iff (kids : List (PT PDef)) (args : List Val) (kwargs : List (String × Val)) :
    let b := bind ((flatForest kids).map (·.2.1)) args kwargs
    let acc := summForest (fillForest (fun (d : PDef) (x : Bool × Val) => (d.2, x.2.isSome)) (false, none) kids b.1)
    (∃ e, spec true kids args kwargs = .error e) ↔ (acc.conflict = true ∨ b.2.2 ≠ [] ∨ b.2.1 ≠ []) := by
  intro b acc
  simp only [spec, finish, Bool.true_and]
  by_cases hc : acc.conflict = true
  · simp [acc, b] at hc ⊢; simp [hc]
  · have hc' : acc.conflict = false := by simpa using hc
    simp only [acc, b] at hc' ⊢
    rw [hc']
    simp only [Bool.false_eq_true, if_false, if_true, false_or]
    split
    · rename_i k v rest heq
      simp [heq]
      split <;> simp
    · rename_i heq
      simp [heq]
      by_cases ha : (bind (List.map (fun x => x.snd.fst) (flatForest kids)) args kwargs).2.1 = []
      · simp [ha]
      · simp [ha]

/-- The error for a surplus positional reports the counts of the recursive rule and the number of
values given. -/
theorem positional_error_counts (kids : List (PT PDef)) (args : List Val) (kwargs : List (String × Val))
    (r a g : Nat) (h : spec true kids args kwargs = .error (.positional r a g)) :
    let b := bind ((flatForest kids).map (·.2.1)) args kwargs
    let acc := summForest (fillForest (fun (d : PDef) (x : Bool × Val) => (d.2, x.2.isSome)) (false, none) kids b.1)
    r = acc.required ∧ a = acc.allowed ∧ g = args.length + kwargs.length := by
  intro b acc
  simp only [spec, finish, Bool.true_and] at h
  split at h
  · simp at h
  · simp only [if_true] at h
    split at h
    · split at h <;> simp at h
    · split at h
      · simp only [Except.error.injEq, Err.positional.injEq] at h
        exact ⟨h.1.symm, h.2.1.symm, h.2.2.symm⟩
      · simp at h

/-! ### Non-vacuity: a 3-deep choice-in-sequence-in-choice forest, a surplus positional, a conflict -/

def demo : List (PT PDef) :=
  [.node 1 false [.leaf ("a", false),
     .node 2 true [.leaf ("b", false), .node 3 false [.leaf ("c", true), .leaf ("d", false)],
                   .node 4 true [.leaf ("e", false)]],
     .leaf ("f", true)]]

example : PT.wf.wfKids demo ∧ TopOK demo := by
  refine ⟨?_, Or.inl ?_⟩
  · simp [demo, PT.wf.wfKids, PT.wf, rootId]
  · simp [demo, isNode]

example : runForest true demo [some "1", none, some "3", some "4"] [] =
    .ok ⟨2, 6, [("a", false, some "1"), ("b", true, none), ("c", true, some "3"), ("d", true, some "4"),
                ("e", true, none), ("f", false, none)]⟩ := by rfl
example : runForest true demo [some "1", some "2", some "3"] [] = .error .multiChoice := by rfl
example : runForest true demo (List.replicate 7 (some "x")) [] = .error .multiChoice := by rfl
example : runForest true demo [some "1", none, none, none, none, none, some "7"] [] =
    .error (.positional 2 6 7) := by rfl
example : runForest true demo [some "1"] [("zz", some "1")] = .error (.unexpectedKw "zz") := by rfl
example : runForest true demo [some "1"] [("a", some "1")] = .error (.multipleValues "a") := by rfl

end Suds.Props.C08
