import SudsModel.ArgParser
namespace Suds.Props.C08
open Suds.ArgParser
example : True := trivial
end Suds.Props.C08
