import SudsModel.Loader
import SudsModel.Lemmas.DepSort
/-!
C12 — loading a document graph of any shape (cycles, self-imports, diamonds): what is fetched, how
often, and in which order the schemas are built. The traversal model is the memoised depth-first
walk whose invariants are proved in `Lemmas/DepSort.lean`.
-/
namespace Suds.Loader
open Suds.Xsd List

/-- `b` can be reached from `a` along references. -/
inductive Reach (g : Graph) : Nat → Nat → Prop
  | refl (a : Nat) : Reach g a a
  | step {a b c : Nat} {ds : List Nat} : g.deps a = some ds → b ∈ ds → Reach g b c → Reach g a c

theorem visitAll_reach {g : Graph} {f : Nat}
    (hv : ∀ s k x, x ∈ (visit g f s k).processed → x ∈ s.processed ∨ Reach g k x) :
    ∀ (ds : List Nat) (s : DS) (x : Nat), x ∈ (visitAll g f s ds).processed →
      x ∈ s.processed ∨ ∃ d, d ∈ ds ∧ Reach g d x := by
  intro ds
  induction ds with
  | nil => intro s x h; exact Or.inl h
  | cons a ds ih =>
    intro s x h
    simp only [visitAll, List.foldl_cons] at h
    rcases ih (visit g f s a) x h with h1 | ⟨d, hd, hr⟩
    · rcases hv s a x h1 with h2 | h2
      · exact Or.inl h2
      · exact Or.inr ⟨a, by simp, h2⟩
    · exact Or.inr ⟨d, List.mem_cons_of_mem _ hd, hr⟩

theorem visit_reach {g : Graph} : ∀ (f : Nat) (s : DS) (k x : Nat), x ∈ (visit g f s k).processed →
    x ∈ s.processed ∨ Reach g k x := by
  intro f
  induction f with
  | zero => intro s k x h; exact Or.inl (by simpa [visit] using h)
  | succ f ih =>
    intro s k x h
    unfold visit at h
    by_cases hp : k ∈ s.processed
    · simp only [hp, if_true] at h; exact Or.inl h
    · simp only [hp, if_false] at h
      cases hd : g.deps k with
      | none => simp only [hd] at h; exact Or.inl h
      | some ds =>
        simp only [hd] at h
        have h' : x ∈ (visitAll g f ⟨s.rsorted, k :: s.processed⟩ ds).processed := h
        rcases visitAll_reach (fun s k x => ih s k x) ds _ x h' with h1 | ⟨d, hdm, hr⟩
        · rcases List.mem_cons.mp h1 with e | e
          · exact Or.inr (by rw [e]; exact Reach.refl k)
          · exact Or.inl e
        · exact Or.inr (Reach.step hd hdm hr)

theorem inv0 (g : Graph) : InvA g ⟨[], []⟩ :=
  ⟨fun _ h => by simp at h, fun _ h => by simp at h, List.nodup_nil, List.nodup_nil⟩

theorem adq0 (g : Graph) : Adq g ⟨[], []⟩ (g.length + 1) := by simp [Adq, Graph.keys]

/-- **No Definitions document is fetched twice**, whatever the shape of the `wsdl:import` graph
(cycles, self-imports, diamonds), and only documents the graph knows are fetched. -/
theorem definitions_fetched_at_most_once (w : Web) (root : Nat) :
    (wsdlFetches w root).Nodup ∧ ∀ d, d ∈ wsdlFetches w root → d ∈ w.wsdl.keys := by
  have hs := visit_step (w.wsdl.length + 1) ⟨[], []⟩ root (inv0 w.wsdl) (adq0 w.wsdl)
  refine ⟨by simpa [wsdlFetches] using (List.reverse_perm _).symm.nodup hs.inv.ndp, ?_⟩
  intro d hd
  exact hs.inv.keys d (by simpa [wsdlFetches] using hd)

/-- **Within one schema build no schema document is fetched twice** (`loaded_schemata`). -/
theorem schema_build_fetches_at_most_once (w : Web) (d : Nat) :
    (passFetches w d).Nodup ∧ ∀ x, x ∈ passFetches w d → x ∈ w.xsd.keys := by
  have hs := visitAll_step (fun s k => visit_step (w.xsd.length + 1) s k) (passRoots w d) ⟨[], []⟩
    (inv0 w.xsd) (adq0 w.xsd)
  refine ⟨by simpa [passFetches] using (List.reverse_perm _).symm.nodup hs.inv.ndp, ?_⟩
  intro x hx
  exact hs.inv.keys x (by simpa [passFetches] using hx)

/-- **Only reachable documents are fetched.** -/
theorem only_reachable_definitions (w : Web) (root x : Nat) (h : x ∈ wsdlFetches w root) :
    Reach w.wsdl root x := by
  have := visit_reach (w.wsdl.length + 1) ⟨[], []⟩ root x (by simpa [wsdlFetches] using h)
  rcases this with h | h
  · simp at h
  · exact h

theorem only_reachable_schemas (w : Web) (d x : Nat) (h : x ∈ passFetches w d) :
    ∃ r, r ∈ passRoots w d ∧ Reach w.xsd r x := by
  have := visitAll_reach (fun s k x => visit_reach (w.xsd.length + 1) s k x) (passRoots w d) ⟨[], []⟩ x
    (by simpa [passFetches] using h)
  rcases this with h | h
  · simp at h
  · exact h

/-- **Every fetched Definitions builds its schema exactly once**: the build order is a permutation
of the fetched documents — the traversal finishes everything it starts, also on cyclic graphs. -/
theorem every_definitions_builds_once (w : Web) (root : Nat) :
    (buildOrder w root).Perm (wsdlFetches w root) := by
  have hs := visit_step (w.wsdl.length + 1) ⟨[], []⟩ root (inv0 w.wsdl) (adq0 w.wsdl)
  have hmem : ∀ x, x ∈ buildOrder w root ↔ x ∈ wsdlFetches w root := by
    intro x
    simp only [buildOrder, wsdlFetches, List.mem_reverse]
    constructor
    · exact hs.inv.sub x
    · intro hx
      by_cases hin : x ∈ (visit w.wsdl (w.wsdl.length + 1) ⟨[], []⟩ root).rsorted
      · exact hin
      · have := (hs.stack x).mp ⟨hx, hin⟩
        simp at this
  exact (List.perm_ext_iff_of_nodup
    (by simpa [buildOrder] using (List.reverse_perm _).symm.nodup hs.inv.nds)
    (definitions_fetched_at_most_once w root).1).mpr hmem

/-- **Imported definitions are complete before the importer builds** (acyclic import graph): in
the build order every `wsdl:import` target that is a document stands before its importer. -/
theorem imports_build_first (w : Web) (root : Nat) (rank : Nat → Nat) (hr : Ranked w.wsdl rank)
    (pre post : List Nat) (x : Nat) (h : buildOrder w root = pre ++ x :: post)
    (ds : List Nat) (hd : w.wsdl.deps x = some ds) (d : Nat) (hdm : d ∈ ds) (hk : d ∈ w.wsdl.keys) : d ∈ pre := by
  have ho : ORev w.wsdl (visit w.wsdl (w.wsdl.length + 1) ⟨[], []⟩ root).rsorted :=
    visit_ordered hr _ _ root (inv0 w.wsdl) (adq0 w.wsdl) trivial (fun _ x hx => by simp at hx)
  have hrev : (visit w.wsdl (w.wsdl.length + 1) ⟨[], []⟩ root).rsorted = post.reverse ++ x :: pre.reverse := by
    have : (buildOrder w root).reverse = (pre ++ x :: post).reverse := by rw [h]
    simpa [buildOrder] using this
  rw [hrev] at ho
  have := (ORev.of_append _ _ ho).1 ds hd d hdm hk
  simpa using this

/-! Worked examples (documents: 0 root.wsdl, 1 interface.wsdl, 2 types.xsd, 3 common.xsd). -/

/-- a cycle of wsdl:imports and a self-import terminate with every document fetched once -/
example : wsdlFetches ⟨[(0, [1, 0]), (1, [0])], [], []⟩ 0 = [0, 1] := by decide

/-- a diamond inside one schema build fetches the shared document once -/
example : passFetches ⟨[(0, [])], [(2, [3]), (4, [3]), (3, [])],
    [(0, [⟨"urn:a", [⟨true, "urn:b", some 2⟩, ⟨true, "urn:c", some 4⟩]⟩])]⟩ 0 = [2, 3, 4] := by decide

/-- a diamond through two Definitions fetches the shared schema document once per schema build:
the memo of schema documents is per Definitions (observed on the real loader as repeated fetches) -/
theorem diamond_through_definitions_witness :
    allFetches ⟨[(0, [1]), (1, [])], [(3, [])],
      [(0, [⟨"urn:a", [⟨true, "urn:c", some 3⟩]⟩]), (1, [⟨"urn:b", [⟨true, "urn:c", some 3⟩]⟩])]⟩ 0 = [0, 1, 3, 3] := by
  decide

/-- an inline import of a namespace another inline node defines is not fetched (`Import.__locate`) -/
example : passRoots ⟨[(0, [])], [(2, [])],
    [(0, [⟨"urn:a", [⟨true, "urn:b", some 2⟩]⟩, ⟨"urn:b", []⟩])]⟩ 0 = [] := by decide

end Suds.Loader

namespace Suds.Loader

/-- A fetch that fails (transport error or ill-formed bytes) leaves the cache exactly as it was. -/
theorem failed_fetch_caches_nothing (c : DocCache) (u : Nat) (src : Nat → Outcome)
    (hm : cacheGet c u = none) (hf : ∀ d, src u ≠ .doc d) : openDoc c u src = (none, c) := by
  unfold openDoc
  rw [hm]
  cases h : src u with
  | unreachable => rfl
  | illFormed => rfl
  | doc d => exact absurd h (hf d)

theorem cacheGet_mem {c : DocCache} {u d : Nat} (h : cacheGet c u = some d) : (u, d) ∈ c := by
  unfold cacheGet at h
  cases hf : c.find? (·.1 == u) with
  | none => simp [hf] at h
  | some e =>
    simp [hf] at h
    have := List.find?_some hf
    have hm := List.mem_of_find?_eq_some hf
    have he : e.1 = u := by simpa using this
    cases e
    simp at he h
    subst he; subst h
    exact hm

theorem openDoc_faithful (c : DocCache) (u : Nat) (src : Nat → Outcome) (hc : Faithful c src) :
    Faithful (openDoc c u src).2 src := by
  unfold openDoc
  cases hg : cacheGet c u with
  | some d => exact hc
  | none =>
    cases hs : src u with
    | unreachable => exact hc
    | illFormed => exact hc
    | doc d =>
      intro u' d' hm
      simp only [List.mem_append, List.mem_singleton] at hm
      rcases hm with h | h
      · exact hc u' d' h
      · cases h; exact hs

/-- with a faithful cache, what `open` delivers depends on the source alone -/
theorem openDoc_fst (c : DocCache) (u : Nat) (src : Nat → Outcome) (hc : Faithful c src) :
    (openDoc c u src).1 = (match src u with | .doc d => some d | _ => none) := by
  unfold openDoc
  cases hg : cacheGet c u with
  | some d =>
    have := hc u d (cacheGet_mem hg)
    simp [this]
  | none => cases hs : src u <;> simp

theorem openAll_faithful (src : Nat → Outcome) : ∀ (us : List Nat) (c : DocCache), Faithful c src →
    Faithful (openAll c src us).2 src := by
  intro us
  induction us with
  | nil => intro c hc; exact hc
  | cons u rest ih =>
    intro c hc
    have h1 := openDoc_faithful c u src hc
    unfold openAll
    cases ho : openDoc c u src with
    | mk r c' =>
      rw [ho] at h1
      cases r with
      | none => exact h1
      | some d =>
        have h2 := ih c' h1
        simp only []
        cases hr : openAll c' src rest with
        | mk r2 c'' =>
          rw [hr] at h2
          cases r2 <;> exact h2

theorem openAll_fst (src : Nat → Outcome) : ∀ (us : List Nat) (c1 c2 : DocCache), Faithful c1 src → Faithful c2 src →
    (openAll c1 src us).1 = (openAll c2 src us).1 := by
  intro us
  induction us with
  | nil => intro c1 c2 _ _; rfl
  | cons u rest ih =>
    intro c1 c2 h1 h2
    have e1 := openDoc_fst c1 u src h1
    have e2 := openDoc_fst c2 u src h2
    have f1 := openDoc_faithful c1 u src h1
    have f2 := openDoc_faithful c2 u src h2
    unfold openAll
    cases ho1 : openDoc c1 u src with
    | mk r1 c1' =>
      cases ho2 : openDoc c2 u src with
      | mk r2 c2' =>
        rw [ho1] at e1 f1
        rw [ho2] at e2 f2
        simp only [] at e1 e2
        have er : r1 = r2 := by rw [e1, e2]
        subst er
        cases r1 with
        | none => rfl
        | some d =>
          have := ih c1' c2' f1 f2
          simp only []
          cases hr1 : openAll c1' src rest with
          | mk a1 b1 =>
            cases hr2 : openAll c2' src rest with
            | mk a2 b2 =>
              rw [hr1, hr2] at this
              simp only [] at this
              subst this
              cases a1 <;> rfl

/-- **All or nothing, and a retry is as good as a first load.** Let a load fail part-way because
some fetches fail (`srcF` answers like the healthy source `srcH` or fails). Whatever the cache
held before (faithfully), afterwards it still holds only complete, correct documents, and a retry
against the healthy source delivers exactly the documents a clean first load delivers. -/
theorem failed_load_then_retry (srcF srcH : Nat → Outcome) (us : List Nat) (c : DocCache)
    (hc : Faithful c srcH) (hw : ∀ u d, srcF u = .doc d → srcH u = .doc d) :
    Faithful (openAll c srcF us).2 srcH ∧
    (openAll (openAll c srcF us).2 srcH us).1 = (openAll [] srcH us).1 := by
  have hcF : Faithful c srcF → Faithful (openAll c srcF us).2 srcF := openAll_faithful srcF us c
  -- entries are faithful to the healthy source throughout: prove it directly
  have key : ∀ (us : List Nat) (c : DocCache), Faithful c srcH → Faithful (openAll c srcF us).2 srcH := by
    intro us
    induction us with
    | nil => intro c hc; exact hc
    | cons u rest ih =>
      intro c hc
      unfold openAll
      have hstep : Faithful (openDoc c u srcF).2 srcH := by
        unfold openDoc
        cases hg : cacheGet c u with
        | some d => exact hc
        | none =>
          cases hs : srcF u with
          | unreachable => exact hc
          | illFormed => exact hc
          | doc d =>
            intro u' d' hm
            simp only [List.mem_append, List.mem_singleton] at hm
            rcases hm with h | h
            · exact hc u' d' h
            · cases h; exact hw u d hs
      cases ho : openDoc c u srcF with
      | mk r c' =>
        rw [ho] at hstep
        cases r with
        | none => exact hstep
        | some d =>
          have h2 := ih c' hstep
          simp only []
          cases hr : openAll c' srcF rest with
          | mk r2 c'' =>
            rw [hr] at h2
            cases r2 <;> exact h2
  refine ⟨key us c hc, ?_⟩
  exact openAll_fst srcH us _ [] (key us c hc) (fun _ _ h => by simp at h)

/-- Non-vacuity: the second of three fetches fails; the cache keeps the first document only and the
retry delivers all three. -/
example :
    let srcH : Nat → Outcome := fun u => .doc (u + 10)
    let srcF : Nat → Outcome := fun u => if u = 2 then .illFormed else .doc (u + 10)
    openAll [] srcF [1, 2, 3] = (none, [(1, 11)]) ∧
    (openAll [(1, 11)] srcH [1, 2, 3]).1 = some [11, 12, 13] := by decide

end Suds.Loader
