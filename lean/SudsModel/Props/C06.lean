import SudsModel.Lemmas.Builtin2
import SudsModel.Lemmas.DateTime
/-!
# C06 — XSD built-in values convert exactly and stay lexically valid

Model: `SudsModel/Xsd/Builtin.lean`. Lemmas: `SudsModel/Lemmas/Builtin0..2.lean`.
Python's `int()/str()/float()/repr()/Decimal()`, `datetime` construction and `isoformat` are runtime
(trusted; the model's versions - `isoDate`, `isoTime`, `isoDateTime` - are checked by the correspondence).
-/
namespace Suds.Props.C06
open Suds.Xsd Suds.Gen

/-! ### boolean (over the generated tables) -/

theorem bool_roundtrip (b : Bool) : (boolToXml b).bind boolToPython = some b := Suds.Xsd.bool_roundtrip b

/-- Exactly the four XSD lexical forms decode, everything else to `None`. -/
theorem bool_lexicals (s : String) :
    boolToPython s = if s = "1" ∨ s = "true" then some true
                     else if s = "0" ∨ s = "false" then some false else none := Suds.Xsd.bool_lexicals s

theorem bool_sent_is_canonical (b : Bool) : boolToXml b = some (if b then "true" else "false") :=
  Suds.Xsd.bool_sent_is_canonical b

/-! ### the type-name table: every value-carrying XSD built-in has its translator -/

def lookupTag (n : String) : Option String := (builtinTags.find? (·.1 == n)).map (·.2)

theorem builtin_translators :
    lookupTag "boolean" = some "XBoolean" ∧ lookupTag "decimal" = some "XDecimal" ∧
    lookupTag "float" = some "XFloat" ∧ lookupTag "double" = some "XFloat" ∧
    lookupTag "date" = some "XDate" ∧ lookupTag "time" = some "XTime" ∧ lookupTag "dateTime" = some "XDateTime" ∧
    lookupTag "long" = some "XLong" ∧ lookupTag "unsignedLong" = some "XLong" ∧
    (∀ n ∈ ["int", "integer", "unsignedInt", "positiveInteger", "negativeInteger", "nonPositiveInteger",
            "nonNegativeInteger", "short", "unsignedShort", "byte", "unsignedByte"], lookupTag n = some "XInteger") ∧
    lookupTag "string" = some "XString" := by decide

/-! ### decimal: exact, never in exponent notation -/

/-- Exponent `k ≥ 0`: the digits followed by `k` zeros; value `digits × 10^k`. -/
theorem decimal_exact_nonneg (neg : Bool) (ds : List Nat) (k : Nat) (hds : ∀ d ∈ ds, d < 10) :
    decimalToXsd neg ds (k : Int) = (if neg then ['-'] else []) ++ (ds.map digitChar ++ List.replicate k '0')
    ∧ (∀ c ∈ ds.map digitChar ++ List.replicate k '0', isDigit c = true)
    ∧ natOf (ds.map digitChar ++ List.replicate k '0') = valOf ds * 10 ^ k := by
  refine ⟨?_, ?_, ?_⟩
  · have : (k : Int) ≥ 0 := by omega
    simp [decimalToXsd, this]
  · intro c hc
    rcases List.mem_append.mp hc with h | h
    · exact all_digit_map _ hds c h
    · rw [List.eq_of_mem_replicate h]; decide
  · rw [natOf_append, natOf_zeros, natOf_map_digitChar _ hds, List.length_replicate, Nat.add_zero]

/-- Exponent `-(k+1)`: the text is `[-]I[.F]`, digits only, and `I.F × 10^(k+1) = digits × 10^|F|`,
i.e. it denotes exactly `digits × 10^-(k+1)`; nothing is rounded. -/
theorem decimal_exact_neg (neg : Bool) (ds : List Nat) (k : Nat) (hds : ∀ d ∈ ds, d < 10) (hne : ds ≠ []) :
    ∃ I F : List Char,
      decimalToXsd neg ds (Int.negSucc k) = (if neg then ['-'] else []) ++ I ++ (if F = [] then [] else '.' :: F)
      ∧ I ≠ [] ∧ (∀ c ∈ I, isDigit c = true) ∧ (∀ c ∈ F, isDigit c = true)
      ∧ natOf (I ++ F) * 10 ^ (k + 1) = valOf ds * 10 ^ F.length :=
  Suds.Xsd.decimal_exact_neg neg ds k hds hne

/-! ### time of day: fractional seconds of any length are rounded half-up to the microsecond -/

theorem subsecond_half_up (ds : List Char) (hd : ∀ c ∈ ds, isDigit c = true) :
    (subMicro (some ds)).1 + (if (subMicro (some ds)).2 then 1 else 0) = halfUp ds :=
  Suds.Xsd.subsecond_half_up ds hd

/-- The carry of the extra microsecond never produces an impossible time. -/
theorem bump_valid (t : Time) (h : t.valid = true) : (bumpTime t).valid = true := bumpTime_valid t h

/-! ### timezone indicator -/

theorem tz_zero_is_utc (neg : Bool) (h : List Char) (m : Option (List Char))
    (hh : natOf h = 0) (hm : tzMinute m = 0) : tzFromMatch (.off neg h m) = .ok .utc :=
  Suds.Xsd.tz_zero_is_utc neg h m hh hm

theorem tz_ge24_rejected (neg : Bool) (h : List Char) (m : Option (List Char)) (hh : natOf h ≥ 24) :
    tzFromMatch (.off neg h m) = .error .value := Suds.Xsd.tz_ge24_rejected neg h m hh

theorem tz_offset_value (neg : Bool) (h : List Char) (m : Option (List Char)) (tz : Tz)
    (hok : tzFromMatch (.off neg h m) = .ok tz) :
    tz = .utc ∨ (0 < natOf h * 60 + tzMinute m ∧ natOf h < 24 ∧
      tz = .fixed (if neg then -((natOf h * 60 + tzMinute m : Nat) : Int) else ((natOf h * 60 + tzMinute m : Nat) : Int))) :=
  Suds.Xsd.tz_offset_value neg h m tz hok

/-! ### impossible dates and times are never produced (they raise instead) -/

theorem parseDate_valid (s : List Char) (d : Date) (h : parseDate s = .ok d) : d.valid = true :=
  Suds.Xsd.parseDate_valid s d h

theorem parseTime_valid (s : List Char) (t : Time) (tz : Tz) (h : parseTime s = .ok (t, tz)) : t.valid = true :=
  Suds.Xsd.parseTime_valid s t tz h

theorem parseDateTime_valid (s : List Char) (d : Date) (t : Time) (tz : Tz)
    (h : parseDateTime s = .ok (d, t, tz)) : d.valid = true ∧ t.valid = true :=
  Suds.Xsd.parseDateTime_valid s d t tz h

/-! ### witnesses of the known findings on the model -/

/-- D13: the XSD 1.0 lexical form `24:00:00` is rejected (loudly). -/
theorem hour24_rejected : parseDateTime "2000-01-01T24:00:00".toList = .error .value := by decide

/-- D20: a date with an impossible timezone indicator still yields the date. -/
theorem date_tz_not_validated : parseDate "2000-01-01+99:00".toList = .ok ⟨2000, 1, 1⟩ := by decide

/-! ### what is sent reads back as the same value -/

/-- **xsd:date round trip**: the text `date.isoformat()` produces (model `isoDate`: zero-padded
`YYYY-MM-DD`) is parsed back to the same date, for every valid date (years 1..9999). -/
theorem date_roundtrip (d : Date) (hv : d.valid = true) : parseDate (isoDate d) = .ok d :=
  Suds.Xsd.date_roundtrip d hv

/-- **xsd:time round trip**: every valid time of day (microseconds included or absent) with no
timezone, UTC, or any fixed offset below 24 hours reads back as itself; an offset of zero minutes
denotes UTC (`normTz`). -/
theorem time_roundtrip (t : Time) (tz : Tz) (hv : t.valid = true) (htz : TzOK tz) :
    parseTime (isoTime t tz) = .ok (t, normTz tz) :=
  Suds.Xsd.time_roundtrip t tz hv htz

/-- **xsd:dateTime round trip**: every valid date, time of day and timezone. -/
theorem datetime_roundtrip (d : Date) (t : Time) (tz : Tz) (hd : d.valid = true) (ht : t.valid = true)
    (htz : TzOK tz) : parseDateTime (isoDateTime d t tz) = .ok (d, t, normTz tz) :=
  Suds.Xsd.datetime_roundtrip d t tz hd ht htz

/-- **What is accepted as a date has the XSD shape** `digits - d{1,2} - d{1,2} rest`: the scanner's
match is literally a prefix of the text. -/
theorem accepted_date_shape (s : List Char) (dm : DateM) (rest : List Char) (h : scanDate s = some (dm, rest)) :
    s = dm.year ++ '-' :: (dm.month ++ '-' :: (dm.day ++ rest)) ∧ dm.year ≠ [] ∧
    (∀ c ∈ dm.year, isDigit c = true) ∧ (∀ c ∈ dm.month, isDigit c = true) ∧ (∀ c ∈ dm.day, isDigit c = true) ∧
    (dm.month.length = 1 ∨ dm.month.length = 2) ∧ (dm.day.length = 1 ∨ dm.day.length = 2) :=
  scanDate_shape s dm rest h

/-- A text without a '-' is no date: `20131119`, `2013W472` and the like are rejected as malformed. -/
theorem parseDate_needs_dashes (s : List Char) (h : '-' ∉ s) : parseDate s = .error .format := by
  unfold parseDate
  split
  · rename_i dm rest hs
    have := (scanDate_shape s dm rest hs).1
    exfalso; apply h; rw [this]; simp
  · rfl

theorem parseDateTime_needs_dashes (s : List Char) (h : '-' ∉ s) : parseDateTime s = .error .format := by
  unfold parseDateTime
  split
  · rename_i dm c rest hs
    have := (scanDate_shape s dm _ hs).1
    exfalso; apply h; rw [this]; simp
  · rfl

example : parseDate "20131119".toList = .error .format := parseDate_needs_dashes _ (by decide)

/-- The digits written for a number denote it, whatever the padding. -/
theorem padded_digits_denote (n w : Nat) : natOf (pad n w) = n ∧ ∀ c ∈ pad n w, isDigit c = true :=
  ⟨natOf_pad n w, digits_pad n w⟩

/-- the hypotheses are satisfiable (a leap day, the last microsecond, a negative half-hour offset) -/
example : (⟨2000, 2, 29⟩ : Date).valid = true ∧ (⟨23, 59, 59, 999999⟩ : Time).valid = true ∧ TzOK (.fixed (-330)) := by
  refine ⟨by decide, by decide, ?_⟩
  simp [TzOK]

/-! ### Non-vacuity / samples -/

example : parseDateTime "1999-12-31T23:59:59.9999995Z".toList = .ok (⟨2000, 1, 1⟩, ⟨0, 0, 0, 0⟩, .utc) := by decide
example : parseDateTime "2000-02-28 23:59:59.99999949-05:30".toList
    = .ok (⟨2000, 2, 28⟩, ⟨23, 59, 59, 999999⟩, .fixed (-330)) := by decide
example : parseDateTime "9999-12-31T23:59:59.9999995".toList = .error .overflow := by decide
example : parseTime "23:59:59.9999995+01:00".toList = .ok (⟨0, 0, 0, 0⟩, .fixed 60) := by decide
example : parseDate "2001-02-29".toList = .error .value := by decide
example : parseDate "2000-2-29Z".toList = .ok ⟨2000, 2, 29⟩ := by decide
example : decimalToXsd true [1, 2, 3, 0, 0] (-7) = "-0.00123".toList := by decide
example : decimalToXsd false [1, 2, 3, 0, 0] (-2) = "123".toList := by decide
example : decimalToXsd false [1, 2] 3 = "12000".toList := by decide
example : halfUp "1234565".toList = 123457 ∧ halfUp "1234564999".toList = 123456 := by decide
example : isoDateTime ⟨5, 1, 2⟩ ⟨1, 2, 3, 40⟩ (.fixed (-90)) = "0005-01-02T01:02:03.000040-01:30".toList := by decide

end Suds.Props.C06
