import SudsModel.Headers
/-!
# C17 — SOAP headers and security tokens are sent as configured, every time
Model: `SudsModel/Headers.lean` (which entries the Header gets, in which order). What each entry
looks like on the wire (marshalling, token rendering, dateTime forms) is checked on the
implementation by the harness (and rests on C01/C06).
-/
namespace Suds.Props.C17
open Suds.Headers

/-- Exactly one Security element, first, iff a WS-Security object is configured. -/
theorem wsse_one_security_element (parts : List String) (h : HVal) :
    (headerContent parts true h).head? = some .security ∧
    (headerContent parts true h).tail = headerContent parts false h ∧
    Entry.security ∉ headerContent parts false h := by
  refine ⟨by simp [headerContent], by simp [headerContent], ?_⟩
  have hs : ∀ n items, Entry.security ∉ seqEntries parts.length n items := by
    intro n items
    induction items generalizing n with
    | nil => simp [seqEntries]
    | cons it rest ih =>
      cases it with
      | elem i => simp [seqEntries, ih]
      | value v => simp only [seqEntries]; split <;> simp [ih]
  have hd : ∀ kv n ps, Entry.security ∉ dictEntries kv n ps := by
    intro kv n ps
    induction ps generalizing n with
    | nil => simp [dictEntries]
    | cons p ps ih => simp only [dictEntries]; split <;> simp [ih]
  cases h <;> simp [headerContent, hs, hd]

/-- Ready-made elements are included verbatim, all of them, in order — as long as no plain value
is left without a declared part. -/
theorem elements_verbatim_in_order (nparts : Nat) (items : List Item) (n : Nat)
    (hfit : n + (items.filter (fun i => match i with | .value _ => true | _ => false)).length ≤ nparts) :
    (seqEntries nparts n items).filterMap (fun e => match e with | .copy i => some i | _ => none)
      = items.filterMap (fun i => match i with | .elem i => some i | _ => none) := by
  induction items generalizing n with
  | nil => simp [seqEntries]
  | cons it rest ih =>
    cases it with
    | elem i =>
      simp only [seqEntries, List.filterMap_cons]
      rw [ih n (by simpa using hfit)]
    | value v =>
      have hlt : nparts ≠ n := by simp at hfit; omega
      simp only [seqEntries, hlt, if_false, List.filterMap_cons]
      rw [ih (n + 1) (by simp at hfit; omega)]

/-- Plain values of a sequence are matched to the declared parts positionally; surplus values are
dropped. -/
theorem values_positional (nparts : Nat) (vs : List String) (n : Nat) (hn : n ≤ nparts) :
    seqEntries nparts n (vs.map .value) =
      ((vs.take (nparts - n)).zipIdx n).map (fun (v, i) => Entry.part i v) := by
  induction vs generalizing n with
  | nil => simp [seqEntries]
  | cons v vs ih =>
    simp only [List.map_cons, seqEntries]
    by_cases h : nparts = n
    · subst h; simp
    · have : nparts - n = (nparts - (n + 1)) + 1 := by omega
      rw [if_neg h, ih (n + 1) (by omega), this]
      simp [List.zipIdx_cons]

/-- A dict is read in the declared order of the parts; parts without a value are omitted; every
entry is qualified by (the index of) its own part. -/
theorem dict_declared_order (kv : List (String × String)) (parts : List String) (n : Nat) :
    dictEntries kv n parts =
      (parts.zipIdx n).filterMap (fun (p, i) => (lookupKV p kv).map (Entry.part i)) := by
  induction parts generalizing n with
  | nil => simp [dictEntries]
  | cons p ps ih =>
    simp only [dictEntries, List.zipIdx_cons, List.filterMap_cons]
    cases lookupKV p kv <;> simp [ih]

/-- A single value: the first declared part, or nothing when none is declared; a single Element is
copied regardless. -/
theorem scalar_shapes (parts : List String) (v : String) (i : Nat) :
    headerContent parts false (.scalar v) = (if parts.length = 0 then [] else [.part 0 v]) ∧
    headerContent parts false (.scalarElem i) = [.copy i] := by
  simp [headerContent, seqEntries]

/-- Empty containers add nothing. -/
theorem empty_adds_nothing (parts : List String) :
    headerContent parts false (.seq []) = [] ∧ headerContent parts false (.dict []) = [] := by
  simp [headerContent, seqEntries]

example : headerContent ["A", "B"] true (.seq [.elem 7, .value "x", .elem 8, .value "y", .value "z", .elem 9])
    = [.security, .copy 7, .part 0 "x", .copy 8, .part 1 "y"] := by decide
example : headerContent ["A", "B", "C"] false (.dict [("C", "3"), ("A", "1")]) = [.part 0 "1", .part 2 "3"] := by decide

end Suds.Props.C17
