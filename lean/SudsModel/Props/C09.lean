import SudsModel.Reply
/-!
# C09 — Every reply is classified by status and content exactly one way
-/
namespace Suds.Props.C09
open Suds.Reply Suds.Gen

/-- **The classification depends on the status only through its class** — for *every* status
(not the thirteen sampled ones), every body class and both options, the code's chain of tests
yields the documented table. Proved over the generated status sets. -/
theorem classification_table (s : Option Nat) (b : Body) (f r : Bool) :
    process s b f r = table (classOf s) b f r := by
  cases s with
  | none => cases b <;> cases f <;> cases r <;> decide
  | some s =>
    simp only [process, classOf, Option.getD_some, replyAcceptedStatuses, replyParsedStatuses]
    by_cases h202 : s = 202
    · subst h202; cases b <;> cases f <;> cases r <;> decide
    · by_cases h204 : s = 204
      · subst h204; cases b <;> cases f <;> cases r <;> decide
      · by_cases h200 : s = 200
        · subst h200; cases b <;> cases f <;> cases r <;> decide
        · by_cases h500 : s = 500
          · subst h500; cases b <;> cases f <;> cases r <;> decide
          · have e1 : ([202, 204].contains s) = false := by simp [h202, h204]
            have e2 : ([200, 500].contains s) = false := by simp [h200, h500]
            simp [e1, e2, h202, h204, h200, h500, table]

/-- A SOAP fault is never handed back as an ordinary value, whatever the status and options. -/
theorem fault_never_returned_as_value (s : Option Nat) (b : Body) (f r : Bool) (hb : b.isFault = true) :
    process s b f r ≠ .retValue ∧ process s b f r ≠ .retRaw ∧ (∀ v, process s b f r ≠ .retPair200 v) := by
  rw [classification_table]
  cases b <;> simp [Body.isFault] at hb <;>
    (cases h : classOf s <;> cases f <;> cases r <;> simp [table, Body.isFault])

/-- With `faults` enabled nothing but a decoded value, raw bytes or `None` is ever *returned*. -/
theorem faults_on_returns_only_values (s : Option Nat) (b : Body) (r : Bool) :
    process s b true r ∈ [.retNone, .retValue, .retRaw, .raiseWebFault, .raiseParse, .raiseDecode]
      ∨ ∃ c, process s b true r = .raiseHttp c := by
  rw [classification_table]
  cases h : classOf s <;> cases b <;> cases r <;> simp [table, Body.isFault]

/-- 202 and 204 yield `None` regardless of everything else. -/
theorem accepted_is_none (b : Body) (f r : Bool) :
    process (some 202) b f r = .retNone ∧ process (some 204) b f r = .retNone := by
  cases b <;> cases f <;> cases r <;> decide

example : process (some 201) .normal true false = .raiseHttp 201 := by decide
example : process none .fault12 false true = .retPair500Fault := by decide
example : process (some 500) .normal false false = .retPairHttp 500 := by decide
example : process (some 200) .nonSoap true false = .raiseDecode := by decide

end Suds.Props.C09
