import SudsModel.Gen.Tables
/-!
Model of `suds/xsd/sxbuiltin.py` (`XBoolean`, `XDecimal._decimal_to_xsd_format`) and
`suds/sax/date.py` (the three regular expressions as a deterministic scanner, `_date_from_match`,
`_time_from_match`, `_tzinfo_from_match`, `_bump_up_time_by_microsecond`, the `+1 microsecond`
carry of `DateTime`, and `isoformat`). No Mathlib import.
-/
namespace Suds.Xsd
open Suds.Gen

/-! ### boolean -/

def boolToPython (s : String) : Option Bool := (boolXmlToPython.find? (·.1 == s)).map (·.2)
def boolToXml (b : Bool) : Option String := (boolPythonToXml.find? (·.1 == b)).map (·.2)

/-! ### decimal -/

def digitChar (d : Nat) : Char := Char.ofNat (48 + d)

/-- `XDecimal._decimal_to_xsd_format` on `Decimal.as_tuple()` = (negative, digits, exponent). -/
def stripFrac : Nat → Nat → List Nat → Nat × Nat
  -- (digit_count, fractional_digit_count) after the `while` loop
  | dc, 0, _ => (dc, 0)
  | 0, fc, _ => (0, fc)
  | dc + 1, fc + 1, digits =>
    if digits.getD dc 0 = 0 then stripFrac dc fc digits else (dc + 1, fc + 1)

def decimalToXsd (neg : Bool) (digits : List Nat) (exp : Int) : List Char :=
  let sign := if neg then ['-'] else []
  if exp ≥ 0 then
    sign ++ digits.map digitChar ++ List.replicate exp.toNat '0'
  else
    let digitCount := digits.length
    let pointOffset : Int := digitCount + exp
    let fracCount := min digitCount (-exp).toNat
    let dc := (stripFrac digitCount fracCount digits).1
    if pointOffset ≤ 0 then
      sign ++ ['0'] ++
        (if dc > 0 then ['.'] ++ List.replicate (-pointOffset).toNat '0' ++ (digits.take dc).map digitChar else [])
    else
      let po := pointOffset.toNat
      sign ++ (digits.take po).map digitChar ++
        (if po < dc then ['.'] ++ ((digits.take dc).drop po).map digitChar else [])

/-! ### dates and times -/

def isDigit (c : Char) : Bool := '0' ≤ c && c ≤ '9'
def dval (c : Char) : Nat := c.toNat - 48
def natOf (cs : List Char) : Nat := cs.foldl (fun a c => a * 10 + dval c) 0

/-- Longest prefix of ASCII digits and the rest. -/
def spanDigits : List Char → List Char × List Char
  | [] => ([], [])
  | c :: r => if isDigit c then let p := spanDigits r; (c :: p.1, p.2) else ([], c :: r)

/-- `\d{1,2}` followed by a non-digit: one or two digits. -/
def take12 (s : List Char) : Option (List Char × List Char) :=
  let p := spanDigits s
  if p.1.length = 1 ∨ p.1.length = 2 then some p else none

/-- `[0-5]?[0-9]` followed by a non-digit. -/
def take059 (s : List Char) : Option (List Char × List Char) :=
  let p := spanDigits s
  match p.1 with
  | [_] => some p
  | [a, _] => if a ≤ '5' then some p else none
  | _ => none

structure DateM where
  year : List Char
  month : List Char
  day : List Char
  deriving Repr, DecidableEq

structure TimeM where
  hour : List Char
  minute : List Char
  second : List Char
  sub : Option (List Char)
  deriving Repr, DecidableEq

inductive ZoneM where
  | none
  | utc
  | off (neg : Bool) (hour : List Char) (minute : Option (List Char))
  deriving Repr, DecidableEq

/-- `(?P<year>\d{1,})-(?P<month>\d{1,2})-(?P<day>\d{1,2})` -/
def scanDate (s : List Char) : Option (DateM × List Char) :=
  let y := spanDigits s
  if y.1.isEmpty then none else
  match y.2 with
  | '-' :: r1 =>
    match take12 r1 with
    | some (m, '-' :: r2) =>
      match take12 r2 with
      | some (d, r3) => some (⟨y.1, m, d⟩, r3)
      | none => none
    | _ => none
  | _ => none

/-- `(?P<hour>\d{1,2}):(?P<minute>[0-5]?[0-9]):(?P<second>[0-5]?[0-9])(?:\.(?P<subsecond>\d+))?` -/
def scanTime (s : List Char) : Option (TimeM × List Char) :=
  match take12 s with
  | some (h, ':' :: r1) =>
    match take059 r1 with
    | some (mi, ':' :: r2) =>
      match take059 r2 with
      | some (se, r3) =>
        match r3 with
        | '.' :: r4 =>
          let f := spanDigits r4
          if f.1.isEmpty then none else some (⟨h, mi, se, some f.1⟩, f.2)
        | _ => some (⟨h, mi, se, none⟩, r3)
      | none => none
    | _ => none
  | _ => none

/-- `(?:(?:[-+]\d{1,2}(?::[0-5]?[0-9])?)|[Zz])?$` — `$` also matches before one final newline. -/
def atEnd (s : List Char) : Bool := s == [] || s == ['\n']

def scanZone (s : List Char) : Option ZoneM :=
  if atEnd s then some .none else
  match s with
  | c :: r =>
    if c = 'Z' ∨ c = 'z' then (if atEnd r then some .utc else none)
    else if c = '+' ∨ c = '-' then
      match take12 r with
      | some (h, r1) =>
        if atEnd r1 then some (.off (c = '-') h none)
        else match r1 with
          | ':' :: r2 =>
            match take059 r2 with
            | some (m, r3) => if atEnd r3 then some (.off (c = '-') h (some m)) else none
            | none => none
          | _ => none
      | none => none
    else none
  | [] => none

inductive PErr where
  | format      -- ValueError("date data has invalid format")
  | value       -- ValueError raised by datetime.date / datetime.time / tz check
  | overflow    -- OverflowError (dateTime + 1 microsecond beyond 9999-12-31)
  deriving Repr, DecidableEq

def isLeap (y : Nat) : Bool := y % 4 = 0 && (y % 100 ≠ 0 || y % 400 = 0)

def daysIn (y m : Nat) : Nat :=
  if m = 2 then (if isLeap y then 29 else 28)
  else if m = 4 ∨ m = 6 ∨ m = 9 ∨ m = 11 then 30 else 31

structure Date where
  y : Nat
  m : Nat
  d : Nat
  deriving Repr, DecidableEq

/-- `datetime.date(y, m, d)` validity. -/
def Date.valid (x : Date) : Bool :=
  1 ≤ x.y && x.y ≤ 9999 && 1 ≤ x.m && x.m ≤ 12 && 1 ≤ x.d && x.d ≤ daysIn x.y x.m

def dateFromMatch (m : DateM) : Except PErr Date :=
  let x : Date := ⟨natOf m.year, natOf m.month, natOf m.day⟩
  if x.valid then .ok x else .error .value

/-- tzinfo: none | UtcTimezone | FixedOffsetTimezone(minutes, signed) -/
inductive Tz where
  | naive
  | utc
  | fixed (minutes : Int)
  deriving Repr, DecidableEq

structure Time where
  h : Nat
  mi : Nat
  s : Nat
  us : Nat
  deriving Repr, DecidableEq

def Time.valid (t : Time) : Bool := t.h < 24 && t.mi < 60 && t.s < 60 && t.us < 1000000

/-- The sub-second part of `_time_from_match`: (microsecond, round_up). -/
def subMicro : Option (List Char) → Nat × Bool
  | some sub =>
    let six := sub.take 6
    (natOf (six ++ List.replicate (6 - six.length) '0'), sub.length > 6 && dval (sub.getD 6 '0') ≥ 5)
  | none => (0, false)

/-- `_time_from_match`: (time, round_up). -/
def timeFromMatch (m : TimeM) : Except PErr (Time × Bool) :=
  let p := subMicro m.sub
  let t : Time := ⟨natOf m.hour, natOf m.minute, natOf m.second, p.1⟩
  if t.valid then .ok (t, p.2) else .error .value

def tzMinute : Option (List Char) → Nat
  | some x => natOf x
  | none => 0

/-- `_tzinfo_from_match` -/
def tzFromMatch : ZoneM → Except PErr Tz
  | .none => .ok .naive
  | .utc => .ok .utc
  | .off neg h m =>
    let hh := natOf h
    let mm := tzMinute m
    if hh = 0 ∧ mm = 0 then .ok .utc
    else if hh ≥ 24 then .error .value
    else .ok (.fixed (if neg then -((hh * 60 + mm : Nat) : Int) else ((hh * 60 + mm : Nat) : Int)))

/-- `_bump_up_time_by_microsecond`: wraps around at midnight. -/
def bumpTime (t : Time) : Time :=
  if t.us + 1 < 1000000 then { t with us := t.us + 1 }
  else if t.s + 1 < 60 then { t with us := 0, s := t.s + 1 }
  else if t.mi + 1 < 60 then { t with us := 0, s := 0, mi := t.mi + 1 }
  else if t.h + 1 < 24 then { us := 0, s := 0, mi := 0, h := t.h + 1 }
  else ⟨0, 0, 0, 0⟩

def nextDay (d : Date) : Except PErr Date :=
  if d.d + 1 ≤ daysIn d.y d.m then .ok { d with d := d.d + 1 }
  else if d.m + 1 ≤ 12 then .ok { d with d := 1, m := d.m + 1 }
  else if d.y + 1 ≤ 9999 then .ok ⟨d.y + 1, 1, 1⟩
  else .error .overflow

def parseDate (s : List Char) : Except PErr Date :=
  match scanDate s with
  | some (dm, rest) =>
    match scanZone rest with
    | some _ => dateFromMatch dm      -- "Any timezone is parsed but ignored" (not even range-checked)
    | none => .error .format
  | none => .error .format

def parseTime (s : List Char) : Except PErr (Time × Tz) :=
  match scanTime s with
  | some (tm, rest) =>
    match scanZone rest with
    | some z => do
      let (t, up) ← timeFromMatch tm
      let tz ← tzFromMatch z
      pure (if up then bumpTime t else t, tz)
    | none => .error .format
  | none => .error .format

def parseDateTime (s : List Char) : Except PErr (Date × Time × Tz) :=
  match scanDate s with
  | some (dm, c :: rest) =>
    if c = 'T' ∨ c = ' ' then
      match scanTime rest with
      | some (tm, rest2) =>
        match scanZone rest2 with
        | some z => do
          let d ← dateFromMatch dm
          let (t, up) ← timeFromMatch tm
          let tz ← tzFromMatch z
          if up then
            let t' := bumpTime t
            if t' = ⟨0, 0, 0, 0⟩ then do
              let d' ← nextDay d
              pure (d', t', tz)
            else pure (d, t', tz)
          else pure (d, t, tz)
        | none => .error .format
      | none => .error .format
    else .error .format
  | _ => .error .format

/-! ### isoformat -/

def pad (n width : Nat) : List Char :=
  let ds := (Nat.toDigits 10 n)
  List.replicate (width - ds.length) '0' ++ ds

def isoDate (d : Date) : List Char := pad d.y 4 ++ ['-'] ++ pad d.m 2 ++ ['-'] ++ pad d.d 2

def isoTz : Tz → List Char
  | .naive => []
  | .utc => "+00:00".toList
  | .fixed m =>
    let a := m.natAbs
    (if m < 0 then ['-'] else ['+']) ++ pad (a / 60) 2 ++ [':'] ++ pad (a % 60) 2

def isoTimeOnly (t : Time) : List Char :=
  pad t.h 2 ++ [':'] ++ pad t.mi 2 ++ [':'] ++ pad t.s 2 ++
    (if t.us = 0 then [] else ['.'] ++ pad t.us 6)

def isoTime (t : Time) (tz : Tz) : List Char := isoTimeOnly t ++ isoTz tz

def isoDateTime (d : Date) (t : Time) (tz : Tz) : List Char :=
  isoDate d ++ ['T'] ++ isoTimeOnly t ++ isoTz tz

end Suds.Xsd
