import SudsModel.Xml.Prefix
/-!
Model of the schema-driven core shared by C01 (requests), C02 (replies) and C03 (factory objects):

* the *flattened content model* of a complex type (`sxbase.Iter` over `Extension.merge`d children):
  inherited members first;
* the literal marshaller's per-member decisions (`mx/literal.py: Typed.skip/node/encode`,
  `mx/appender.py`): what is skipped, what becomes `xsi:nil`, when `xsi:type` is written, which
  namespace an element gets;
* the unmarshaller's accumulation of children and its post-processing (`umx/core.py`);
* the object builder (`builder.py`).

Schema *documents* are not modelled here: the harness hands the model the abstract interface the
WSDL was rendered from (C07 checks that renderings of one interface behave alike). Lexical
translation of leaves is the C06 model; here a leaf is its lexical text. No Mathlib import.
-/
namespace Suds.Schema
open Suds.Xml

abbrev Key := Nat × String

def _root_.Suds.Xml.Info.kids : Info → List Info
  | .mk _ _ _ _ k => k
def _root_.Suds.Xml.Info.name : Info → String
  | .mk _ n _ _ _ => n

inductive TRef where
  | builtin (n : String)
  | complex (k : Key)
  | array (k : Key)          -- a SOAP section-5 array type (restriction of soapenc:Array)
  deriving Repr, DecidableEq

structure Member where
  name : String
  type : TRef
  min : Nat
  unbounded : Bool
  nillable : Bool
  qualified : Bool
  inChoice : Bool
  refNs : Option Nat := none     -- `ref=` to a global element of that namespace (always qualified)
  deriving Repr, DecidableEq

structure AttrDecl where
  name : String
  type : String
  required : Bool
  dflt : Option String
  deriving Repr, DecidableEq

structure TypeDef where
  key : Key
  base : Option Key
  own : List Member
  attrs : List AttrDecl
  deriving Repr

structure Env where
  uris : List String
  types : List TypeDef
  arrays : List (Key × TRef) := []     -- array type ↦ item type
  encoded : Bool := false              -- rpc/encoded: section-5 rules (`mx/encoded.py`)
  deriving Repr

def encUri : String := "http://schemas.xmlsoap.org/soap/encoding/"

def Env.itemType (env : Env) (k : Key) : Option TRef := (env.arrays.find? (·.1 == k)).map (·.2)

def Env.uri (env : Env) (ns : Nat) : String := env.uris.getD ns ""

def Env.find (env : Env) (k : Key) : Option TypeDef := env.types.find? (·.key == k)

/-- Flattened content model: the base type's members, then the type's own, each with the index
of the namespace it was declared in. `fuel` bounds the length of the extension chain. -/
def members (env : Env) : Nat → Key → List (Member × Nat)
  | 0, _ => []
  | f + 1, k =>
    match env.find k with
    | none => []
    | some t =>
      (match t.base with
        | some b => members env f b
        | none => []) ++ t.own.map (fun m => (m, t.key.1))

def attrsOf (env : Env) : Nat → Key → List AttrDecl
  | 0, _ => []
  | f + 1, k =>
    match env.find k with
    | none => []
    | some t =>
      (match t.base with
        | some b => attrsOf env f b
        | none => []) ++ t.attrs

/-- `t` is `k` or derived from it. -/
def derivesFrom (env : Env) : Nat → Key → Key → Bool
  | 0, _, _ => false
  | f + 1, t, k =>
    t == k || (match env.find t with
      | some td => (match td.base with | some b => derivesFrom env f b k | none => false)
      | none => false)

/-! ### values a caller passes -/

inductive Val where
  | none
  | leaf (text : String)
  | list (items : List Val)
  | obj (real : Option Key) (fields : List (String × Val))
  deriving Repr

def Val.skippable : Val → Bool
  | .none => true
  | .list [] => true
  | _ => false

def vlookup (k : String) : List (String × Val) → Option Val
  | [] => none
  | (k', v) :: rest => if k' == k then some v else vlookup k rest

def xsiNil : IAttr := ⟨some xsiUri, "nil", .lit "true"⟩
def xsiType (env : Env) (k : Key) : IAttr := ⟨some xsiUri, "type", .qname (env.uri k.1) k.2⟩

def Env.qnameOf (env : Env) : TRef → String × String
  | .builtin n => (xsdUri, n)
  | .complex k => (env.uri k.1, k.2)
  | .array k => (env.uri k.1, k.2)

/-- `Encoded.encode`: under section-5 rules every element names its type. -/
def encType (env : Env) (t : TRef) : List IAttr :=
  if env.encoded then [⟨some xsiUri, "type", .qname (env.qnameOf t).1 (env.qnameOf t).2⟩] else []

/-- The namespace a member's element is written in. -/
def memberNs (env : Env) (m : Member) (declNs : Nat) : Option String :=
  if m.qualified then some (env.uri (m.refNs.getD declNs)) else none

/-- `Typed.skip`: an optional (or choice-branch) member holding None or an empty list is left out. -/
def skipped (m : Member) (v : Val) : Bool := v.skippable && (m.min == 0 || m.inChoice)

def attrInfo (fields : List (String × Val)) (a : AttrDecl) : Option IAttr :=
  match vlookup ("_" ++ a.name) fields with
  | some (.leaf s) => some ⟨none, a.name, .lit s⟩
  | _ => none

/-- The elements written for a value given as the content of an element `name`. -/
def marshal (env : Env) : Nat → String → Option String → TRef → Bool → Val → List Info
  | 0, _, _, _, _, _ => []
  | f + 1, name, ns, t, nillable, v =>
    match v with
    | .none => [.mk ns name (encType env t ++ (if nillable then [xsiNil] else [])) none []]
    | .leaf s => [.mk ns name (encType env t) (some s) []]
    | .list items =>
      (match t with
      | .array k =>
        -- `Encoded.start/cast/end`: one element, typed items, arrayType = item type and length
        let it := (env.itemType k).getD (.builtin "anyType")
        [.mk ns name (encType env t ++ [⟨some encUri, "arrayType",
            .qname (env.qnameOf it).1 ((env.qnameOf it).2 ++ "[" ++ toString items.length ++ "]")⟩]) none
          (items.flatMap fun x => marshal env f "item" none it false x)]
      | _ => items.flatMap fun x => marshal env f name ns t nillable x)
    | .obj real fields =>
      match t with
      | .builtin _ => []
      | .array _ => []
      | .complex k =>
        let rk := real.getD k
        let ta := if rk == k && !env.encoded then [] else [xsiType env rk]
        let attrs := (attrsOf env (env.types.length + 1) rk).filterMap (attrInfo fields)
        let kids := (members env (env.types.length + 1) rk).flatMap fun md =>
          match vlookup md.1.name fields with
          | none => []
          | some x => if skipped md.1 x then [] else
              marshal env f md.1.name (memberNs env md.1 md.2) md.1.type md.1.nillable x
        [.mk ns name (ta ++ attrs) none kids]

inductive Style where
  | wrapped | bare | rpc
  deriving Repr, DecidableEq

structure Op where
  name : String
  style : Style
  ins : List Member
  outs : List Member
  deriving Repr

def rpcNs : String := "urn:rpc:body"

/-- `Binding.bodycontent`: the children of `<Body>`. -/
def request (env : Env) (fuel : Nat) (op : Op) (args : List (String × Val)) : List Info :=
  match op.style with
  | .wrapped =>
    [.mk (some (env.uri 0)) op.name [] none (op.ins.flatMap fun p =>
      match vlookup p.name args with
      | none => []
      | some x => if skipped p x then [] else marshal env fuel p.name (memberNs env p 0) p.type p.nillable x)]
  | .bare =>
    op.ins.flatMap fun p =>
      match vlookup p.name args with
      | none => []
      | some x => marshal env fuel (op.name ++ "_" ++ p.name) (some (env.uri 0)) p.type false x
  | .rpc =>
    [.mk (some rpcNs) op.name [] none (op.ins.flatMap fun p =>
      match vlookup p.name args with
      | none => []
      | some x => if x.skippable then [] else marshal env fuel p.name none p.type false x)]

/-! ### decoded values -/

inductive Py where
  | none
  | text (s : String) (ty : String)      -- leaf text to be translated as builtin `ty` ("" = untyped)
  | list (items : List Py)
  | obj (cls : String) (fields : List (String × Py))
  | err (what : String)
  deriving Repr

def plookup (k : String) : List (String × Py) → Option Py
  | [] => none
  | (k', v) :: rest => if k' == k then some v else plookup k rest

def pset (k : String) (v : Py) : List (String × Py) → List (String × Py)
  | [] => [(k, v)]
  | (k', v') :: rest => if k' == k then (k, v) :: rest else (k', v') :: pset k v rest

/-- `umx.core.reserved`: element and attribute names that are Python keywords get another key. -/
def pyKey (n : String) : String := if n == "class" then "cls" else if n == "def" then "dfn" else n

/-- One round of `Core.append_children`: file the decoded child `v` under `k`. -/
def accStep (acc : List (String × Py)) (k : String) (multi : Bool) (v : Py) : List (String × Py) :=
  match plookup k acc with
  | some (.list xs) => pset k (.list (xs ++ [v])) acc
  | some old => pset k (.list [old, v]) acc
  | none =>
    if multi then
      (match v with
        | .none => acc ++ [(k, .list [])]
        | _ => acc ++ [(k, .list [v])])
    else acc ++ [(k, v)]

def accumulate (xs : List (String × Bool × Py)) : List (String × Py) :=
  xs.foldl (fun acc x => accStep acc x.1 x.2.1 x.2.2) []

/-- `AttrList.skip`: attributes in these namespaces never reach the object. -/
def skipAttrNs (u : String) : Bool :=
  u == xsiUri || u == xsdUri || u == xmlUri || u == "http://schemas.xmlsoap.org/soap/envelope/" ||
  u == "http://schemas.xmlsoap.org/soap/encoding/" || u == "http://www.w3.org/2003/05/soap-envelope"

def isNil (attrs : List IAttr) : Bool :=
  attrs.any fun a => a.ns == some xsiUri && a.name == "nil" && (a.value == .lit "true" || a.value == .lit "1")

def typeAttr (attrs : List IAttr) : Option (String × String) :=
  (attrs.find? fun a => a.ns == some xsiUri && a.name == "type").bind fun a =>
    match a.value with
    | .qname u n => some (u, n)
    | .lit _ => none

def Env.nsIndex (env : Env) (u : String) : Option Nat :=
  let i := env.uris.findIdx (· == u)
  if i < env.uris.length then some i else none

def Env.trefOf (env : Env) (u n : String) : Option TRef :=
  if u == xsdUri then some (.builtin n) else
  match env.nsIndex u with
  | some i =>
    if (env.find (i, n)).isSome then some (.complex (i, n))
    else if (env.itemType (i, n)).isSome then some (.array (i, n)) else none
  | none => none

/-- the item type named by `soapenc:arrayType="q:T[n]"` -/
def arrayItem (env : Env) (attrs : List IAttr) : Option TRef :=
  (attrs.find? fun a => a.ns == some encUri && a.name == "arrayType").bind fun a =>
    match a.value with
    | .qname u n => env.trefOf u (String.ofList (n.toList.takeWhile (· != '[')))
    | .lit _ => none

/-- `Core.postprocess` for a node without mixed content. -/
def postprocess (cls : String) (data : List (String × Py)) (nil : Bool) (hasKids : Bool) (text : Option String)
    (nillable : Bool) (ty : String) : Py :=
  if !data.isEmpty then .obj cls data
  else if nil then .none
  else match text with
    | none => if hasKids then .obj cls data else if nillable then .none else .text "" ""
    | some s => .text s ty

/-- `Typed.process` of one node whose declared type is `t`. -/
def decode (env : Env) : Nat → TRef → Bool → Info → Py
  | 0, _, _, _ => .err "fuel"
  | f + 1, t, nillable, .mk _ name attrs text kids =>
    let real : TRef := match typeAttr attrs with
      | some (u, n) => (env.trefOf u n).getD t
      | none => t
    match real with
    | .builtin ty =>
      -- every builtin is treated as nillable (XBuiltin.nillable)
      postprocess name [] (isNil attrs) (!kids.isEmpty) text true ty
    | .array k =>
      -- `umx/encoded.py`: items take the array's item type unless they name their own; the list of
      -- items replaces the object (`promote`)
      if !(attrs.any fun a => a.ns == some encUri && a.name == "arrayType") then
        postprocess k.2 [] (isNil attrs) (!kids.isEmpty) text nillable ""
      else
      let it : TRef := (match arrayItem env attrs with
        | some t' => t'
        | none => (env.itemType k).getD (.builtin "anyType"))
      let data := kids.foldl (fun (acc : List (String × Py)) kid =>
        accStep acc kid.name true (decode env f it false kid)) []
      (match data.find? (fun kv => match kv.2 with | .list _ => true | _ => false) with
        | some kv => kv.2
        | none => .list [])
    | .complex k =>
      let fl := env.types.length + 1
      let adata : List (String × Py) := attrs.filterMap fun a =>
        if (match a.ns with | some u => skipAttrNs u | none => false) then none else
          let ty := ((attrsOf env fl k).find? (·.name == a.name)).map (·.type)
          let txt := match a.value with | .lit s => s | .qname _ n => n
          some ("_" ++ pyKey a.name, .text txt (ty.getD ""))
      let cdata := kids.foldl (fun (acc : List (String × Py)) kid =>
        match kid with
        | .mk _ kn _ _ _ =>
          match (members env fl k).find? (·.1.name == kn) with
          | none => acc ++ [(pyKey kn, .err "TypeNotFound")]
          | some md => accStep acc (pyKey kn) md.1.unbounded (decode env f md.1.type md.1.nillable kid)) adata
      postprocess k.2 cdata (isNil attrs) (!kids.isEmpty) text nillable ""

/-- `Binding.replycomposite`: file the decoded part `v` under `tag`. A slot holding None counts
as empty. -/
def compStep (acc : List (String × Py)) (tag : String) (multi : Bool) (v : Py) : List (String × Py) :=
  match plookup tag acc with
  | none | some .none => pset tag (if multi then .list [v] else v) acc
  | some (.list xs) => pset tag (.list (xs ++ [v])) acc
  | some old => pset tag (.list [old, v]) acc


/-- `Binding.get_reply` after the envelope has been located: `body` = the children of `<Body>`.
`unwrap`: the single document/literal part is a complex element whose content is the reply
(`Definitions.set_wrapped`). -/
def reply (env : Env) (fuel : Nat) (op : Op) (unwrap : Option Key) (body : List Info) : Py :=
  let fl := env.types.length + 1
  let nodes : List Info := match op.style, unwrap with
    | .bare, none => body
    | _, _ => (match body with | b :: _ => b.kids | [] => [])
  let rts : List Member := match op.style, unwrap with
    | .bare, some k => (members env fl k).map (·.1)
    | .bare, none => op.outs.map fun p => { p with name := op.name ++ "_" ++ p.name }
    | _, _ => op.outs
  let extra : Nat := match op.style, unwrap with
    | .bare, some k => (attrsOf env fl k).length
    | _, _ => 0
  let n := rts.length + extra
  if n == 0 then .none
  else if n == 1 then
    match rts with
    | rt :: _ =>
      if rt.unbounded then .list (nodes.map fun nd => decode env fuel rt.type false nd)
      else (match nodes with
        | nd :: _ => decode env fuel rt.type false nd
        | [] => .none)
    | [] => .none
  else
    .obj "reply" (nodes.foldl (fun acc nd =>
      match rts.find? (·.name == nd.name) with
      | none => acc ++ [(nd.name, .err "not mapped to message part")]
      | some rt => compStep acc nd.name rt.unbounded (decode env fuel rt.type false nd)) [])

/-! ### the object builder -/

/-- `Builder.add_attributes`: `_name` = the declared default. -/
def attrField (a : AttrDecl) : String × Py :=
  ("_" ++ a.name, match a.dflt with | some d => .text d a.type | none => .none)

/-- `Builder.process(data, member, history)`: the attributes it sets on `data`. `history` holds
the members on the path (by declaring namespace, name and type). -/
def skeletonMember (env : Env) : Nat → List (Member × Nat) → (Member × Nat) → List (String × Py)
  | 0, _, _ => []
  | f + 1, hist, md =>
    if hist.contains md then [] else
    let m := md.1
    if m.unbounded then [(m.name, .list [])] else
    match m.type with
    | .builtin _ => [(m.name, .none)]
    | .array _ => [(m.name, .none)]
    | .complex k =>
      let fl := env.types.length + 1
      let ms := members env fl k
      let as := attrsOf env fl k
      let adata : List (String × Py) := as.map attrField
      if ms.isEmpty && as.isEmpty then [(m.name, .none)] else
      let kids := (ms.filter (fun x => !x.1.inChoice)).flatMap fun x => skeletonMember env f (md :: hist) x
      [(m.name, if m.min == 0 then .none else .obj k.2 (adata ++ kids))]

/-- `Builder.build(type)` -/
def skeleton (env : Env) (fuel : Nat) (k : Key) : Py :=
  let fl := env.types.length + 1
  let adata : List (String × Py) := (attrsOf env fl k).map attrField
  .obj k.2 (adata ++ ((members env fl k).filter (fun x => !x.1.inChoice)).flatMap fun x => skeletonMember env fuel [] x)

end Suds.Schema
