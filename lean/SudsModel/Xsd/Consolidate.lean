/-!
Model of `SchemaCollection.add` (`suds/xsd/schema.py`): schema nodes with one target namespace are
consolidated under the first node — the later node's children are moved, local element
declarations that relied on a different `elementFormDefault` get that default written on them, and
only prefixes the first node does not bind are added to its prefix table. No Mathlib import.
-/
namespace Suds.Xsd

inductive Form where
  | qualified | unqualified
  deriving Repr, DecidableEq

/-- a local element declaration: its explicit `form` attribute, if any -/
structure LocalDecl where
  name : String
  explicit : Option Form
  deriving Repr, DecidableEq

/-- the form XSD assigns to a local element of a schema node with that default -/
def effectiveForm (blockDefault : Form) (e : LocalDecl) : Form := e.explicit.getD blockDefault

/-- `__keep_element_form`: what is written on a moved declaration -/
def stampForm (own target : Form) (e : LocalDecl) : LocalDecl :=
  if own = target then e else { e with explicit := some (e.explicit.getD own) }

abbrev PrefixTable := List (String × String)

def tlookup (p : String) : PrefixTable → Option String
  | [] => none
  | (q, u) :: rest => if q == p then some u else tlookup p rest

/-- `nsprefixes.setdefault` for every binding of the moved node -/
def mergePrefixes (existing : PrefixTable) : PrefixTable → PrefixTable
  | [] => existing
  | (p, u) :: rest =>
    match tlookup p existing with
    | some _ => mergePrefixes existing rest
    | none => mergePrefixes (existing ++ [(p, u)]) rest

structure SchemaNode where
  formDefault : Form
  prefixes : PrefixTable
  locals : List LocalDecl
  deriving Repr, DecidableEq

/-- the first node after `add(second)` -/
def consolidate (a b : SchemaNode) : SchemaNode :=
  { formDefault := a.formDefault,
    prefixes := mergePrefixes a.prefixes b.prefixes,
    locals := a.locals ++ b.locals.map (stampForm b.formDefault a.formDefault) }

end Suds.Xsd
