/-!
Model of `SchemaCollection.add` (`suds/xsd/schema.py`): schema nodes with one target namespace are
consolidated under the first node — the later node's children are moved, local element
declarations that relied on a different `elementFormDefault` get that default written on them, and
only prefixes not bound in the first node's scope (on the node or above it) are added to its prefix table. No Mathlib import.
-/
namespace Suds.Xsd

inductive Form where
  | qualified | unqualified
  deriving Repr, DecidableEq

/-- a local element declaration: its explicit `form` attribute, if any -/
structure LocalDecl where
  name : String
  explicit : Option Form
  deriving Repr, DecidableEq

/-- the form XSD assigns to a local element of a schema node with that default -/
def effectiveForm (blockDefault : Form) (e : LocalDecl) : Form := e.explicit.getD blockDefault

/-- `__keep_element_form`: what is written on a moved declaration -/
def stampForm (own target : Form) (e : LocalDecl) : LocalDecl :=
  if own = target then e else { e with explicit := some (e.explicit.getD own) }

abbrev PrefixTable := List (String × String)

def tlookup (p : String) : PrefixTable → Option String
  | [] => none
  | (q, u) :: rest => if q == p then some u else tlookup p rest

/-- `nsprefixes.setdefault` for every binding of the moved node -/
def mergePrefixes (existing : PrefixTable) : PrefixTable → PrefixTable
  | [] => existing
  | (p, u) :: rest =>
    match tlookup p existing with
    | some _ => mergePrefixes existing rest
    | none => mergePrefixes (existing ++ [(p, u)]) rest

structure SchemaNode where
  formDefault : Form
  prefixes : PrefixTable
  locals : List LocalDecl
  deriving Repr, DecidableEq

/-- the first node after `add(second)` -/
def consolidate (a b : SchemaNode) : SchemaNode :=
  { formDefault := a.formDefault,
    prefixes := mergePrefixes a.prefixes b.prefixes,
    locals := a.locals ++ b.locals.map (stampForm b.formDefault a.formDefault) }

/-- what a prefix means for the content of a node: its own table first, then what the node inherits -/
def scopeLookup (p : String) (own outer : PrefixTable) : Option String :=
  match tlookup p own with
  | some u => some u
  | none => tlookup p outer

/-- the hand-over when the first node stands below `outer` bindings (`resolvePrefix` looks up the
ancestors): only a prefix bound nowhere in the first node's scope is added -/
def mergePrefixesIn (outer existing : PrefixTable) : PrefixTable → PrefixTable
  | [] => existing
  | (p, u) :: rest =>
    match scopeLookup p existing outer with
    | some _ => mergePrefixesIn outer existing rest
    | none => mergePrefixesIn outer (existing ++ [(p, u)]) rest

/-- the first node, standing below `outer`, after `add(second)` -/
def consolidateIn (outer : PrefixTable) (a b : SchemaNode) : SchemaNode :=
  { formDefault := a.formDefault,
    prefixes := mergePrefixesIn outer a.prefixes b.prefixes,
    locals := a.locals ++ b.locals.map (stampForm b.formDefault a.formDefault) }

end Suds.Xsd
