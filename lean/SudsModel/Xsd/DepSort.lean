/-!
Model of `suds/xsd/depsort.py`: `dependency_sort` / `_sort_r`. A dependency tree is an
insertion-ordered dict, here an association list with distinct keys. No Mathlib import.
-/
namespace Suds.Xsd

abbrev Graph := List (Nat × List Nat)

def Graph.keys (g : Graph) : List Nat := g.map (·.1)

/-- `dependency_tree.get(k)` -/
def Graph.deps : Graph → Nat → Option (List Nat)
  | [], _ => none
  | (k', ds) :: g, k => if k' = k then some ds else Graph.deps g k

/-- `sorted` (kept reversed: newest first) and `processed`. -/
structure DS where
  rsorted : List Nat
  processed : List Nat
  deriving Repr, DecidableEq

/-- `_sort_r(sorted, processed, key, deps, tree)`; the fuel bounds the recursion depth, which never
exceeds the number of keys because every nested call marks a new key processed. -/
def visit (g : Graph) : Nat → DS → Nat → DS
  | 0, s, _ => s
  | f + 1, s, k =>
    if k ∈ s.processed then s else
    match g.deps k with
    | none => s
    | some ds =>
      let s1 := ds.foldl (fun acc d => visit g f acc d) ⟨s.rsorted, k :: s.processed⟩
      ⟨k :: s1.rsorted, s1.processed⟩

def visitAll (g : Graph) (f : Nat) (s : DS) (ds : List Nat) : DS :=
  ds.foldl (fun acc d => visit g f acc d) s

/-- `dependency_sort(tree)`: the keys in result order. -/
def depsort (g : Graph) : List Nat :=
  (visitAll g (g.length + 1) ⟨[], []⟩ g.keys).rsorted.reverse

end Suds.Xsd
