import SudsModel.Xml.Tree
/-!
Model of qualified-reference resolution in schema documents (`suds/xsd/__init__.py: qualify`,
`sxbase.SchemaObject.qualify`): a `type=` / `base=` / `ref=` value is read against the prefixes in
scope at the declaring node; an unprefixed value takes the default namespace in scope and, when the
document declares none, the schema's target namespace. No Mathlib import.
-/
namespace Suds.Xsd
open Suds.Xml

/-- (local name, namespace URI); `none` = the prefix cannot be resolved (the code raises). -/
def qualifyRef (ref : String) (ctx : Ctx) (tns : Option String) : Option (String × Option String) :=
  match (splitPrefix ref).1 with
  | some p => (resolvePrefix p ctx).map fun u => ((splitPrefix ref).2, some u)
  | none => some (ref, match defaultNs ctx with | some u => some u | none => tns)

end Suds.Xsd
