import SudsModel.Lemmas.ArgParser3
namespace Suds.ArgParser

theorem feed_eq_feedR (st : Frame × List Frame) (anc : List Anc) (c : Acc) (h : anc ≠ [] ∨ st.2 = []) :
    feed st anc c = feedR st anc c := by
  unfold feed
  cases anc with
  | nil =>
    rcases h with h | h
    · exact absurd rfl h
    · simp [feedR, reopen, h]
  | cons a as => simp

/-- The ancestry discipline under which `__update_context` is exercised on every parameter. -/
def FeedOK (ls : List Leaf) (st : Frame × List Frame) : Prop :=
  (∀ l ∈ ls, l.anc ≠ []) ∨ (st.2 = [] ∧ ∀ l ∈ ls, l.anc = [])

def contribOf (ls : List Leaf) (bs : List (Bool × Val)) : List (List Anc × Acc) :=
  List.zipWith (fun (l : Leaf) (b : Bool × Val) => (l.anc, leafAcc l.optional b.2.isSome)) ls bs

def deliveredOf (ls : List Leaf) (obs : List Bool) (bs : List (Bool × Val)) : List (String × Bool × Val) :=
  List.zipWith (fun (lo : Leaf × Bool) (b : Bool × Val) => (lo.1.name, lo.2, b.2)) (ls.zip obs) bs

def withArgsOf (names : List String) (bs : List (Bool × Val)) : List String :=
  ((names.zip bs).filter (fun nb => nb.2.1)).map (·.1)

theorem fold_step (ls : List Leaf) (st : St) (h : FeedOK ls st.frames) :
    let B := bind (ls.map (·.name)) st.args st.kwargs
    let cs := contribOf ls B.1
    ls.foldl step st =
      { frames := feedAll st.frames cs, args := B.2.1, kwargs := B.2.2,
        withArgs := st.withArgs ++ withArgsOf (ls.map (·.name)) B.1,
        delivered := st.delivered ++ deliveredOf ls (feedObs st.frames cs) B.1 } := by
  induction ls generalizing st with
  | nil => simp [bind, contribOf, feedAll, withArgsOf, deliveredOf]
  | cons l ls ih =>
    have hfe : feed st.frames l.anc (leafAcc l.optional (getParam l.name st.args st.kwargs).2.1.isSome)
        = feedR st.frames l.anc (leafAcc l.optional (getParam l.name st.args st.kwargs).2.1.isSome) := by
      apply feed_eq_feedR
      rcases h with h | h
      · exact Or.inl (h l (by simp))
      · exact Or.inr h.1
    have hok : FeedOK ls (step st l).frames := by
      rcases h with h | h
      · exact Or.inl (fun l' hl' => h l' (by simp [hl']))
      · right
        refine ⟨?_, fun l' hl' => h.2 l' (by simp [hl'])⟩
        have hl := h.2 l (by simp)
        simp only [step, hl, feed, List.isEmpty_nil, if_true]
        rw [h.1]; simp [addTop]
    have := ih (step st l) hok
    simp only [List.foldl_cons, this]
    simp only [step, hfe, List.map_cons, bind, contribOf, List.zipWith_cons_cons, feedAll, List.foldl_cons,
      feedObs, withArgsOf, deliveredOf, List.zip_cons_cons]
    congr 1
    · cases (getParam l.name st.args st.kwargs).1 <;> simp [List.filter_cons]
    · simp [List.append_assoc]

theorem bind_length (names : List String) (args : List Val) (kw : List (String × Val)) :
    (bind names args kw).1.length = names.length := by
  induction names generalizing args kw with
  | nil => simp [bind]
  | cons n ns ih => simp [bind, ih]

def isNode {α} : PT α → Bool
  | .node _ _ _ => true
  | .leaf _ => false

/-- Top-level shape the bindings produce: a wrapped operation (parameters inside containers)
or a bare one (parameters without ancestry). -/
def TopOK {α} (kids : List (PT α)) : Prop := (∀ k ∈ kids, isNode k = true) ∨ (∀ k ∈ kids, isNode k = false)

theorem flat_node_anc {α} (k : PT α) (hk : isNode k = true) : ∀ l ∈ k.flat, l.1 ≠ [] := by
  cases k with
  | leaf a => simp [isNode] at hk
  | node i c kids =>
    intro l hl
    simp only [PT.flat, List.mem_map] at hl
    obtain ⟨p, _, rfl⟩ := hl
    simp

theorem flat_leaf_anc {α} (k : PT α) (hk : isNode k = false) : ∀ l ∈ k.flat, l.1 = [] := by
  cases k with
  | leaf a => intro l hl; simp [PT.flat] at hl; simp [hl]
  | node i c kids => simp [isNode] at hk

theorem flatKids_mem {α} (kids : List (PT α)) (l) (h : l ∈ PT.flat.flatKids kids) : ∃ k ∈ kids, l ∈ k.flat := by
  induction kids with
  | nil => simp [PT.flat.flatKids] at h
  | cons k ks ih =>
    simp only [PT.flat.flatKids, List.mem_append] at h
    rcases h with h | h
    · exact ⟨k, by simp, h⟩
    · obtain ⟨k', hk', hl⟩ := ih h
      exact ⟨k', by simp [hk'], hl⟩

theorem feedOK_of_top (kids : List (PT PDef)) (h : TopOK kids) : FeedOK (leavesOf kids) (sentinel, []) := by
  rcases h with h | h
  · left
    intro l hl
    simp only [leavesOf, flatForest, List.mem_map] at hl
    obtain ⟨p, hp, rfl⟩ := hl
    obtain ⟨k, hk, hpk⟩ := flatKids_mem kids p hp
    exact flat_node_anc k (h k hk) p hpk
  · right
    refine ⟨rfl, ?_⟩
    intro l hl
    simp only [leavesOf, flatForest, List.mem_map] at hl
    obtain ⟨p, hp, rfl⟩ := hl
    obtain ⟨k, hk, hpk⟩ := flatKids_mem kids p hp
    exact flat_leaf_anc k (h k hk) p hpk

theorem delivered_eq (lv : List (List Anc × PDef)) (bs : List (Bool × Val)) :
    deliveredOf (lv.map fun l => (⟨l.2.1, l.2.2, l.1⟩ : Leaf))
      ((List.zipWith (fun (l : List Anc × PDef) (v : Bool × Val) => (l.1, ((l.2.2, v.2.isSome) : Bool × Bool))) lv bs).map
        fun l => inChoiceOf l.1) bs
    = (lv.zip bs).map fun x => (x.1.2.1, inChoiceOf x.1.1, x.2.2) := by
  induction lv generalizing bs with
  | nil => simp [deliveredOf]
  | cons l lv ih =>
    cases bs with
    | nil => simp [deliveredOf]
    | cons b bs =>
      have := ih bs
      simp only [deliveredOf, List.map_zipWith] at this
      simp [deliveredOf, List.map_zipWith, this]

/-- **The frame-stack parser computes the recursive rule** — for every parameter forest (any
shape, any depth), every argument vector and both settings of the flag. -/
theorem run_eq_spec (strict : Bool) (kids : List (PT PDef)) (args : List Val) (kwargs : List (String × Val))
    (hwf : PT.wf.wfKids kids) (htop : TopOK kids) :
    runForest strict kids args kwargs = spec strict kids args kwargs := by
  unfold runForest run spec
  dsimp only
  have hfold := fold_step (leavesOf kids)
    { frames := (sentinel, []), args := args, kwargs := kwargs, withArgs := [], delivered := [] }
    (feedOK_of_top kids htop)
  simp only at hfold
  rw [hfold]
  simp only [List.nil_append]
  have hnames : (leavesOf kids).map (·.name) = (flatForest kids).map (·.2.1) := by
    simp [leavesOf, List.map_map, Function.comp_def]
  rw [hnames]
  generalize hB : bind ((flatForest kids).map (·.2.1)) args kwargs = B
  have hlen : (flatForest kids).length ≤ B.1.length := by
    rw [← hB, bind_length]; simp
  -- the value-annotated forest and its leaves
  have hfill := fillKids_flat (fun (d : PDef) (x : Bool × Val) => (d.2, x.2.isSome)) (false, none) kids B.1 hlen
  have hvwf := fillKids_wf (fun (d : PDef) (x : Bool × Val) => (d.2, x.2.isSome)) (false, none) kids B.1 hwf
  have hcs : contribOf (leavesOf kids) B.1
      = contrib (PT.flat.flatKids (PT.fill.fillKids (fun (d : PDef) (x : Bool × Val) => (d.2, x.2.isSome)) (false, none) kids B.1).1) := by
    rw [hfill.1]
    simp [contribOf, contrib, leavesOf, flatForest, List.zipWith_map_left, List.map_zipWith]
  have hk := kids_lemma _ hvwf sentinel [] (by intro k _ j _ g hg; simp at hg)
  have ho := kids_obs _ hvwf sentinel [] (by intro k _ j _ g hg; simp at hg)
  rw [hcs, hk.1, ho]
  have hacc : (setAcc (closeChain sentinel []) (PT.summ.summKids sentinel.choice (closeChain sentinel []).acc
      (PT.fill.fillKids (fun (d : PDef) (x : Bool × Val) => (d.2, x.2.isSome)) (false, none) kids B.1).1)).acc
      = summForest (fillForest (fun (d : PDef) (x : Bool × Val) => (d.2, x.2.isSome)) (false, none) kids B.1) := by
    simp [setAcc, closeChain, sentinel, summForest, fillForest]
  rw [hacc]
  rw [hfill.1]
  have := delivered_eq (flatForest kids) B.1
  simp only [leavesOf, flatForest] at this ⊢
  rw [this]
  rfl

end Suds.ArgParser
