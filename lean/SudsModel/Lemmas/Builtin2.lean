import SudsModel.Lemmas.Builtin1
namespace Suds.Xsd

def valOf (ds : List Nat) : Nat := ds.foldl (fun a d => a * 10 + d) 0

theorem dval_digitChar (d : Nat) (h : d < 10) : dval (digitChar d) = d := by
  interval_cases d <;> decide

theorem isDigit_digitChar (d : Nat) (h : d < 10) : isDigit (digitChar d) = true := by
  interval_cases d <;> decide

theorem natOf_map_digitChar (ds : List Nat) (h : ∀ d ∈ ds, d < 10) : natOf (ds.map digitChar) = valOf ds := by
  unfold natOf valOf
  generalize 0 = acc
  induction ds generalizing acc with
  | nil => rfl
  | cons d ds ih =>
    simp only [List.map, List.foldl]
    rw [dval_digitChar d (h d (by simp))]
    exact ih (fun x hx => h x (by simp [hx])) _

theorem valOf_foldl (acc : Nat) (ds : List Nat) :
    ds.foldl (fun a d => a * 10 + d) acc = acc * 10 ^ ds.length + valOf ds := by
  induction ds generalizing acc with
  | nil => simp [valOf]
  | cons c cs ih =>
    simp only [List.foldl, valOf, List.length_cons]
    rw [ih (acc * 10 + c), ih (0 * 10 + c), Nat.pow_succ]
    simp only [Nat.zero_mul, Nat.zero_add]
    rw [Nat.add_mul, Nat.mul_assoc, Nat.mul_comm 10 (10 ^ cs.length), Nat.add_assoc]

theorem valOf_append (a b : List Nat) : valOf (a ++ b) = valOf a * 10 ^ b.length + valOf b := by
  simp only [valOf, List.foldl_append]
  rw [valOf_foldl]; rfl

theorem valOf_zeros (l : List Nat) (h : ∀ d ∈ l, d = 0) : valOf l = 0 := by
  induction l with
  | nil => rfl
  | cons d ds ih =>
    have := valOf_append [d] ds
    simp only [List.singleton_append] at this
    rw [this, ih (fun x hx => h x (by simp [hx]))]
    simp [valOf, h d (by simp)]

/-- What the `while` loop of `_decimal_to_xsd_format` leaves: only trailing zeros are dropped,
at most `fc` of them. -/
theorem stripFrac_spec (n fc : Nat) (ds : List Nat) (hn : n ≤ ds.length) (hfc : fc ≤ n) :
    let r := stripFrac n fc ds
    r.1 ≤ n ∧ n - r.1 = fc - r.2 ∧ r.2 ≤ fc ∧ (∀ i, r.1 ≤ i → i < n → ds.getD i 0 = 0) := by
  induction n generalizing fc with
  | zero =>
    cases fc <;> simp [stripFrac]
  | succ n ih =>
    cases fc with
    | zero => simp [stripFrac]; intro i h1 h2; omega
    | succ fc =>
      simp only [stripFrac]
      split
      · rename_i hz
        have := ih fc (by omega) (by omega)
        simp only at this
        obtain ⟨h1, h2, h3, h4⟩ := this
        refine ⟨by omega, by omega, by omega, ?_⟩
        intro i hi1 hi2
        by_cases hi : i = n
        · subst hi; exact hz
        · exact h4 i hi1 (by omega)
      · simp
        intro i h1 h2; omega

theorem valOf_take_strip (ds : List Nat) (dc : Nat) (hdc : dc ≤ ds.length)
    (hz : ∀ i, dc ≤ i → i < ds.length → ds.getD i 0 = 0) :
    valOf ds = valOf (ds.take dc) * 10 ^ (ds.length - dc) := by
  have hsplit : ds = ds.take dc ++ ds.drop dc := (List.take_append_drop dc ds).symm
  have hzero : ∀ d ∈ ds.drop dc, d = 0 := by
    intro d hd
    obtain ⟨j, hj, rfl⟩ := List.mem_iff_getElem.mp hd
    have hlen : j < ds.length - dc := by simpa using hj
    have := hz (dc + j) (by omega) (by omega)
    simp only [List.getD_eq_getElem?_getD] at this
    rw [List.getElem_drop]
    have hlt : dc + j < ds.length := by omega
    simpa [List.getElem?_eq_getElem hlt] using this
  conv_lhs => rw [hsplit]
  rw [valOf_append, valOf_zeros _ hzero, List.length_drop, Nat.add_zero]

/-- Unfolding of `_decimal_to_xsd_format` for a negative exponent `-(k+1)` in natural numbers. -/
theorem decimalToXsd_neg (neg : Bool) (ds : List Nat) (k : Nat) :
    decimalToXsd neg ds (Int.negSucc k) =
      let n := ds.length
      let dc := (stripFrac n (min n (k + 1)) ds).1
      let sign := if neg then ['-'] else []
      if n ≤ k + 1 then
        sign ++ ['0'] ++ (if dc > 0 then ['.'] ++ List.replicate (k + 1 - n) '0' ++ (ds.take dc).map digitChar else [])
      else
        sign ++ (ds.take (n - (k + 1))).map digitChar ++
          (if n - (k + 1) < dc then ['.'] ++ ((ds.take dc).drop (n - (k + 1))).map digitChar else []) := by
  simp only [decimalToXsd]
  have h0 : ¬ (Int.negSucc k ≥ 0) := by omega
  simp only [h0, if_false]
  have h1 : (-Int.negSucc k).toNat = k + 1 := by omega
  simp only [h1]
  by_cases hn : ds.length ≤ k + 1
  · have h2 : ((ds.length : Int) + Int.negSucc k ≤ 0) := by omega
    have h3 : (-((ds.length : Int) + Int.negSucc k)).toNat = k + 1 - ds.length := by omega
    simp only [h2, hn, if_true, h3]
  · have h2 : ¬ ((ds.length : Int) + Int.negSucc k ≤ 0) := by omega
    have h3 : ((ds.length : Int) + Int.negSucc k).toNat = ds.length - (k + 1) := by omega
    simp only [h2, hn, if_false, h3]

theorem natOf_zeros_append (k : Nat) (l : List Char) : natOf (List.replicate k '0' ++ l) = natOf l := by
  rw [natOf_append, natOf_zeros]; simp

theorem all_digit_map (l : List Nat) (h : ∀ d ∈ l, d < 10) : ∀ c ∈ l.map digitChar, isDigit c = true := by
  intro c hc
  obtain ⟨d, hd, rfl⟩ := List.mem_map.mp hc
  exact isDigit_digitChar d (h d hd)

/-- **Negative exponent**: the text is `[-]I[.F]` with digits only (so no exponent notation, and a
valid `xsd:decimal` lexical form) and denotes exactly `digits × 10^-(k+1)`:
`I.F × 10^(k+1) = digits × 10^|F|`. -/
theorem decimal_exact_neg (neg : Bool) (ds : List Nat) (k : Nat) (hds : ∀ d ∈ ds, d < 10) (hne : ds ≠ []) :
    ∃ I F : List Char,
      decimalToXsd neg ds (Int.negSucc k) = (if neg then ['-'] else []) ++ I ++ (if F = [] then [] else '.' :: F)
      ∧ I ≠ [] ∧ (∀ c ∈ I, isDigit c = true) ∧ (∀ c ∈ F, isDigit c = true)
      ∧ natOf (I ++ F) * 10 ^ (k + 1) = valOf ds * 10 ^ F.length := by
  rw [decimalToXsd_neg]
  simp only
  have hspec := stripFrac_spec ds.length (min ds.length (k + 1)) ds (Nat.le_refl _) (Nat.min_le_left _ _)
  simp only at hspec
  obtain ⟨hdc, hsub, hr2, hz⟩ := hspec
  generalize (stripFrac ds.length (min ds.length (k + 1)) ds).1 = dc at *
  generalize (stripFrac ds.length (min ds.length (k + 1)) ds).2 = r2 at *
  have hval := valOf_take_strip ds dc hdc hz
  have htk : ∀ d ∈ ds.take dc, d < 10 := fun d hd => hds d (List.mem_of_mem_take hd)
  by_cases hn : ds.length ≤ k + 1
  · simp only [hn, if_true]
    by_cases hpos : dc > 0
    · refine ⟨['0'], List.replicate (k + 1 - ds.length) '0' ++ (ds.take dc).map digitChar, ?_, by simp, ?_, ?_, ?_⟩
      · have hF : List.replicate (k + 1 - ds.length) '0' ++ (ds.take dc).map digitChar ≠ [] := by
          intro h
          have h2 := (List.append_eq_nil_iff.mp h).2
          have h3 := congrArg List.length h2
          rw [List.length_map, List.length_take, Nat.min_eq_left hdc] at h3
          simp at h3; omega
        rw [if_pos hpos, if_neg hF]; simp
      · intro c hc; simp at hc; subst hc; decide
      · intro c hc
        rcases List.mem_append.mp hc with h | h
        · rw [List.eq_of_mem_replicate h]; decide
        · exact all_digit_map _ htk c h
      · have : natOf (['0'] ++ (List.replicate (k + 1 - ds.length) '0' ++ (ds.take dc).map digitChar))
            = valOf (ds.take dc) := by
          rw [show (['0'] : List Char) = List.replicate 1 '0' from rfl, natOf_zeros_append, natOf_zeros_append,
            natOf_map_digitChar _ htk]
        rw [this, hval, List.length_append, List.length_replicate, List.length_map, List.length_take,
          Nat.min_eq_left hdc, Nat.mul_assoc, ← Nat.pow_add]
        congr 2; omega
    · have hdc0 : dc = 0 := by omega
      subst hdc0
      refine ⟨['0'], [], by simp, by simp, ?_, by simp, ?_⟩
      · intro c hc; simp at hc; subst hc; decide
      · rw [hval]; simp [valOf, natOf, dval]
  · simp only [hn, if_false]
    have hpo : 0 < ds.length - (k + 1) := by omega
    have hdcge : ds.length - (k + 1) ≤ dc := by
      have hm : min ds.length (k + 1) = k + 1 := Nat.min_eq_right (by omega)
      rw [hm] at hsub hr2
      omega
    have hI : ∀ c ∈ (ds.take (ds.length - (k + 1))).map digitChar, isDigit c = true :=
      all_digit_map _ (fun d hd => hds d (List.mem_of_mem_take hd))
    have hIne : (ds.take (ds.length - (k + 1))).map digitChar ≠ [] := by
      intro h; have := congrArg List.length h; simp at this; omega
    by_cases hlt : ds.length - (k + 1) < dc
    · refine ⟨_, ((ds.take dc).drop (ds.length - (k + 1))).map digitChar, ?_, hIne, hI, ?_, ?_⟩
      · have hF : ((ds.take dc).drop (ds.length - (k + 1))).map digitChar ≠ [] := by
          intro h; have := congrArg List.length h; simp at this; omega
        rw [if_pos hlt, if_neg hF]; simp
      · exact all_digit_map _ (fun d hd => htk d (List.mem_of_mem_drop hd))
      · have hcat : (ds.take (ds.length - (k + 1))).map digitChar ++ ((ds.take dc).drop (ds.length - (k + 1))).map digitChar
            = (ds.take dc).map digitChar := by
          rw [← List.map_append]
          congr 1
          have : ds.take (ds.length - (k + 1)) = (ds.take dc).take (ds.length - (k + 1)) := by
            rw [List.take_take, Nat.min_eq_left hdcge]
          rw [this, List.take_append_drop]
        rw [hcat, natOf_map_digitChar _ htk, hval, List.length_map, List.length_drop, List.length_take,
          Nat.min_eq_left hdc, Nat.mul_assoc, ← Nat.pow_add]
        congr 2; omega
    · have hdceq : dc = ds.length - (k + 1) := by omega
      refine ⟨_, [], ?_, hIne, hI, by simp, ?_⟩
      · rw [if_neg hlt]; simp
      · rw [List.append_nil, natOf_map_digitChar _ (fun d hd => hds d (List.mem_of_mem_take hd)), hval, hdceq]
        simp only [List.length_nil, Nat.pow_zero, Nat.mul_one]
        congr 2; omega

end Suds.Xsd
