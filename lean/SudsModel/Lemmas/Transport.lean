import SudsModel.Transport
namespace Suds.Transport

theorem std_roundtrip_sextet : ∀ s, s < 64 → charSextet stdAlphabet (sextetChar stdAlphabet s) = some s := by
  decide +kernel
theorem std_no_pad : ∀ s, s < 64 → sextetChar stdAlphabet s ≠ '=' := by decide +kernel

theorem decode_group (c1 c2 c3 c4 : Char) (rest : List Char) (h4 : c4 ≠ '=') :
    decode stdAlphabet (c1 :: c2 :: c3 :: c4 :: rest) = (do
      let s1 ← charSextet stdAlphabet c1
      let s2 ← charSextet stdAlphabet c2
      let s3 ← charSextet stdAlphabet c3
      let s4 ← charSextet stdAlphabet c4
      let r ← decode stdAlphabet rest
      pure ((s1 * 4 + s2 / 16) :: ((s2 % 16) * 16 + s3 / 4) :: ((s3 % 4) * 64 + s4) :: r)) := by
  cases rest with
  | nil =>
    by_cases h3 : c3 = '='
    · subst h3; simp [decode, h4]
    · simp [decode, h3, h4]
  | cons x xs => simp [decode]

theorem base64_roundtrip : (bs : List Nat) → (∀ b ∈ bs, b < 256) →
    decode stdAlphabet (encode stdAlphabet bs) = some bs
  | [], _ => by simp [encode, decode]
  | [a], h => by
    have ha := h a (by simp)
    have e1 := std_roundtrip_sextet (a / 4) (by omega)
    have e2 := std_roundtrip_sextet ((a % 4) * 16) (by omega)
    simp only [encode, decode, e1, e2, bind, Option.bind, pure]
    have : a / 4 * 4 + a % 4 * 16 / 16 = a := by omega
    rw [this]
  | [a, b], h => by
    have ha := h a (by simp)
    have hb := h b (by simp)
    have e1 := std_roundtrip_sextet (a / 4) (by omega)
    have e2 := std_roundtrip_sextet ((a % 4) * 16 + b / 16) (by omega)
    have e3 := std_roundtrip_sextet ((b % 16) * 4) (by omega)
    have n3 := std_no_pad ((b % 16) * 4) (by omega)
    simp only [encode]
    rw [show decode stdAlphabet [sextetChar stdAlphabet (a / 4), sextetChar stdAlphabet (a % 4 * 16 + b / 16),
        sextetChar stdAlphabet (b % 16 * 4), '='] = (do
          let s1 ← charSextet stdAlphabet (sextetChar stdAlphabet (a / 4))
          let s2 ← charSextet stdAlphabet (sextetChar stdAlphabet (a % 4 * 16 + b / 16))
          let s3 ← charSextet stdAlphabet (sextetChar stdAlphabet (b % 16 * 4))
          pure [s1 * 4 + s2 / 16, (s2 % 16) * 16 + s3 / 4]) from by simp [decode, n3]]
    simp only [e1, e2, e3, bind, Option.bind, pure]
    have x1 : a / 4 * 4 + (a % 4 * 16 + b / 16) / 16 = a := by omega
    have x2 : (a % 4 * 16 + b / 16) % 16 * 16 + b % 16 * 4 / 4 = b := by omega
    rw [x1, x2]
  | a :: b :: c :: rest, h => by
    have ha := h a (by simp)
    have hb := h b (by simp)
    have hc := h c (by simp)
    have e1 := std_roundtrip_sextet (a / 4) (by omega)
    have e2 := std_roundtrip_sextet ((a % 4) * 16 + b / 16) (by omega)
    have e3 := std_roundtrip_sextet ((b % 16) * 4 + c / 64) (by omega)
    have e4 := std_roundtrip_sextet (c % 64) (by omega)
    have n4 := std_no_pad (c % 64) (by omega)
    have ih := base64_roundtrip rest (fun x hx => h x (by simp [hx]))
    simp only [encode]
    rw [decode_group _ _ _ _ _ n4]
    simp only [e1, e2, e3, e4, ih, bind, Option.bind, pure]
    have x1 : a / 4 * 4 + (a % 4 * 16 + b / 16) / 16 = a := by omega
    have x2 : (a % 4 * 16 + b / 16) % 16 * 16 + (b % 16 * 4 + c / 64) / 4 = b := by omega
    have x3 : (b % 16 * 4 + c / 64) % 4 * 64 + c % 64 = c := by omega
    rw [x1, x2, x3]

/-- The server recovers exactly the user name and the password from the Basic credentials. -/
theorem splitColon_append (u p : List Nat) (h : (58 : Nat) ∉ u) : splitColon (u ++ [58] ++ p) = some (u, p) := by
  induction u with
  | nil => simp [splitColon]
  | cons b u ih =>
    simp only [List.mem_cons, not_or] at h
    have hb : b ≠ 58 := fun e => h.1 e.symm
    simp only [List.cons_append, splitColon, hb, if_false]
    rw [show u ++ [58] ++ p = u ++ [58] ++ p from rfl] at ih
    simp only [List.append_assoc] at ih ⊢
    rw [ih h.2]; rfl

theorem basic_auth_recovers (u p : List Nat) (hu : ∀ b ∈ u, b < 256) (hp : ∀ b ∈ p, b < 256) (hc : (58 : Nat) ∉ u) :
    (decode stdAlphabet (credentials stdAlphabet u p)).bind splitColon = some (u, p) := by
  unfold credentials
  rw [base64_roundtrip]
  · have := splitColon_append u p hc
    simp only [List.append_assoc, List.singleton_append] at this
    simpa using this
  · intro b hb
    simp only [List.append_assoc, List.mem_append, List.mem_singleton] at hb
    rcases hb with hb | hb | hb
    · exact hu b hb
    · omega
    · exact hp b hb

/-- D9 (fixed in the repository): with the URL-safe alphabet a standard decoder fails on
credentials whose encoding needs the 63rd/64th symbol. -/
theorem urlsafe_witness : decode stdAlphabet (credentials urlAlphabet [126] [63]) = none ∧
    decode stdAlphabet (credentials stdAlphabet [126] [63]) = some [126, 58, 63] := by decide +kernel

end Suds.Transport
