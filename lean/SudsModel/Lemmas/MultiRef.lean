import SudsModel.Xml.MultiRef
/-!
Out-lining as an encoder, and the proof that `MultiRef` resolution undoes it at any nesting depth.

`S` chooses which nodes (by identity) are moved out of line, `key i` is the id string given to
node `i`, `extra i` are attributes the writer puts on the out-of-line copy besides `id` (for
instance `soapenc:root="0"`): the implementation copies every attribute except `id` to the referrer.
-/
namespace Suds.Xml

mutual
  /-- The referrer side: an out-lined node becomes an empty stub with only an `href`. -/
  def Elem.outline (S : Nat → Bool) (key : Nat → String) : Elem → Elem
    | .mk i p n x m a t kids =>
      if S i then .mk i p n x m [⟨none, "href", "#" ++ key i⟩] none []
      else .mk i p n x m a t (outlineKids S key kids)
  def outlineKids (S : Nat → Bool) (key : Nat → String) : List Elem → List Elem
    | [] => []
    | k :: ks => k.outline S key :: outlineKids S key ks
end

mutual
  /-- What the decoder is expected to give back: the original tree, the out-lined nodes carrying
  the writer's extra attributes. -/
  def Elem.marked (S : Nat → Bool) (extra : Nat → List Attr) : Elem → Elem
    | .mk i p n x m a t kids => .mk i p n x m (if S i then a ++ extra i else a) t (markedKids S extra kids)
  def markedKids (S : Nat → Bool) (extra : Nat → List Attr) : List Elem → List Elem
    | [] => []
    | k :: ks => k.marked S extra :: markedKids S extra ks
end

/-- The out-of-line copy of a node: `id`, the node's own attributes, the extras; its content with
the nested out-lining applied. -/
def mkRef (S : Nat → Bool) (key : Nat → String) (extra : Nat → List Attr) (rid : Nat) : Elem → Elem
  | .mk i _ _ _ _ a t kids =>
    .mk rid none "multiRef" none [] (⟨none, "id", key i⟩ :: (a ++ extra i)) t (outlineKids S key kids)

mutual
  /-- The catalogue serves every out-lined node of the tree, and the tree is one the writer can
  out-line faithfully: kept nodes have no `href` attribute of their own, out-lined nodes have no
  empty-string text (suds reads `""` as no text). -/
  def Elem.Outlinable (S : Nat → Bool) (key : Nat → String) (extra : Nat → List Attr) (cat : Catalog) : Elem → Prop
    | .mk i _ _ _ _ a t kids =>
      (if S i then
        (∃ ref, catalogGet ("#" ++ key i) cat = some ref ∧ ref.attrs.filter (·.name != "id") = a ++ extra i ∧
          ref.text = t ∧ ref.kids = outlineKids S key kids) ∧ t ≠ some ""
       else a.findIdx? (·.name == "href") = none) ∧
      OutlinableKids S key extra cat kids
  def OutlinableKids (S : Nat → Bool) (key : Nat → String) (extra : Nat → List Attr) (cat : Catalog) : List Elem → Prop
    | [] => True
    | k :: ks => k.Outlinable S key extra cat ∧ OutlinableKids S key extra cat ks
end

theorem hrefOf_stub (i : Nat) (p : Option String) (n : String) (x : Option String) (m : List (String × String))
    (k : String) : hrefOf (.mk i p n x m [⟨none, "href", k⟩] none []) = some (0, k) := by
  simp [hrefOf, Elem.attrs]

theorem hrefOf_none (i : Nat) (p : Option String) (n : String) (x : Option String) (m : List (String × String))
    (a : List Attr) (t : Option String) (kids : List Elem) (h : a.findIdx? (·.name == "href") = none) :
    hrefOf (.mk i p n x m a t kids) = none := by
  simp [hrefOf, Elem.attrs, h]

theorem size_pos (e : Elem) : 0 < e.size := by
  cases e; simp [Elem.size]; omega

mutual
  /-- **Resolution undoes out-lining, at every depth.** -/
  theorem resolve_outline (S : Nat → Bool) (key : Nat → String) (extra : Nat → List Attr) (cat : Catalog) :
      (e : Elem) → (fuel : Nat) → e.size ≤ fuel → e.Outlinable S key extra cat →
      (e.outline S key).resolve cat fuel = e.marked S extra
    | .mk i p n x m a t kids, 0, hs, _ => by
      have := size_pos (.mk i p n x m a t kids); omega
    | .mk i p n x m a t kids, fuel + 1, hs, ho => by
      simp only [Elem.size] at hs
      have hk : sizeKids kids ≤ fuel := by omega
      simp only [Elem.Outlinable] at ho
      cases hS : S i with
      | true =>
        simp only [hS, if_true] at ho
        obtain ⟨⟨⟨ref, hc, ha, ht, hkids⟩, hne⟩, hok⟩ := ho
        simp only [Elem.outline, hS, if_true, Elem.marked]
        simp only [Elem.resolve, hrefOf_stub, hc, ha, ht, hkids, List.eraseIdx_cons_zero, List.nil_append]
        rw [resolveKids_outline S key extra cat kids fuel hk hok]
      | false =>
        simp only [hS, Bool.false_eq_true, if_false] at ho
        simp only [Elem.outline, hS, Bool.false_eq_true, if_false, Elem.marked]
        simp only [Elem.resolve, hrefOf_none i p n x m a t _ ho.1]
        rw [resolveKids_outline S key extra cat kids fuel hk ho.2]
  theorem resolveKids_outline (S : Nat → Bool) (key : Nat → String) (extra : Nat → List Attr) (cat : Catalog) :
      (ks : List Elem) → (fuel : Nat) → sizeKids ks ≤ fuel → OutlinableKids S key extra cat ks →
      resolveKids cat fuel (outlineKids S key ks) = markedKids S extra ks
    | [], _, _, _ => by simp [outlineKids, resolveKids, markedKids]
    | k :: ks, fuel, hs, ho => by
      simp only [sizeKids] at hs
      simp only [OutlinableKids] at ho
      simp only [outlineKids, resolveKids, markedKids]
      rw [resolve_outline S key extra cat k fuel (by omega) ho.1,
        resolveKids_outline S key extra cat ks fuel (by omega) ho.2]
end

mutual
  /-- With no extra attributes the expected tree is the original one. -/
  theorem marked_nil (S : Nat → Bool) : (e : Elem) → e.marked S (fun _ => []) = e
    | .mk i p n x m a t kids => by
      simp only [Elem.marked, List.append_nil, ite_self, markedKids_nil S kids]
  theorem markedKids_nil (S : Nat → Bool) : (ks : List Elem) → markedKids S (fun _ => []) ks = ks
    | [] => rfl
    | k :: ks => by simp only [markedKids, marked_nil S k, markedKids_nil S ks]
end

/-! ### the catalogue the body builds -/

/-- A catalogue with pairwise distinct keys returns the entry stored under a key. -/
theorem catalogGet_of_mem (cat : Catalog) (hn : (cat.map (·.1)).Nodup) (k : String) (v : Elem) (h : (k, v) ∈ cat) :
    catalogGet k cat = some v := by
  induction cat with
  | nil => cases h
  | cons kv rest ih =>
    simp only [List.map_cons, List.nodup_cons] at hn
    simp only [catalogGet, List.reverse_cons, List.find?_append]
    rcases List.mem_cons.mp h with h | h
    · subst h
      have : rest.reverse.find? (fun x => x.1 == k) = none := by
        rw [List.find?_eq_none]
        intro x hx
        have hx' : x ∈ rest := List.mem_reverse.mp hx
        simp only [beq_iff_eq]
        intro he
        exact hn.1 (List.mem_map.mpr ⟨x, hx', he⟩)
      simp [this]
    · have := ih hn.2 h
      simp only [catalogGet] at this
      cases hf : rest.reverse.find? (fun x => x.1 == k) with
      | none => simp [hf] at this
      | some y => simp only [hf, Option.map_some] at this ⊢; simpa using this

mutual
  /-- The out-lined nodes of a tree, in document order (nested ones included). -/
  def Elem.outlined (S : Nat → Bool) : Elem → List Elem
    | .mk i p n x m a t kids => (if S i then [.mk i p n x m a t kids] else []) ++ outlinedKids S kids
  def outlinedKids (S : Nat → Bool) : List Elem → List Elem
    | [] => []
    | k :: ks => k.outlined S ++ outlinedKids S ks
end

mutual
  /-- What the writer needs of a tree: no attribute is called `id` (also none of the extras), kept
  nodes carry no `href`, out-lined nodes have no empty-string text. -/
  def Elem.Plain (S : Nat → Bool) (extra : Nat → List Attr) : Elem → Prop
    | .mk i _ _ _ _ a t kids =>
      (∀ x ∈ a, x.name ≠ "id") ∧ (∀ x ∈ extra i, x.name ≠ "id") ∧
      (if S i then t ≠ some "" else a.findIdx? (·.name == "href") = none) ∧ PlainKids S extra kids
  def PlainKids (S : Nat → Bool) (extra : Nat → List Attr) : List Elem → Prop
    | [] => True
    | k :: ks => k.Plain S extra ∧ PlainKids S extra ks
end

/-- The catalogue entries for a list of out-lined nodes. -/
def catOf (S : Nat → Bool) (key : Nat → String) (extra : Nat → List Attr) (rid : Nat → Nat) (L : List Elem) : Catalog :=
  L.map fun o => ("#" ++ key o.id, mkRef S key extra (rid o.id) o)

theorem filter_notid {l : List Attr} (h : ∀ x ∈ l, x.name ≠ "id") : l.filter (·.name != "id") = l := by
  apply List.filter_eq_self.mpr
  intro x hx
  simpa using h x hx

mutual
  theorem outlinable_of_plain (S : Nat → Bool) (key : Nat → String) (extra : Nat → List Attr) (rid : Nat → Nat)
      (L : List Elem) (hn : ((catOf S key extra rid L).map (·.1)).Nodup) :
      (e : Elem) → (∀ o ∈ e.outlined S, o ∈ L) → e.Plain S extra → e.Outlinable S key extra (catOf S key extra rid L)
    | .mk i p n x m a t kids, hsub, hp => by
      simp only [Elem.Plain] at hp
      obtain ⟨ha, hx, hc, hk⟩ := hp
      simp only [Elem.outlined] at hsub
      have hkids : ∀ o ∈ outlinedKids S kids, o ∈ L := fun o ho => hsub o (List.mem_append_right _ ho)
      simp only [Elem.Outlinable]
      refine ⟨?_, outlinableKids_of_plain S key extra rid L hn kids hkids hk⟩
      cases hS : S i with
      | true =>
        simp only [hS, if_true] at hc hsub ⊢
        have hmem : Elem.mk i p n x m a t kids ∈ L := hsub _ (List.mem_append_left _ (List.mem_singleton.mpr rfl))
        have hin : ("#" ++ key i, mkRef S key extra (rid i) (.mk i p n x m a t kids)) ∈ catOf S key extra rid L :=
          List.mem_map.mpr ⟨_, hmem, rfl⟩
        refine ⟨⟨_, catalogGet_of_mem _ hn _ _ hin, ?_, rfl, rfl⟩, hc⟩
        simp only [mkRef, Elem.attrs, List.filter_cons, bne_self_eq_false, Bool.false_eq_true, if_false]
        apply filter_notid
        intro y hy
        rcases List.mem_append.mp hy with hy | hy
        · exact ha y hy
        · exact hx y hy
      | false =>
        simp only [hS, Bool.false_eq_true, if_false] at hc ⊢
        exact hc
  theorem outlinableKids_of_plain (S : Nat → Bool) (key : Nat → String) (extra : Nat → List Attr) (rid : Nat → Nat)
      (L : List Elem) (hn : ((catOf S key extra rid L).map (·.1)).Nodup) :
      (ks : List Elem) → (∀ o ∈ outlinedKids S ks, o ∈ L) → PlainKids S extra ks →
      OutlinableKids S key extra (catOf S key extra rid L) ks
    | [], _, _ => trivial
    | k :: ks, hsub, hp => by
      simp only [PlainKids] at hp
      simp only [outlinedKids] at hsub
      simp only [OutlinableKids]
      exact ⟨outlinable_of_plain S key extra rid L hn k (fun o ho => hsub o (List.mem_append_left _ ho)) hp.1,
        outlinableKids_of_plain S key extra rid L hn ks (fun o ho => hsub o (List.mem_append_right _ ho)) hp.2⟩
end

mutual
  theorem outlined_ids_sublist (S : Nat → Bool) : (e : Elem) → ((e.outlined S).map Elem.id).Sublist e.ids
    | .mk i p n x m a t kids => by
      simp only [Elem.outlined, Elem.ids, List.map_append]
      cases S i with
      | true =>
        simp only [if_true, List.map_cons, List.map_nil, Elem.id, List.singleton_append]
        exact (outlinedKids_ids_sublist S kids).cons_cons i
      | false =>
        simp only [Bool.false_eq_true, if_false, List.map_nil, List.nil_append]
        exact (outlinedKids_ids_sublist S kids).cons i
  theorem outlinedKids_ids_sublist (S : Nat → Bool) : (ks : List Elem) →
      ((outlinedKids S ks).map Elem.id).Sublist (idsKids ks)
    | [] => by simp [outlinedKids, idsKids]
    | k :: ks => by
      simp only [outlinedKids, idsKids, List.map_append]
      exact (outlined_ids_sublist S k).append (outlinedKids_ids_sublist S ks)
end

/-- Distinct node identities and distinct id strings give a catalogue with distinct keys. -/
theorem catOf_nodup (S : Nat → Bool) (key : Nat → String) (extra : Nat → List Attr) (rid : Nat → Nat)
    (hkey : ∀ i j, key i = key j → i = j) (L : List Elem) (hid : (L.map Elem.id).Nodup) :
    ((catOf S key extra rid L).map (·.1)).Nodup := by
  simp only [catOf, List.map_map]
  simp only [List.Nodup, List.pairwise_map] at hid ⊢
  refine hid.imp ?_
  intro a b hab he
  apply hab
  apply hkey
  simpa using he

/-- `build_catalog` over the body the writer produces (the referrers, then the out-of-line
copies): exactly the entries of the out-lined nodes. -/
theorem buildCatalog_body (S : Nat → Bool) (key : Nat → String) (extra : Nat → List Attr) (rid : Nat → Nat)
    (roots : List Elem) (hp : PlainKids S extra roots) (L : List Elem) :
    buildCatalog (outlineKids S key roots ++ L.map (fun o => mkRef S key extra (rid o.id) o)) =
      catOf S key extra rid L := by
  simp only [buildCatalog, List.filterMap_append]
  have h1 : (outlineKids S key roots).filterMap (fun k => (idOf k).map fun i => ("#" ++ i, k)) = [] := by
    induction roots with
    | nil => simp [outlineKids]
    | cons k ks ih =>
      simp only [PlainKids] at hp
      simp only [outlineKids, List.filterMap_cons]
      have hk : idOf (k.outline S key) = none := by
        obtain ⟨i, p, n, x, m, a, t, kids⟩ := k
        simp only [Elem.Plain] at hp
        simp only [Elem.outline]
        cases S i with
        | true => simp [idOf, Elem.attrs]
        | false =>
          simp only [Bool.false_eq_true, if_false, idOf, Elem.attrs, Option.map_eq_none_iff, List.find?_eq_none]
          intro y hy
          simpa using hp.1.1 y hy
      simp only [hk, Option.map_none]
      exact ih hp.2
  rw [h1, List.nil_append, catOf]
  induction L with
  | nil => rfl
  | cons o os ih =>
    obtain ⟨i, p, n, x, m, a, t, kids⟩ := o
    simp only [List.map_cons, List.filterMap_cons, ih]
    simp [mkRef, idOf, Elem.attrs, Elem.id]

end Suds.Xml
