import SudsModel.Lemmas.ArgParser2
namespace Suds.ArgParser

/-! ### `fill` puts the i-th value on the i-th leaf and keeps the shape -/

theorem zipWith_append_drop {α β γ} (g : α → β → γ) (l1 l2 : List α) (vs : List β)
    (h : l1.length ≤ vs.length) :
    List.zipWith g (l1 ++ l2) vs = List.zipWith g l1 vs ++ List.zipWith g l2 (vs.drop l1.length) := by
  induction l1 generalizing vs with
  | nil => simp
  | cons a l1 ih =>
    cases vs with
    | nil => simp at h
    | cons v vs => simp at h; simp [ih vs h]

mutual
theorem fill_flat {α β γ} (f : α → β → γ) (d : β) : (t : PT α) → (vs : List β) → t.flat.length ≤ vs.length →
    (t.fill f d vs).1.flat = List.zipWith (fun l v => (l.1, f l.2 v)) t.flat vs
    ∧ (t.fill f d vs).2 = vs.drop t.flat.length
    ∧ rootId (t.fill f d vs).1 = rootId t
  | .leaf a, vs, h => by
    cases vs with
    | nil => simp [PT.flat] at h
    | cons v vs => simp [PT.fill, PT.flat, rootId]
  | .node i c kids, vs, h => by
    have hl : (PT.flat.flatKids kids).length ≤ vs.length := by simpa [PT.flat] using h
    have := fillKids_flat f d kids vs hl
    simp only [PT.fill, PT.flat, this.1, this.2.1, rootId, List.length_map, and_self, and_true]
    simp [List.zipWith_map_left]
theorem fillKids_flat {α β γ} (f : α → β → γ) (d : β) : (kids : List (PT α)) → (vs : List β) →
    (PT.flat.flatKids kids).length ≤ vs.length →
    PT.flat.flatKids (PT.fill.fillKids f d kids vs).1
        = List.zipWith (fun l v => (l.1, f l.2 v)) (PT.flat.flatKids kids) vs
    ∧ (PT.fill.fillKids f d kids vs).2 = vs.drop (PT.flat.flatKids kids).length
    ∧ (PT.fill.fillKids f d kids vs).1.map rootId = kids.map rootId
  | [], vs, _ => by simp [PT.fill.fillKids, PT.flat.flatKids]
  | k :: ks, vs, h => by
    simp only [PT.flat.flatKids, List.length_append] at h
    have h1 := fill_flat f d k vs (by omega)
    have h2 := fillKids_flat f d ks (k.fill f d vs).2 (by rw [h1.2.1]; simp; omega)
    simp only [PT.fill.fillKids, PT.flat.flatKids, h1.1, h2.1, h2.2.1, h2.2.2, h1.2.2]
    rw [h1.2.1]
    refine ⟨?_, ?_, ?_⟩
    · rw [zipWith_append_drop _ _ _ _ (by omega)]
    · simp [List.drop_drop, Nat.add_comm]
    · have := h2.2.2; rw [h1.2.1] at this; simp [this, h1.2.2]
end

theorem fill_rootId {α β γ} (f : α → β → γ) (d : β) (t : PT α) (vs : List β) :
    rootId (t.fill f d vs).1 = rootId t := by
  cases t <;> simp [PT.fill, rootId]

theorem fillKids_rootIds {α β γ} (f : α → β → γ) (d : β) (kids : List (PT α)) (vs : List β) :
    (PT.fill.fillKids f d kids vs).1.map rootId = kids.map rootId := by
  induction kids generalizing vs with
  | nil => simp [PT.fill.fillKids]
  | cons k ks ih => simp [PT.fill.fillKids, fill_rootId, ih]

mutual
theorem fill_wf {α β γ} (f : α → β → γ) (d : β) : (t : PT α) → (vs : List β) → t.wf → (t.fill f d vs).1.wf
  | .leaf a, vs, _ => by simp [PT.fill, PT.wf]
  | .node i c kids, vs, h => by
    simp only [PT.fill, PT.wf] at h ⊢
    exact fillKids_wf f d kids vs h
theorem fillKids_wf {α β γ} (f : α → β → γ) (d : β) : (kids : List (PT α)) → (vs : List β) →
    PT.wf.wfKids kids → PT.wf.wfKids (PT.fill.fillKids f d kids vs).1
  | [], vs, _ => by simp [PT.fill.fillKids, PT.wf.wfKids]
  | k :: ks, vs, h => by
    obtain ⟨hk, hd, hks⟩ := h
    simp only [PT.fill.fillKids, PT.wf.wfKids]
    refine ⟨fill_wf f d k vs hk, ?_, fillKids_wf f d ks _ hks⟩
    intro i hi k' hk'
    rw [fill_rootId] at hi
    have hm : rootId k' ∈ (PT.fill.fillKids f d ks (k.fill f d vs).2).1.map rootId :=
      List.mem_map_of_mem hk'
    rw [fillKids_rootIds] at hm
    obtain ⟨k'', hk'', he⟩ := List.mem_map.mp hm
    rw [← he]
    exact hd i hi k'' hk''
end

end Suds.ArgParser
