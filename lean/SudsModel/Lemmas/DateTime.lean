import SudsModel.Lemmas.Builtin1
/-!
isoformat -> parse round trips for xsd:date, xsd:time and xsd:dateTime (`suds/xsd/sxbuiltin.py` +
`suds/sax/date.py`): the text Python's `isoformat()` produces is scanned back by the regular-expression
model to the same value. Digit facts come from core (`Nat.toDigits`, `Nat.ofDigitChars`).
-/
namespace Suds.Xsd

theorem isDigit_of_core {c : Char} (h : c.isDigit = true) : isDigit c = true := by
  simp only [Char.isDigit, Bool.and_eq_true, decide_eq_true_eq] at h
  simp only [isDigit, Bool.and_eq_true, decide_eq_true_eq]
  exact ⟨Char.le_def.mpr (by simpa using h.1), Char.le_def.mpr (by simpa using h.2)⟩

theorem natOf_fold_eq (cs : List Char) (a : Nat) :
    cs.foldl (fun a c => a * 10 + dval c) a = Nat.ofDigitChars 10 cs a := by
  induction cs generalizing a with
  | nil => rfl
  | cons c cs ih =>
    simp only [List.foldl_cons, Nat.ofDigitChars, ih]
    congr 1
    simp [dval, Nat.mul_comm]

theorem natOf_toDigits (n : Nat) : natOf (Nat.toDigits 10 n) = n := by
  rw [natOf, natOf_fold_eq, Nat.ofDigitChars_ten_toDigits]

theorem digits_toDigits (n : Nat) : ∀ c ∈ Nat.toDigits 10 n, isDigit c = true :=
  fun c hc => isDigit_of_core (Nat.isDigit_of_mem_toDigits (by omega) (by omega) hc)

theorem natOf_pad (n w : Nat) : natOf (pad n w) = n := by
  simp only [pad]
  rw [natOf_append, natOf_zeros, natOf_toDigits]; simp

theorem digits_pad (n w : Nat) : ∀ c ∈ pad n w, isDigit c = true := by
  intro c hc
  simp only [pad] at hc
  rcases List.mem_append.mp hc with h | h
  · rw [List.eq_of_mem_replicate h]; decide
  · exact digits_toDigits n c h

theorem length_pad (n w : Nat) (hw : 0 < w) (h : n < 10 ^ w) : (pad n w).length = w := by
  have := (Nat.length_toDigits_le_iff (b := 10) (n := n) (by omega) hw).mpr h
  simp only [pad, List.length_append, List.length_replicate]
  omega

end Suds.Xsd

namespace Suds.Xsd

/-- first character of a list is not a digit (or the list is empty) -/
def NoDigitHead : List Char → Prop
  | [] => True
  | c :: _ => isDigit c = false

theorem spanDigits_append (ds r : List Char) (hd : ∀ c ∈ ds, isDigit c = true) (hr : NoDigitHead r) :
    spanDigits (ds ++ r) = (ds, r) := by
  induction ds with
  | nil =>
    cases r with
    | nil => rfl
    | cons c r => simp only [NoDigitHead] at hr; simp [spanDigits, hr]
  | cons d ds ih =>
    have h1 : isDigit d = true := hd d (List.mem_cons_self)
    have := ih (fun c hc => hd c (List.mem_cons_of_mem _ hc))
    simp [spanDigits, h1, this]

theorem take12_pad (n : Nat) (r : List Char) (hn : n < 100) (hr : NoDigitHead r) :
    take12 (pad n 2 ++ r) = some (pad n 2, r) := by
  simp only [take12, spanDigits_append _ r (digits_pad n 2) hr, length_pad n 2 (by omega) (by omega)]
  simp

theorem pad2_explicit : ∀ n, n < 100 → pad n 2 = [digitChar (n / 10), digitChar (n % 10)] := by decide

theorem take059_pad (n : Nat) (r : List Char) (hn : n < 60) (hr : NoDigitHead r) :
    take059 (pad n 2 ++ r) = some (pad n 2, r) := by
  simp only [take059, spanDigits_append _ r (digits_pad n 2) hr]
  rw [pad2_explicit n (by omega)]
  have : digitChar (n / 10) ≤ '5' := by
    have h6 : n / 10 < 6 := by omega
    revert h6
    generalize n / 10 = k
    intro h6
    have : ∀ k, k < 6 → digitChar k ≤ '5' := by decide
    exact this k h6
  simp [this]

end Suds.Xsd

namespace Suds.Xsd

theorem pad_isEmpty (n w : Nat) : (pad n w).isEmpty = false := by
  simp only [pad]
  cases h : (List.replicate (w - (Nat.toDigits 10 n).length) '0' ++ Nat.toDigits 10 n) with
  | nil => simp at h
  | cons a b => rfl

theorem daysIn_le (y m : Nat) : daysIn y m ≤ 31 := by
  simp only [daysIn]; split <;> (try split) <;> omega

theorem scanDate_iso (d : Date) (rest : List Char) (hv : d.valid = true) (hr : NoDigitHead rest) :
    scanDate (isoDate d ++ rest) = some (⟨pad d.y 4, pad d.m 2, pad d.d 2⟩, rest) := by
  simp only [Date.valid, Bool.and_eq_true, decide_eq_true_eq] at hv
  have hm : d.m < 100 := by omega
  have hd : d.d < 100 := by have := daysIn_le d.y d.m; omega
  have e : isoDate d ++ rest = pad d.y 4 ++ ('-' :: (pad d.m 2 ++ ('-' :: (pad d.d 2 ++ rest)))) := by
    simp [isoDate, List.append_assoc]
  rw [e]
  simp only [scanDate]
  rw [spanDigits_append _ _ (digits_pad d.y 4) (by simp [NoDigitHead]; decide)]
  simp only [pad_isEmpty, Bool.false_eq_true, if_false]
  rw [take12_pad d.m _ hm (by simp [NoDigitHead]; decide)]
  simp only
  rw [take12_pad d.d _ hd hr]

/-- what may follow a time: nothing, or a sign -/
def ZoneHead : List Char → Prop
  | [] => True
  | c :: _ => c = '+' ∨ c = '-'

theorem ZoneHead.noDigit {r : List Char} (h : ZoneHead r) : NoDigitHead r := by
  cases r with
  | nil => trivial
  | cons c r => simp only [ZoneHead] at h; simp only [NoDigitHead]; rcases h with h | h <;> subst h <;> decide

theorem scanTime_iso (t : Time) (rest : List Char) (hv : t.valid = true) (hr : ZoneHead rest) :
    scanTime (isoTimeOnly t ++ rest) =
      some (⟨pad t.h 2, pad t.mi 2, pad t.s 2, if t.us = 0 then none else some (pad t.us 6)⟩, rest) := by
  simp only [Time.valid, Bool.and_eq_true, decide_eq_true_eq] at hv
  have e : isoTimeOnly t ++ rest = pad t.h 2 ++ (':' :: (pad t.mi 2 ++ (':' :: (pad t.s 2 ++
      ((if t.us = 0 then [] else '.' :: pad t.us 6) ++ rest))))) := by
    simp only [isoTimeOnly, List.append_assoc, List.cons_append, List.nil_append]
  rw [e]
  simp only [scanTime]
  rw [take12_pad t.h _ (by omega) (by simp [NoDigitHead]; decide)]
  simp only
  rw [take059_pad t.mi _ (by omega) (by simp [NoDigitHead]; decide)]
  simp only
  by_cases hus : t.us = 0
  · simp only [hus, if_true, List.nil_append]
    rw [take059_pad t.s _ (by omega) hr.noDigit]
    simp only
    cases rest with
    | nil => rfl
    | cons c r =>
      simp only [ZoneHead] at hr
      rcases hr with h | h <;> subst h <;> rfl
  · simp only [hus, if_false, List.cons_append]
    rw [take059_pad t.s _ (by omega) (by simp [NoDigitHead]; decide)]
    simp only
    rw [spanDigits_append _ _ (digits_pad t.us 6) hr.noDigit]
    simp [pad_isEmpty]

end Suds.Xsd

namespace Suds.Xsd

theorem scanZone_naive : scanZone (isoTz .naive) = some .none := by decide
theorem scanZone_utc : scanZone (isoTz .utc) = some (.off false "00".toList (some "00".toList)) := by decide

theorem atEnd_cons (c : Char) (r : List Char) (h : c ≠ '\n') : atEnd (c :: r) = false := by
  simp [atEnd, h]

theorem scanZone_fixed (m : Int) (hm : m.natAbs < 1440) :
    scanZone (isoTz (.fixed m)) =
      some (.off (decide (m < 0)) (pad (m.natAbs / 60) 2) (some (pad (m.natAbs % 60) 2))) := by
  have ha : m.natAbs / 60 < 100 := by omega
  have hb : m.natAbs % 60 < 60 := by omega
  have key : ∀ c : Char, (c = '+' ∨ c = '-') →
      scanZone (c :: (pad (m.natAbs / 60) 2 ++ (':' :: (pad (m.natAbs % 60) 2 ++ [])))) =
        some (.off (decide (c = '-')) (pad (m.natAbs / 60) 2) (some (pad (m.natAbs % 60) 2))) := by
    intro c hc
    have hcn : c ≠ '\n' := by rcases hc with h | h <;> subst h <;> decide
    have hcz : ¬ (c = 'Z' ∨ c = 'z') := by rcases hc with h | h <;> subst h <;> decide
    simp only [scanZone, atEnd_cons c _ hcn, Bool.false_eq_true, if_false, hcz, hc, if_true]
    rw [take12_pad _ _ ha (by simp [NoDigitHead]; decide)]
    simp only [atEnd_cons ':' _ (by decide), Bool.false_eq_true, if_false]
    rw [take059_pad _ _ hb (by simp [NoDigitHead])]
    simp [atEnd]
  simp only [isoTz]
  by_cases hneg : m < 0
  · simp only [hneg, if_true, decide_true]
    have := key '-' (Or.inr rfl)
    simpa [List.append_assoc] using this
  · simp only [hneg, if_false, decide_false]
    have := key '+' (Or.inl rfl)
    simpa [List.append_assoc] using this

/-- the timezone a parsed text denotes: offset zero is UTC -/
def normTz : Tz → Tz
  | .fixed 0 => .utc
  | tz => tz

def TzOK : Tz → Prop
  | .fixed m => m.natAbs < 1440
  | _ => True

theorem tz_roundtrip (tz : Tz) (h : TzOK tz) : (scanZone (isoTz tz)).map tzFromMatch = some (.ok (normTz tz)) := by
  cases tz with
  | naive => rw [scanZone_naive]; rfl
  | utc => rw [scanZone_utc]; decide
  | fixed m =>
    simp only [TzOK] at h
    rw [scanZone_fixed m h]
    simp only [Option.map_some, tzFromMatch, tzMinute, natOf_pad]
    by_cases h0 : m = 0
    · subst h0; simp [normTz]
    · have hne : ¬ (m.natAbs / 60 = 0 ∧ m.natAbs % 60 = 0) := by omega
      have hlt : ¬ (m.natAbs / 60 ≥ 24) := by omega
      simp only [hne, hlt, if_false]
      have hn : normTz (.fixed m) = .fixed m := by
        cases m with
        | ofNat k => cases k with
          | zero => exact absurd rfl h0
          | succ k => rfl
        | negSucc k => rfl
      rw [hn]
      congr 2
      have h1 : m.natAbs / 60 * 60 + m.natAbs % 60 = m.natAbs := by omega
      by_cases hneg : m < 0
      · simp only [hneg, decide_true, if_true, h1]; congr 1; omega
      · simp only [hneg, decide_false, Bool.false_eq_true, if_false, h1]; congr 1; omega

theorem timeFromMatch_iso (t : Time) (hv : t.valid = true) :
    timeFromMatch ⟨pad t.h 2, pad t.mi 2, pad t.s 2, if t.us = 0 then none else some (pad t.us 6)⟩ = .ok (t, false) := by
  have hv' := hv
  simp only [Time.valid, Bool.and_eq_true, decide_eq_true_eq] at hv'
  have hsub : subMicro (if t.us = 0 then none else some (pad t.us 6)) = (t.us, false) := by
    by_cases hus : t.us = 0
    · simp [hus, subMicro]
    · have hl : (pad t.us 6).length = 6 := length_pad t.us 6 (by omega) (by omega)
      simp only [hus, if_false, subMicro]
      rw [List.take_of_length_le (by omega), hl]
      simp [natOf_pad]
  simp only [timeFromMatch, hsub, natOf_pad]
  have : (⟨t.h, t.mi, t.s, t.us⟩ : Time) = t := by cases t; rfl
  rw [this, hv]
  rfl

theorem dateFromMatch_iso (d : Date) (hv : d.valid = true) :
    dateFromMatch ⟨pad d.y 4, pad d.m 2, pad d.d 2⟩ = .ok d := by
  simp only [dateFromMatch, natOf_pad]
  have : (⟨d.y, d.m, d.d⟩ : Date) = d := by cases d; rfl
  rw [this, hv]
  rfl

theorem zoneHead_isoTz (tz : Tz) : ZoneHead (isoTz tz) := by
  cases tz with
  | naive => trivial
  | utc => simp [isoTz, ZoneHead]
  | fixed m => simp only [isoTz]; split <;> simp [ZoneHead]

end Suds.Xsd

namespace Suds.Xsd

theorem scanZone_tzFromMatch (tz : Tz) (h : TzOK tz) :
    ∃ z, scanZone (isoTz tz) = some z ∧ tzFromMatch z = .ok (normTz tz) := by
  have := tz_roundtrip tz h
  cases hz : scanZone (isoTz tz) with
  | none => simp [hz] at this
  | some z => simp only [hz, Option.map_some, Option.some.injEq] at this; exact ⟨z, rfl, this⟩

/-- **date**: `parse(isoformat(d)) = d` for every valid date. -/
theorem date_roundtrip (d : Date) (hv : d.valid = true) : parseDate (isoDate d) = .ok d := by
  have := scanDate_iso d [] hv trivial
  rw [List.append_nil] at this
  simp only [parseDate, this]
  have hz : scanZone [] = some .none := by decide
  simp only [hz, dateFromMatch_iso d hv]

/-- **time**: `parse(isoformat(t, tz)) = (t, tz)` for every valid time of day and every offset
below 24 h (offset zero reads as UTC). -/
theorem time_roundtrip (t : Time) (tz : Tz) (hv : t.valid = true) (htz : TzOK tz) :
    parseTime (isoTime t tz) = .ok (t, normTz tz) := by
  obtain ⟨z, hz, hzz⟩ := scanZone_tzFromMatch tz htz
  simp only [parseTime, isoTime, scanTime_iso t _ hv (zoneHead_isoTz tz), hz, timeFromMatch_iso t hv, hzz]
  rfl

/-- **dateTime**: `parse(isoformat(d, t, tz)) = (d, t, tz)`. -/
theorem datetime_roundtrip (d : Date) (t : Time) (tz : Tz) (hd : d.valid = true) (ht : t.valid = true) (htz : TzOK tz) :
    parseDateTime (isoDateTime d t tz) = .ok (d, t, normTz tz) := by
  obtain ⟨z, hz, hzz⟩ := scanZone_tzFromMatch tz htz
  have e : isoDateTime d t tz = isoDate d ++ ('T' :: (isoTimeOnly t ++ isoTz tz)) := by
    simp [isoDateTime, List.append_assoc]
  rw [e]
  simp only [parseDateTime, scanDate_iso d _ hd (by simp [NoDigitHead]; decide : NoDigitHead ('T' :: _))]
  simp only [true_or, if_true, scanTime_iso t _ ht (zoneHead_isoTz tz), hz, dateFromMatch_iso d hd,
    timeFromMatch_iso t ht, hzz]
  rfl

theorem spanDigits_spec (s : List Char) :
    s = (spanDigits s).1 ++ (spanDigits s).2 ∧ ∀ c ∈ (spanDigits s).1, isDigit c = true := by
  induction s with
  | nil => simp [spanDigits]
  | cons c r ih =>
    unfold spanDigits
    by_cases hc : isDigit c = true
    · simp only [hc, if_true]
      refine ⟨by simp [← ih.1], ?_⟩
      intro x hx
      rcases List.mem_cons.mp hx with rfl | hx
      · exact hc
      · exact ih.2 x hx
    · simp [hc]

theorem take12_spec (s m r : List Char) (h : take12 s = some (m, r)) :
    s = m ++ r ∧ (m.length = 1 ∨ m.length = 2) ∧ ∀ c ∈ m, isDigit c = true := by
  unfold take12 at h
  have hs := spanDigits_spec s
  by_cases hl : (spanDigits s).1.length = 1 ∨ (spanDigits s).1.length = 2
  · simp only [hl, if_true, Option.some.injEq] at h
    rw [h] at hs hl
    exact ⟨hs.1, hl, hs.2⟩
  · simp [hl] at h

/-- **What the date scanner accepts has the XSD shape**: digits, '-', one or two digits, '-', one or
two digits, then the rest. -/
theorem scanDate_shape (s : List Char) (dm : DateM) (rest : List Char) (h : scanDate s = some (dm, rest)) :
    s = dm.year ++ '-' :: (dm.month ++ '-' :: (dm.day ++ rest)) ∧ dm.year ≠ [] ∧
    (∀ c ∈ dm.year, isDigit c = true) ∧ (∀ c ∈ dm.month, isDigit c = true) ∧ (∀ c ∈ dm.day, isDigit c = true) ∧
    (dm.month.length = 1 ∨ dm.month.length = 2) ∧ (dm.day.length = 1 ∨ dm.day.length = 2) := by
  unfold scanDate at h
  have hy := spanDigits_spec s
  simp only at h
  split at h
  · simp at h
  · rename_i hne
    split at h
    · rename_i r1 hy2
      split at h
      · rename_i m r2 hm
        split at h
        · rename_i d r3 hd
          simp only [Option.some.injEq, Prod.mk.injEq] at h
          obtain ⟨hdm, hrest⟩ := h
          have sm := take12_spec _ _ _ hm
          have sd := take12_spec _ _ _ hd
          subst hdm hrest
          refine ⟨?_, ?_, hy.2, sm.2.2, sd.2.2, sm.2.1, sd.2.1⟩
          · conv => lhs; rw [hy.1, hy2, sm.1, sd.1]
          · intro he; exact hne (by simpa using he)
        · simp at h
      · simp at h
    · simp at h

end Suds.Xsd
