import SudsModel.ArgParser
namespace Suds.ArgParser

/-! basic facts -/
@[simp] theorem item_id (f : Frame) (c : Acc) : (f.item c).id = f.id := rfl
@[simp] theorem item_choice (f : Frame) (c : Acc) : (f.item c).choice = f.choice := rfl

theorem closeChain_id (f : Frame) (fs : List Frame) : (closeChain f fs).id = f.id := by
  cases fs <;> simp [closeChain]
theorem closeChain_choice (f : Frame) (fs : List Frame) : (closeChain f fs).choice = f.choice := by
  cases fs <;> simp [closeChain]

theorem reopen_fst_id (root : Frame) (chain : List Frame) (anc : List Anc) :
    (reopen root chain anc).1.id = root.id ∧ (reopen root chain anc).1.choice = root.choice := by
  cases chain with
  | nil => simp [reopen]
  | cons f fs =>
    cases anc with
    | nil => simp [reopen]
    | cons a as =>
      simp only [reopen]
      split <;> simp

theorem addTop_fst_id (root : Frame) (chain : List Frame) (c : Acc) :
    (addTop root chain c).1.id = root.id ∧ (addTop root chain c).1.choice = root.choice := by
  cases chain <;> simp [addTop]

theorem feedR_fst_id (st : Frame × List Frame) (anc : List Anc) (c : Acc) :
    (feedR st anc c).1.id = st.1.id ∧ (feedR st anc c).1.choice = st.1.choice := by
  unfold feedR
  have h1 := reopen_fst_id st.1 st.2 anc
  have h2 := addTop_fst_id (reopen st.1 st.2 anc).1 (reopen st.1 st.2 anc).2 c
  exact ⟨h2.1.trans h1.1, h2.2.trans h1.2⟩

/-- Feeding a list of (relative ancestry, contribution) pairs to the local machine. -/
def feedAll (st : Frame × List Frame) (ls : List (List Anc × Acc)) : Frame × List Frame :=
  ls.foldl (fun st l => feedR st l.1 l.2) st

theorem feedAll_fst_id (st : Frame × List Frame) (ls : List (List Anc × Acc)) :
    (feedAll st ls).1.id = st.1.id ∧ (feedAll st ls).1.choice = st.1.choice := by
  induction ls generalizing st with
  | nil => simp [feedAll]
  | cons l ls ih =>
    have := ih (feedR st l.1 l.2)
    have h := feedR_fst_id st l.1 l.2
    simp only [feedAll, List.foldl] at this ⊢
    exact ⟨this.1.trans h.1, this.2.trans h.2⟩

/-- Peel: a leaf whose ancestry starts with the id of the first open frame is fed inside it. -/
theorem feedR_peel (root f : Frame) (fs : List Frame) (a : Anc) (as : List Anc) (c : Acc)
    (h : f.id = some a.id) :
    feedR (root, f :: fs) (a :: as) c = (root, (feedR (f, fs) as c).1 :: (feedR (f, fs) as c).2) := by
  simp [feedR, reopen, h, addTop]

theorem feedAll_peel (root f : Frame) (fs : List Frame) (a : Anc) (ls : List (List Anc × Acc))
    (h : f.id = some a.id) :
    feedAll (root, f :: fs) (ls.map fun l => (a :: l.1, l.2)) =
      (root, (feedAll (f, fs) ls).1 :: (feedAll (f, fs) ls).2) := by
  induction ls generalizing f fs with
  | nil => simp [feedAll]
  | cons l ls ih =>
    simp only [List.map, feedAll, List.foldl]
    rw [feedR_peel root f fs a l.1 l.2 h]
    have hid : (feedR (f, fs) l.1 l.2).1.id = some a.id := by
      rw [(feedR_fst_id (f, fs) l.1 l.2).1]; exact h
    have := ih (feedR (f, fs) l.1 l.2).1 (feedR (f, fs) l.1 l.2).2 hid
    simp only [feedAll] at this
    exact this

/-- Fresh start: the first open frame (if any) is not the leaf's outermost container. -/
def headFresh (chain : List Frame) (i : Nat) : Prop := ∀ g, chain.head? = some g → g.id ≠ some i

theorem feedR_fresh (root : Frame) (chain : List Frame) (a : Anc) (as : List Anc) (c : Acc)
    (h : headFresh chain a.id) :
    feedR (root, chain) (a :: as) c =
      (closeChain root chain, (feedR (fresh a, []) as c).1 :: (feedR (fresh a, []) as c).2) := by
  cases chain with
  | nil => simp [feedR, reopen, closeChain, addTop]
  | cons f fs =>
    have hne : f.id ≠ some a.id := h f rfl
    simp [feedR, reopen, hne, closeChain, addTop]

end Suds.ArgParser
