import SudsModel.Xml.Prefix
namespace Suds.Xml

theorem lookup_dictSet_same (t : Table) (p u : String) (h : lookup p t = none) : lookup p (dictSet t p u) = some u := by
  have hany : (t.any fun kv => kv.1 == p) = false := by
    simp only [lookup] at h
    cases hf : t.find? (fun kv => kv.1 == p) with
    | some x => simp [hf] at h
    | none => simpa [List.find?_eq_none] using hf
  simp [dictSet, hany, lookup, List.find?_append]
  cases hf : t.find? (fun kv => kv.1 == p) with
  | some x => simp [lookup, hf] at h
  | none => simp

theorem lookup_dictSet_other (t : Table) (p q u : String) (h : lookup p t = none) (hq : q ≠ p) :
    lookup q (dictSet t p u) = lookup q t := by
  have hany : (t.any fun kv => kv.1 == p) = false := by
    simp only [lookup] at h
    cases hf : t.find? (fun kv => kv.1 == p) with
    | some x => simp [hf] at h
    | none => simpa [List.find?_eq_none] using hf
  simp only [dictSet, hany, Bool.false_eq_true, if_false, lookup, List.find?_append]
  cases hf : t.find? (fun kv => kv.1 == q) with
  | some x => simp
  | none =>
    have : ((p, u).1 == q) = false := by simpa using Ne.symm hq
    simp [List.find?_cons, this]

theorem lookup_erase_other (t : Table) (p q : String) (hq : q ≠ p) : lookup q (tableErase p t) = lookup q t := by
  simp only [lookup, tableErase]
  congr 1
  induction t with
  | nil => rfl
  | cons kv rest ih =>
    by_cases hk : kv.1 = p
    · have h1 : (kv.1 != p) = false := by simp [hk]
      have h2 : (kv.1 == q) = false := by rw [hk]; simpa using Ne.symm hq
      simp [List.filter_cons, h1, List.find?_cons, h2, ih]
    · have h1 : (kv.1 != p) = true := by simpa using hk
      simp only [List.filter_cons, h1, if_true, List.find?_cons]
      split <;> simp_all

/-- Resolution of a prefix through a chain of scopes (innermost first). -/
theorem resolveUp_cons (p : String) (m : Table) (e : Option String) (rest : Ctx) :
    resolvePrefix.resolveUp p ((m, e) :: rest) =
      match lookup p m with | some u => some u | none => resolvePrefix.resolveUp p rest := by
  simp only [resolvePrefix.resolveUp]
  cases lookup p m <;> rfl

/-- **Hoisting a declaration `p ↦ u` into a parent captures nothing**: if the parent has no own
binding of `p` and inherits none or the same one, every prefix that resolved somewhere below the
parent (through any inner scopes `inner`) still resolves to the same namespace. -/
theorem hoist_keeps_other_uses (p u : String) (T : Table) (e : Option String) (gamma inner : Ctx)
    (hT : lookup p T = none)
    (hin : resolvePrefix.resolveUp p gamma = none ∨ resolvePrefix.resolveUp p gamma = some u)
    (q v : String)
    (h : resolvePrefix.resolveUp q (inner ++ (T, e) :: gamma) = some v) :
    resolvePrefix.resolveUp q (inner ++ (dictSet T p u, e) :: gamma) = some v := by
  induction inner with
  | nil =>
    simp only [List.nil_append, resolveUp_cons] at h ⊢
    by_cases hq : q = p
    · subst hq
      rw [hT] at h
      rw [lookup_dictSet_same T q u hT]
      simp only at h ⊢
      rcases hin with hin | hin
      · rw [hin] at h; simp at h
      · rw [hin] at h; exact h
    · rw [lookup_dictSet_other T p q u hT hq]; exact h
  | cons s inner ih =>
    obtain ⟨m, e2⟩ := s
    simp only [List.cons_append, resolveUp_cons] at h ⊢
    cases hl : lookup q m with
    | some x => simp [hl] at h ⊢; exact h
    | none => simp only [hl] at h ⊢; exact ih h

/-- The donor keeps its binding: after `p ↦ u` moved from the child's table into the parent's,
everything resolved at or below the child resolves as before. -/
theorem hoist_keeps_donor_uses (p u : String) (m T : Table) (ec e : Option String) (gamma inner : Ctx)
    (hm : lookup p m = some u) (hT : lookup p T = none) (q v : String)
    (h : resolvePrefix.resolveUp q (inner ++ (m, ec) :: (T, e) :: gamma) = some v) :
    resolvePrefix.resolveUp q (inner ++ (tableErase p m, ec) :: (dictSet T p u, e) :: gamma) = some v := by
  induction inner with
  | nil =>
    simp only [List.nil_append, resolveUp_cons] at h ⊢
    by_cases hq : q = p
    · subst hq
      rw [hm] at h
      have he : lookup q (tableErase q m) = none := by
        simp [lookup, tableErase, List.find?_filter]
      rw [he, lookup_dictSet_same T q u hT]
      simpa using h
    · rw [lookup_erase_other m p q hq, lookup_dictSet_other T p q u hT hq]; exact h
  | cons s inner ih =>
    obtain ⟨m2, e2⟩ := s
    simp only [List.cons_append, resolveUp_cons] at h ⊢
    cases hl : lookup q m2 with
    | some x => simp [hl] at h ⊢; exact h
    | none => simp only [hl] at h ⊢; exact ih h

end Suds.Xml
