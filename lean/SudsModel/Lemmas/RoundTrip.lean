import SudsModel.Lemmas.Schema
/-! Marshal-then-decode of a flat struct (members with builtin types), for the C02 round-trip theorem. -/
namespace Suds.Schema
open Suds.Xml

/-- one member of a flat struct type with the lexical texts of its occurrences (none = absent) -/
structure FlatField where
  m : Member
  declNs : Nat
  ty : String
  texts : List String

def FlatField.value (ff : FlatField) : Option Val :=
  match ff.texts with
  | [] => none
  | s :: rest => some (if ff.m.unbounded then .list ((s :: rest).map .leaf) else .leaf s)

/-- the value a caller passes -/
def fieldsOf (ffs : List FlatField) : List (String × Val) :=
  ffs.filterMap fun ff => ff.value.map fun v => (ff.m.name, v)

/-- the decoded occurrences -/
def FlatField.group (ff : FlatField) : Group :=
  ⟨pyKey ff.m.name, ff.m.unbounded, ff.texts.map fun s => .text s ff.ty⟩

/-- the elements written for the member -/
def FlatField.kids (env : Env) (ff : FlatField) : List Info :=
  ff.texts.map fun s => .mk (memberNs env ff.m ff.declNs) ff.m.name [] (some s) []

structure FlatOK (ffs : List FlatField) : Prop where
  names : (ffs.map (·.m.name)).Nodup
  keys : (ffs.map fun ff => pyKey ff.m.name).Nodup      -- e.g. not both `class` and `cls`
  builtin : ∀ ff ∈ ffs, ff.m.type = .builtin ff.ty
  single : ∀ ff ∈ ffs, ff.m.unbounded = false → ff.texts.length ≤ 1

theorem flatMap_congr' {α β : Type} (l : List α) (f g : α → List β) (h : ∀ x ∈ l, f x = g x) :
    l.flatMap f = l.flatMap g := by
  induction l with
  | nil => rfl
  | cons a l ih =>
    simp only [List.flatMap_cons]
    rw [h a (by simp), ih (fun x hx => h x (List.mem_cons_of_mem _ hx))]

theorem foldl_congr' {α β : Type} (l : List β) (f g : α → β → α) (a : α) (h : ∀ x ∈ l, ∀ acc, f acc x = g acc x) :
    l.foldl f a = l.foldl g a := by
  induction l generalizing a with
  | nil => rfl
  | cons b l ih =>
    simp only [List.foldl_cons]
    rw [h b (by simp) a, ih _ (fun x hx => h x (List.mem_cons_of_mem _ hx))]

theorem vlookup_absent (k : String) : ∀ (ffs : List FlatField), k ∉ ffs.map (·.m.name) →
    vlookup k (fieldsOf ffs) = none := by
  intro ffs
  induction ffs with
  | nil => intro _; rfl
  | cons b rest ih =>
    intro h
    have hb : b.m.name ≠ k := by
      intro e; exact h (by simp [e])
    have hbb : (b.m.name == k) = false := by simpa using hb
    have hr : k ∉ rest.map (·.m.name) := by
      intro hx; exact h (by simp at hx ⊢; exact Or.inr hx)
    have := ih hr
    cases hbv : b.value with
    | none => simpa [fieldsOf, hbv] using this
    | some v => simpa [fieldsOf, hbv, vlookup, hbb] using this

theorem vlookup_fieldsOf : ∀ (ffs : List FlatField), (ffs.map (·.m.name)).Nodup → ∀ ff ∈ ffs,
    vlookup ff.m.name (fieldsOf ffs) = ff.value := by
  intro ffs
  induction ffs with
  | nil => intro _ ff h; simp at h
  | cons a rest ih =>
    intro hn ff hff
    have hn' : a.m.name ∉ rest.map (·.m.name) ∧ (rest.map (·.m.name)).Nodup :=
      List.nodup_cons.mp (by simpa using hn)
    rcases List.mem_cons.mp hff with e | e
    · subst e
      cases hv : ff.value with
      | none =>
        have hrest := vlookup_absent ff.m.name rest hn'.1
        simpa [fieldsOf, hv] using hrest
      | some v => simp [fieldsOf, hv, vlookup]
    · have hne : a.m.name ≠ ff.m.name := by
        intro e'; exact hn'.1 (List.mem_map.mpr ⟨ff, e, e'.symm⟩)
      have hb : (a.m.name == ff.m.name) = false := by simpa using hne
      have := ih hn'.2 ff e
      cases hav : a.value with
      | none => simpa [fieldsOf, hav] using this
      | some v => simpa [fieldsOf, hav, vlookup, hb] using this

theorem find_by_name : ∀ (ffs : List FlatField), (ffs.map (·.m.name)).Nodup → ∀ ff ∈ ffs,
    (ffs.map fun x => (x.m, x.declNs)).find? (fun md => md.1.name == ff.m.name) = some (ff.m, ff.declNs) := by
  intro ffs
  induction ffs with
  | nil => intro _ ff h; simp at h
  | cons a rest ih =>
    intro hn ff hff
    have hn' : a.m.name ∉ rest.map (·.m.name) ∧ (rest.map (·.m.name)).Nodup :=
      List.nodup_cons.mp (by simpa using hn)
    rcases List.mem_cons.mp hff with e | e
    · subst e; simp
    · have hne : a.m.name ≠ ff.m.name := by
        intro e'; exact hn'.1 (List.mem_map.mpr ⟨ff, e, e'.symm⟩)
      have hb : (a.m.name == ff.m.name) = false := by simpa using hne
      simp [List.find?_cons, hb, ih hn'.2 ff e]

theorem marshal_leaves (env : Env) (henc : env.encoded = false) (g : Nat) (n : String) (ns : Option String)
    (ty : String) (nl : Bool) : ∀ (texts : List String),
    (texts.map Val.leaf).flatMap (fun x => marshal env (g + 1) n ns (.builtin ty) nl x) =
      texts.map fun s => Info.mk ns n [] (some s) [] := by
  intro texts
  induction texts with
  | nil => rfl
  | cons s rest ih =>
    simp only [List.map_cons, List.flatMap_cons, ih]
    simp [marshal, encType, henc]

/-- what the marshaller writes for one member of a flat struct -/
theorem marshal_member (env : Env) (henc : env.encoded = false) (g : Nat) (ffs : List FlatField)
    (ok : FlatOK ffs) (ff : FlatField) (hff : ff ∈ ffs) :
    (match vlookup ff.m.name (fieldsOf ffs) with
      | none => []
      | some x => if skipped ff.m x then [] else
          marshal env (g + 2) ff.m.name (memberNs env ff.m ff.declNs) ff.m.type ff.m.nillable x) = ff.kids env := by
  rw [vlookup_fieldsOf ffs ok.names ff hff]
  have hb := ok.builtin ff hff
  unfold FlatField.value FlatField.kids
  cases ht : ff.texts with
  | nil => simp
  | cons s rest =>
    cases hu : ff.m.unbounded with
    | true =>
      simp only [hu, if_true, skipped, Val.skippable, List.map_cons, Bool.false_and, Bool.false_eq_true, if_false, hb]
      have := marshal_leaves env henc g ff.m.name (memberNs env ff.m ff.declNs) ff.ty ff.m.nillable (s :: rest)
      simpa [marshal] using this
    | false =>
      have hl : rest = [] := by
        have := ok.single ff hff hu
        rw [ht] at this
        simpa using this
      subst hl
      simp [hu, skipped, Val.skippable, hb, marshal, encType, henc]

/-- the request element of a flat struct -/
theorem marshal_flat (env : Env) (henc : env.encoded = false) (g : Nat) (name : String) (ns : Option String)
    (k : Key) (ffs : List FlatField) (ok : FlatOK ffs)
    (hm : members env (env.types.length + 1) k = ffs.map fun ff => (ff.m, ff.declNs))
    (ha : attrsOf env (env.types.length + 1) k = []) :
    marshal env (g + 3) name ns (.complex k) false (.obj none (fieldsOf ffs)) =
      [.mk ns name [] none (ffs.flatMap (FlatField.kids env))] := by
  rw [marshal_obj]
  have hkids : (members env (env.types.length + 1) ((none : Option Key).getD k)).flatMap (emit env (g + 2) (fieldsOf ffs)) =
      ffs.flatMap (FlatField.kids env) := by
    simp only [Option.getD_none, hm, List.flatMap_map]
    exact flatMap_congr' ffs _ _ (fun ff hff => marshal_member env henc g ffs ok ff hff)
  rw [hkids]
  simp [henc, ha]

def pairsOf (ffs : List FlatField) : List (FlatField × String) :=
  ffs.flatMap fun ff => ff.texts.map fun s => (ff, s)

theorem mem_pairsOf {ffs : List FlatField} {p : FlatField × String} (h : p ∈ pairsOf ffs) : p.1 ∈ ffs := by
  obtain ⟨ff, hff, hp⟩ := List.mem_flatMap.mp h
  obtain ⟨s, _, e⟩ := List.mem_map.mp hp
  subst e; exact hff

/-- decoding the written children files exactly the members' occurrences -/
theorem decode_flat (env : Env) (f : Nat) (name : String) (ns : Option String) (k : Key)
    (ffs : List FlatField) (ok : FlatOK ffs)
    (hm : members env (env.types.length + 1) k = ffs.map fun ff => (ff.m, ff.declNs))
    (ha : attrsOf env (env.types.length + 1) k = []) :
    decode env (f + 2) (.complex k) false (.mk ns name [] none (ffs.flatMap (FlatField.kids env))) =
      postprocess k.2 (ffs.flatMap fun ff => ff.group.entry) false
        (!(ffs.flatMap (FlatField.kids env)).isEmpty) none false "" := by
  have hk : ffs.flatMap (FlatField.kids env) =
      (pairsOf ffs).map fun p => Info.mk (memberNs env p.1.m p.1.declNs) p.1.m.name [] (some p.2) [] := by
    simp only [pairsOf, List.map_flatMap, List.map_map, Function.comp_def]
    rfl
  have ht : (ffs.map FlatField.group).flatMap Group.triples =
      (pairsOf ffs).map fun p => (pyKey p.1.m.name, p.1.m.unbounded, Py.text p.2 p.1.ty) := by
    simp [pairsOf, FlatField.group, Group.triples, List.map_flatMap, List.flatMap_map, Function.comp_def]
  have hfold := groups_fold (ffs.map FlatField.group) []
    (by simpa [FlatField.group, Function.comp_def] using ok.keys)
    (by intro g _; rfl)
    (by
      intro g hg v hv
      obtain ⟨ff, _, e⟩ := List.mem_map.mp hg
      subst e
      obtain ⟨s, _, e2⟩ := List.mem_map.mp hv
      subst e2; trivial)
    (by
      intro g hg hmul
      obtain ⟨ff, hff, e⟩ := List.mem_map.mp hg
      subst e
      simpa [FlatField.group] using ok.single ff hff hmul)
  rw [ht] at hfold
  simp only [List.nil_append, List.flatMap_map] at hfold
  simp only [decode, typeAttr, List.find?_nil, Option.bind_none, ha, hm, List.filterMap_nil, isNil, List.any_nil]
  congr 1
  rw [hk, List.foldl_map, ← hfold, List.foldl_map]
  apply foldl_congr'
  intro p hp acc
  have hff := mem_pairsOf hp
  simp only [find_by_name ffs ok.names p.1 hff, ok.builtin p.1 hff, step]
  simp [decode, typeAttr, postprocess, isNil]

end Suds.Schema
