import SudsModel.Xml.Edit
namespace Suds.Xml

/-! ### Specification of "remove the node named `c`": erase it wherever it is -/
mutual
  def Elem.erase (c : Nat) : Elem → Elem
    | .mk j p n e m a t kids => .mk j p n e m a t (eraseKids c kids)
  def eraseKids (c : Nat) : List Elem → List Elem
    | [] => []
    | k :: ks => if k.id = c then eraseKids c ks else k.erase c :: eraseKids c ks
end

theorem ids_cons (k : Elem) : k.ids = k.id :: idsKids k.kids := by
  cases k; simp [Elem.ids, Elem.id, Elem.kids]

mutual
theorem erase_notin (c : Nat) : (e : Elem) → c ∉ idsKids e.kids → e.erase c = e
  | .mk j p n x m a t kids, h => by
    simp only [Elem.erase, Elem.kids] at h ⊢
    rw [eraseKids_notin c kids h]
theorem eraseKids_notin (c : Nat) : (kids : List Elem) → c ∉ idsKids kids → eraseKids c kids = kids
  | [], _ => rfl
  | k :: ks, h => by
    simp only [idsKids, List.mem_append, not_or] at h
    have hk : k.id ≠ c := by
      intro he; apply h.1; rw [ids_cons]; simp [he]
    have hkk : c ∉ idsKids k.kids := by
      intro hm; apply h.1; rw [ids_cons]; simp [hm]
    simp only [eraseKids, hk, if_false]
    rw [erase_notin c k hkk, eraseKids_notin c ks h.2]
end

mutual
theorem cut_notin (c : Nat) : (e : Elem) → c ∉ idsKids e.kids → e.cut c = (e, none)
  | .mk j p n x m a t kids, h => by
    simp only [Elem.cut, Elem.kids] at h ⊢
    rw [cutKids_notin c kids h]
theorem cutKids_notin (c : Nat) : (kids : List Elem) → c ∉ idsKids kids → cutKids c kids = (kids, none)
  | [], _ => rfl
  | k :: ks, h => by
    simp only [idsKids, List.mem_append, not_or] at h
    have hk : k.id ≠ c := by
      intro he; apply h.1; rw [ids_cons]; simp [he]
    have hkk : c ∉ idsKids k.kids := by
      intro hm; apply h.1; rw [ids_cons]; simp [hm]
    simp only [cutKids, hk, if_false]
    rw [cut_notin c k hkk, cutKids_notin c ks h.2]
end

mutual
theorem find_notin (c : Nat) : (e : Elem) → c ∉ e.ids → e.find c = none
  | .mk j p n x m a t kids, h => by
    simp only [Elem.ids, List.mem_cons, not_or] at h
    simp only [Elem.find, Ne.symm h.1, if_false]
    exact findKids_notin c kids h.2
theorem findKids_notin (c : Nat) : (kids : List Elem) → c ∉ idsKids kids → findKids c kids = none
  | [], _ => rfl
  | k :: ks, h => by
    simp only [idsKids, List.mem_append, not_or] at h
    simp only [findKids, find_notin c k h.1, findKids_notin c ks h.2]
end

mutual
theorem find_some_of_mem (c : Nat) : (e : Elem) → c ∈ e.ids → (e.find c).isSome = true
  | .mk j p n x m a t kids, h => by
    simp only [Elem.ids, List.mem_cons] at h
    simp only [Elem.find]
    by_cases hj : j = c
    · simp [hj]
    · simp only [hj, if_false]
      rcases h with h | h
      · exact absurd h.symm hj
      · exact findKids_some_of_mem c kids h
theorem findKids_some_of_mem (c : Nat) : (kids : List Elem) → c ∈ idsKids kids → (findKids c kids).isSome = true
  | [], h => by simp [idsKids] at h
  | k :: ks, h => by
    simp only [idsKids, List.mem_append] at h
    simp only [findKids]
    rcases h with h | h
    · have := find_some_of_mem c k h
      cases hf : k.find c with
      | none => simp [hf] at this
      | some r => simp
    · cases hf : k.find c with
      | none => simpa using findKids_some_of_mem c ks h
      | some r => simp
end

mutual
/-- `child.detach()` (first identical node, search stops) = erase the node named `c`, and the
detached subtree is that node — whenever identities are unique. -/
theorem cut_eq_erase (c : Nat) : (e : Elem) → e.ids.Nodup →
    (e.cut c).1 = e.erase c ∧ (e.cut c).2 = findKids c e.kids
  | .mk j p n x m a t kids, h => by
    simp only [Elem.ids, List.nodup_cons] at h
    have := cutKids_eq_erase c kids h.2
    simp only [Elem.cut, Elem.erase, Elem.kids, this.1, this.2, and_self]
theorem cutKids_eq_erase (c : Nat) : (kids : List Elem) → (idsKids kids).Nodup →
    (cutKids c kids).1 = eraseKids c kids ∧ (cutKids c kids).2 = findKids c kids
  | [], _ => by simp [cutKids, eraseKids, findKids]
  | k :: ks, h => by
    simp only [idsKids, List.nodup_append] at h
    obtain ⟨hk, hks, hdisj⟩ := h
    by_cases hkc : k.id = c
    · -- found here: nothing else carries the identity
      have hnot : c ∉ idsKids ks := by
        intro hm
        exact hdisj c (by rw [ids_cons]; simp [hkc]) c hm rfl
      have hfind : k.find c = some k := by
        cases k; simp_all [Elem.find, Elem.id]
      simp only [cutKids, hkc, if_true, eraseKids, findKids, hfind]
      exact ⟨(eraseKids_notin c ks hnot).symm, trivial⟩
    · simp only [cutKids, hkc, if_false, eraseKids, findKids]
      have ih := cut_eq_erase c k hk
      have hfk : k.find c = findKids c k.kids := by
        cases k; simp_all [Elem.find, Elem.id, Elem.kids]
      by_cases hin : c ∈ idsKids k.kids
      · -- inside the first child
        have hnot : c ∉ idsKids ks := by
          intro hm
          exact hdisj c (by rw [ids_cons]; simp [hin]) c hm rfl
        have hsome := findKids_some_of_mem c k.kids hin
        rw [← ih.2] at hsome
        cases hr : (k.cut c).2 with
        | none => simp [hr] at hsome
        | some x =>
          simp only [hr]
          rw [← ih.1, eraseKids_notin c ks hnot, hfk, ← ih.2, hr]
          exact ⟨rfl, rfl⟩
      · have hc := cut_notin c k hin
        have ih2 := cutKids_eq_erase c ks hks
        rw [hc]
        simp only
        rw [erase_notin c k hin, hfk, findKids_notin c k.kids hin, ih2.1, ih2.2]
        exact ⟨rfl, rfl⟩
end

theorem mem_ids_of_mem (x : Elem) (ks : List Elem) (hx : x ∈ ks) : x.id ∈ idsKids ks := by
  induction ks with
  | nil => simp at hx
  | cons y ys ih =>
    simp only [idsKids, List.mem_append]
    rcases List.mem_cons.mp hx with rfl | h
    · left; rw [ids_cons]; simp
    · right; exact ih h

/-- Removing a direct child: exactly that child leaves the list; every sibling (same-named or
not) stays, unchanged and in order. -/
theorem eraseKids_direct (c : Nat) (kids : List Elem) (h : (idsKids kids).Nodup)
    (hc : ∃ k ∈ kids, k.id = c) : eraseKids c kids = kids.filter (fun k => k.id != c) := by
  induction kids with
  | nil => rfl
  | cons k ks ih =>
    simp only [idsKids, List.nodup_append] at h
    obtain ⟨hk, hks, hdisj⟩ := h
    by_cases hkc : k.id = c
    · have hnot : c ∉ idsKids ks := by
        intro hm; exact hdisj c (by rw [ids_cons]; simp [hkc]) c hm rfl
      have hall : ∀ x ∈ ks, x.id ≠ c := by
        intro x hx he
        exact hnot (he ▸ mem_ids_of_mem x ks hx)
      simp only [eraseKids, hkc, if_true, List.filter_cons, bne_self_eq_false, Bool.false_eq_true, if_false]
      rw [eraseKids_notin c ks hnot]
      exact (List.filter_eq_self.mpr (fun x hx => by simpa using hall x hx)).symm
    · obtain ⟨x, hx, hxc⟩ := hc
      have hxks : x ∈ ks := by
        rcases List.mem_cons.mp hx with rfl | h
        · exact absurd hxc hkc
        · exact h
      have hcin : c ∈ idsKids ks := hxc ▸ mem_ids_of_mem x ks hxks
      have hkk : c ∉ idsKids k.kids := by
        intro hm; exact hdisj c (by rw [ids_cons]; simp [hm]) c hcin rfl
      have hne : (k.id != c) = true := by simpa using hkc
      simp only [eraseKids, hkc, if_false, List.filter_cons, hne, if_true]
      rw [erase_notin c k hkk, ih hks ⟨x, hxks, hxc⟩]

/-! ### prune -/
def Elem.isEmptyAll (e : Elem) : Bool := e.kids.isEmpty && e.text.isNone && e.attrs.isEmpty

/-- `prune()` keeps exactly the children that are non-empty after their own pruning — each judged
on itself, never on a same-named sibling — in order. -/
theorem pruneKids_exact (kids : List Elem) :
    pruneKids kids = (kids.map Elem.prune).filter (fun k => !k.isEmptyAll) := by
  induction kids with
  | nil => rfl
  | cons k ks ih =>
    simp only [pruneKids, List.map_cons, List.filter_cons, Elem.isEmptyAll, ih]
    split <;> simp_all

/-! ### replaceChild: position -/
theorem indexBy_pos (c : Nat) (pre post : List Elem) (x : Elem) (hx : x.id = c)
    (hpre : ∀ y ∈ pre, y.id ≠ c) : indexBy (·.id == c) (pre ++ x :: post) = some pre.length := by
  induction pre with
  | nil => simp [indexBy, hx]
  | cons y ys ih =>
    have hy : (y.id == c) = false := by simpa using hpre y (by simp)
    simp only [List.cons_append, indexBy, hy, Bool.false_eq_true, if_false, List.length_cons]
    rw [ih (fun z hz => hpre z (by simp [hz]))]
    rfl

def insStep (acc : List Elem × Nat) (x : Elem) : List Elem × Nat := (insertAt acc.1 acc.2 x, acc.2 + 1)

/-- Inserting the content nodes at `index`, `index + 1`, … puts them, in order, exactly where the
replaced child was. -/
theorem insert_seq (pre post content : List Elem) :
    content.foldl insStep (pre ++ post, pre.length) = (pre ++ content ++ post, pre.length + content.length) := by
  induction content generalizing pre with
  | nil => simp
  | cons x xs ih =>
    have h1 : (pre ++ post).take pre.length = pre := by simp
    have h2 : (pre ++ post).drop pre.length = post := by simp
    have hstep : insStep (pre ++ post, pre.length) x = ((pre ++ [x]) ++ post, (pre ++ [x]).length) := by
      simp [insStep, insertAt, h1, h2]
    rw [List.foldl_cons, hstep, ih (pre ++ [x])]
    simp [Nat.add_assoc, Nat.add_comm 1]

/-! ### clone: fresh, contiguous identities -/
mutual
theorem clone_ids (ctx : Ctx) (next : Nat) : (e : Elem) →
    (e.clone ctx next).1.ids = List.range' next e.size ∧ (e.clone ctx next).2 = next + e.size
  | .mk j p n x m a t kids => by
    have := cloneKids_ids ((m, x) :: ctx) (next + 1) kids
    simp only [Elem.clone, Elem.ids, Elem.size, this.1, this.2]
    refine ⟨?_, by omega⟩
    rw [Nat.add_comm 1 (sizeKids kids), List.range'_succ]
theorem cloneKids_ids (ctx : Ctx) (next : Nat) : (kids : List Elem) →
    idsKids (cloneKids ctx next kids).1 = List.range' next (sizeKids kids)
    ∧ (cloneKids ctx next kids).2 = next + sizeKids kids
  | [] => by simp [cloneKids, idsKids, sizeKids]
  | k :: ks => by
    have h1 := clone_ids ctx next k
    have h2 := cloneKids_ids ctx (k.clone ctx next).2 ks
    rw [h1.2] at h2
    simp only [cloneKids, idsKids, sizeKids, h1.1, h1.2, h2.1, h2.2]
    refine ⟨?_, by omega⟩
    rw [← List.range'_append_1]
end

end Suds.Xml
