import SudsModel.Options
namespace Suds.Options
open Suds.Gen

/-- No option name is defined in both domains (over the generated tables). -/
theorem domains_disjoint :
    ∀ d ∈ clientOptionDefs, ∀ e ∈ transportOptionDefs, d.name ≠ e.name := by decide

theorem node_modify_self (w : World) (n : Nat) (f : Node → Node) (h : n < w.length) :
    (modifyNode w n f).node n = f (w.node n) := by
  simp [World.node, modifyNode, List.getD, h]

theorem node_modify_other (w : World) (n m : Nat) (f : Node → Node) (h : m ≠ n) :
    (modifyNode w n f).node m = w.node m := by
  simp only [World.node, modifyNode, List.getD]
  by_cases hm : m < w.length
  · simp [hm, h]
  · simp [hm]

theorem length_modify (w : World) (n : Nat) (f : Node → Node) : (modifyNode w n f).length = w.length := by
  simp [modifyNode]

/-- The provider search looks only at domains and links. -/
theorem findProv_congr (w w' : World) (name : String)
    (h : ∀ i, (w'.node i).domain = (w.node i).domain ∧ (w'.node i).links = (w.node i).links) :
    ∀ fuel n path, findProv w' name fuel n path = findProv w name fuel n path := by
  intro fuel
  induction fuel with
  | zero => intro n path; rfl
  | succ fuel ih =>
    intro n path
    simp only [findProv, defines, (h n).1, (h n).2]
    have : (fun x => findProv w' name fuel x (n :: path)) = (fun x => findProv w name fuel x (n :: path)) := by
      funext x; exact ih x (n :: path)
    rw [this]
    by_cases hc : ((defsOf (w.node n).domain).any fun x => x.name == name) = true <;> simp [hc]

theorem provider_congr (w w' : World) (name : String) (n : Nat) (hl : w'.length = w.length)
    (h : ∀ i, (w'.node i).domain = (w.node i).domain ∧ (w'.node i).links = (w.node i).links) :
    provider w' n name = provider w n name := by
  simp [provider, hl, findProv_congr w w' name h]

theorem relink_not_attr (w1 : World) (p : Nat) (prev next : Val) :
    (relink w1 p prev next).2 ≠ some .attributeError := by
  unfold relink
  simp only
  split
  · split <;> simp
  · simp

/-- **Invalid assignments have no effect**: an unknown option name or a value of the wrong type
raises AttributeError and leaves every property set exactly as it was (validation precedes the
store), from whichever entry point the assignment is made. -/
theorem invalid_set_is_noop (w : World) (n : Nat) (name : String) (v : Val)
    (h : (set w n name v).2 = some .attributeError) : (set w n name v).1 = w := by
  unfold set at h ⊢
  simp only at h ⊢
  cases hd : lookupDef (w.node (provider w n name)).domain name with
  | none => simp
  | some d =>
    simp only [hd] at h ⊢
    by_cases hacc : accepts d v = true
    · simp only [hacc, Bool.not_true, Bool.false_eq_true, if_false] at h ⊢
      by_cases hl : d.linker = ""
      · simp [hl] at h
      · simp only [hl, if_false] at h
        exact absurd h (relink_not_attr _ _ _ _)
    · simp [hacc]

/-- … and they are exactly the assignments of an unknown name or of a value of the wrong type. -/
theorem set_rejected_iff (w : World) (n : Nat) (name : String) (v : Val) :
    (set w n name v).2 = some .attributeError ↔
      (match lookupDef (w.node (provider w n name)).domain name with
       | none => True
       | some d => accepts d v = false) := by
  unfold set
  simp only
  cases hd : lookupDef (w.node (provider w n name)).domain name with
  | none => simp
  | some d =>
    simp only
    by_cases hacc : accepts d v = true
    · simp only [hacc, Bool.not_true, Bool.false_eq_true, if_false]
      by_cases hl : d.linker = ""
      · simp [hl]
      · simp only [hl, if_false]
        constructor
        · intro h; exact absurd h (relink_not_attr _ _ _ _)
        · intro h; simp at h
    · simp [hacc]

/-! ### reads return the last value assigned -/

def Node.keysOK (n : Node) : Prop := n.values.map (·.1) = (defsOf n.domain).map (·.name)

theorem newNode_keysOK (d : Domain) : (newNode d).keysOK := by
  simp [Node.keysOK, newNode, List.map_map, Function.comp_def]

theorem setValue_keys (vals : List (String × Val)) (name : String) (v : Val) :
    (setValue vals name v).map (·.1) = vals.map (·.1) := by
  induction vals with
  | nil => rfl
  | cons kv rest ih =>
    obtain ⟨k, x⟩ := kv
    simp only [setValue]
    split <;> simp [ih]

theorem getValue_setValue_same (vals : List (String × Val)) (name : String) (v : Val)
    (h : name ∈ vals.map (·.1)) : getValue (setValue vals name v) name = v := by
  induction vals with
  | nil => simp at h
  | cons kv rest ih =>
    obtain ⟨k, x⟩ := kv
    simp only [setValue]
    by_cases hk : k = name
    · simp [hk, getValue]
    · have hin : name ∈ rest.map (·.1) := by
        simp only [List.map_cons, List.mem_cons] at h
        rcases h with h | h
        · exact absurd h.symm hk
        · exact h
      simp [hk, getValue, ih hin]

theorem getValue_setValue_other (vals : List (String × Val)) (name other : String) (v : Val)
    (h : other ≠ name) : getValue (setValue vals name v) other = getValue vals other := by
  induction vals with
  | nil => rfl
  | cons kv rest ih =>
    obtain ⟨k, x⟩ := kv
    simp only [setValue]
    by_cases hk : k = name
    · have : k ≠ other := by rw [hk]; exact Ne.symm h
      simp [hk, getValue, ih, Ne.symm h]
    · by_cases ho : k = other
      · subst ho; simp [h, getValue]
      · simp [hk, getValue, ho, ih]

theorem store_shape (w : World) (p : Nat) (name : String) (v : Val) :
    ∀ i, ((store w p name v).node i).domain = (w.node i).domain ∧
         ((store w p name v).node i).links = (w.node i).links := by
  intro i
  unfold store
  by_cases hi : i = p
  · subst hi
    by_cases hl : i < w.length
    · rw [node_modify_self w i _ hl]; exact ⟨rfl, rfl⟩
    · simp [World.node, modifyNode, List.getD, hl]
  · rw [node_modify_other w p i _ hi]; exact ⟨rfl, rfl⟩

theorem provider_store (w : World) (p : Nat) (name : String) (v : Val) (n : Nat) (nm : String) :
    provider (store w p name v) n nm = provider w n nm :=
  provider_congr w _ nm n (by simp [store, length_modify]) (store_shape w p name v)

theorem lookupDef_mem {dom : Domain} {name : String} {d : OptDef} (h : lookupDef dom name = some d) :
    name ∈ (defsOf dom).map (·.name) := by
  unfold lookupDef at h
  have hm := List.mem_of_find?_eq_some h
  have hp := List.find?_some h
  simp only [beq_iff_eq] at hp
  exact List.mem_map.mpr ⟨d, hm, hp⟩

/-- **A valid assignment is what is read back** — through the entry point it was made from, with
`None` turned into the declared default. (Every option but `transport`, whose assignment also
re-links; see `transport_set_get`.) -/
theorem set_get (w : World) (n : Nat) (name : String) (v : Val) (d : OptDef)
    (hp : provider w n name < w.length)
    (hd : lookupDef (w.node (provider w n name)).domain name = some d)
    (hl : d.linker = "") (hacc : accepts d v = true) (hk : (w.node (provider w n name)).keysOK) :
    (set w n name v).2 = none ∧
    get (set w n name v).1 n name = .ok (if v.isNone then defaultVal d else v) := by
  have hset : set w n name v = (store w (provider w n name) name (if v.isNone then defaultVal d else v), none) := by
    unfold set; simp [hd, hacc, hl]
  rw [hset]
  refine ⟨rfl, ?_⟩
  unfold get
  simp only [provider_store]
  have hnode : (store w (provider w n name) name (if v.isNone then defaultVal d else v)).node (provider w n name)
      = { (w.node (provider w n name)) with
          values := setValue (w.node (provider w n name)).values name (if v.isNone then defaultVal d else v) } := by
    unfold store; rw [node_modify_self w _ _ hp]
  rw [hnode]
  simp only [hd]
  rw [getValue_setValue_same]
  rw [hk]; exact lookupDef_mem hd

/-- … and no other option changes, whoever reads it. -/
theorem set_frame (w : World) (n : Nat) (name : String) (v : Val) (d : OptDef)
    (hd : lookupDef (w.node (provider w n name)).domain name = some d)
    (hl : d.linker = "") (hacc : accepts d v = true) (m : Nat) (other : String) (ho : other ≠ name) :
    get (set w n name v).1 m other = get w m other := by
  have hset : set w n name v = (store w (provider w n name) name (if v.isNone then defaultVal d else v), none) := by
    unfold set; simp [hd, hacc, hl]
  rw [hset]
  unfold get
  simp only [provider_store]
  have hdom := (store_shape w (provider w n name) name (if v.isNone then defaultVal d else v) (provider w m other)).1
  rw [hdom]
  cases hld : lookupDef (w.node (provider w m other)).domain other with
  | none => rfl
  | some d2 =>
    simp only
    congr 1
    unfold store
    by_cases hq : provider w m other = provider w n name
    · rw [hq]
      by_cases hlt : provider w n name < w.length
      · rw [node_modify_self w _ _ hlt]
        exact getValue_setValue_other _ _ _ _ ho
      · simp [World.node, modifyNode, List.getD, hlt]
    · rw [node_modify_other w _ _ _ hq]

/-! ### a client and its transport: the two linked property sets -/

structure Star (w : World) (c t : Nat) : Prop where
  dc : (w.node c).domain = .client
  dt : (w.node t).domain = .transport
  lc : (w.node c).links = [t]
  lt : (w.node t).links = [c]
  ne : c ≠ t
  hc : c < w.length
  ht : t < w.length

def isClientOpt (name : String) : Bool := clientOptionDefs.any (·.name == name)
def isTransportOpt (name : String) : Bool := transportOptionDefs.any (·.name == name)

theorem provider_star_client (w : World) (c t : Nat) (h : Star w c t) (name : String) :
    provider w c name = if isClientOpt name then c else if isTransportOpt name then t else c := by
  have hlen : ∃ k, w.length + 1 = k + 2 := ⟨w.length - 1, by have := h.hc; omega⟩
  obtain ⟨k, hk⟩ := hlen
  unfold provider
  rw [hk]
  simp only [findProv, defines, h.dc, defsOf, h.lc, List.foldl, provStep]
  by_cases h1 : isClientOpt name = true
  · simp only [isClientOpt] at h1; simp [h1, isClientOpt]
  · have h1' : (clientOptionDefs.any fun x => x.name == name) = false := by simpa [isClientOpt] using h1
    have hnot : ([c].contains t) = false := by simp [Ne.symm h.ne]
    simp only [h1', isClientOpt, Bool.false_eq_true, if_false, hnot]
    cases k with
    | zero => have := h.hc; have := h.ht; have := h.ne; omega
    | succ k =>
      simp only [findProv, defines, h.dt, defsOf, h.lt, List.foldl, provStep]
      by_cases h2 : isTransportOpt name = true
      · simp only [isTransportOpt] at h2; simp [h2, isTransportOpt]
      · have h2' : (transportOptionDefs.any fun x => x.name == name) = false := by simpa [isTransportOpt] using h2
        simp [h2', isTransportOpt]

theorem provider_star_transport (w : World) (c t : Nat) (h : Star w c t) (name : String) :
    provider w t name = if isTransportOpt name then t else if isClientOpt name then c else t := by
  have hlen : ∃ k, w.length + 1 = k + 2 := ⟨w.length - 1, by have := h.hc; omega⟩
  obtain ⟨k, hk⟩ := hlen
  unfold provider
  rw [hk]
  simp only [findProv, defines, h.dt, defsOf, h.lt, List.foldl, provStep]
  by_cases h1 : isTransportOpt name = true
  · simp only [isTransportOpt] at h1; simp [h1, isTransportOpt]
  · have h1' : (transportOptionDefs.any fun x => x.name == name) = false := by simpa [isTransportOpt] using h1
    have hnot : ([t].contains c) = false := by simp [h.ne]
    simp only [h1', isTransportOpt, Bool.false_eq_true, if_false, hnot]
    cases k with
    | zero => have := h.hc; have := h.ht; have := h.ne; omega
    | succ k =>
      simp only [findProv, defines, h.dc, defsOf, h.lc, List.foldl, provStep]
      by_cases h2 : isClientOpt name = true
      · simp only [isClientOpt] at h2; simp [h2, isClientOpt]
      · have h2' : (clientOptionDefs.any fun x => x.name == name) = false := by simpa [isClientOpt] using h2
        simp [h2', isClientOpt]

/-- Whoever is asked — the client's options or its transport's — the same property set answers. -/
theorem same_provider (w : World) (c t : Nat) (h : Star w c t) (name : String)
    (hk : isClientOpt name = true ∨ isTransportOpt name = true) :
    provider w c name = provider w t name := by
  rw [provider_star_client w c t h, provider_star_transport w c t h]
  have hdis : ¬ (isClientOpt name = true ∧ isTransportOpt name = true) := by
    intro ⟨h1, h2⟩
    simp only [isClientOpt, isTransportOpt, List.any_eq_true, beq_iff_eq] at h1 h2
    obtain ⟨d, hd, hdn⟩ := h1
    obtain ⟨e, he, hen⟩ := h2
    exact domains_disjoint d hd e he (hdn.trans hen.symm)
  rcases hk with hk | hk
  · have : isTransportOpt name = false := by
      cases ht : isTransportOpt name with
      | false => rfl
      | true => exact absurd ⟨hk, ht⟩ hdis
    simp [hk, this]
  · have : isClientOpt name = false := by
      cases hc : isClientOpt name with
      | false => rfl
      | true => exact absurd ⟨hc, hk⟩ hdis
    simp [hk, this]

/-- Two clients (each with its own transport) whose property sets are distinct: whatever is
asked of one is answered inside its own pair. -/
theorem provider_in_star (w : World) (c t : Nat) (h : Star w c t) (name : String) :
    (provider w c name = c ∨ provider w c name = t) ∧ (provider w t name = c ∨ provider w t name = t) := by
  rw [provider_star_client w c t h, provider_star_transport w c t h]
  constructor
  · split
    · exact Or.inl rfl
    · split
      · exact Or.inr rfl
      · exact Or.inl rfl
  · split
    · exact Or.inr rfl
    · split
      · exact Or.inl rfl
      · exact Or.inr rfl

theorem get_store_other_node (w : World) (p : Nat) (name : String) (v : Val) (m : Nat) (other : String)
    (hq : provider w m other ≠ p) : get (store w p name v) m other = get w m other := by
  unfold get
  simp only [provider_store]
  have hdom := (store_shape w p name v (provider w m other)).1
  rw [hdom]
  cases hld : lookupDef (w.node (provider w m other)).domain other with
  | none => rfl
  | some d2 =>
    simp only
    unfold store
    rw [node_modify_other w _ _ _ hq]

/-- **Options are private to a client**: an assignment made through one client (or its transport)
changes nothing that another client (or that client's transport) reads — for any option,
including the same one, in both directions. -/
theorem clients_independent (w : World) (c1 t1 c2 t2 : Nat) (h1 : Star w c1 t1) (h2 : Star w c2 t2)
    (hd1 : c1 ≠ c2) (hd2 : c1 ≠ t2) (hd3 : t1 ≠ c2) (hd4 : t1 ≠ t2)
    (n : Nat) (hn : n = c1 ∨ n = t1) (m : Nat) (hm : m = c2 ∨ m = t2)
    (name : String) (v : Val) (d : OptDef)
    (hd : lookupDef (w.node (provider w n name)).domain name = some d)
    (hl : d.linker = "") (hacc : accepts d v = true) (other : String) :
    get (set w n name v).1 m other = get w m other := by
  have hset : set w n name v = (store w (provider w n name) name (if v.isNone then defaultVal d else v), none) := by
    unfold set; simp [hd, hacc, hl]
  rw [hset]
  apply get_store_other_node
  have p1 := provider_in_star w c1 t1 h1 name
  have p2 := provider_in_star w c2 t2 h2 other
  rcases hn with rfl | rfl <;> rcases hm with rfl | rfl
  · rcases p1.1 with a | a <;> rcases p2.1 with b | b <;> rw [a, b] <;> first | exact Ne.symm hd1 | exact Ne.symm hd3 | exact Ne.symm hd2 | exact Ne.symm hd4
  · rcases p1.1 with a | a <;> rcases p2.2 with b | b <;> rw [a, b] <;> first | exact Ne.symm hd1 | exact Ne.symm hd3 | exact Ne.symm hd2 | exact Ne.symm hd4
  · rcases p1.2 with a | a <;> rcases p2.1 with b | b <;> rw [a, b] <;> first | exact Ne.symm hd1 | exact Ne.symm hd3 | exact Ne.symm hd2 | exact Ne.symm hd4
  · rcases p1.2 with a | a <;> rcases p2.2 with b | b <;> rw [a, b] <;> first | exact Ne.symm hd1 | exact Ne.symm hd3 | exact Ne.symm hd2 | exact Ne.symm hd4

/-- Transport options assigned on the client are the ones its transport reads (and vice versa). -/
theorem transport_option_shared (w : World) (c t : Nat) (h : Star w c t) (name : String) (v : Val) (d : OptDef)
    (hto : isTransportOpt name = true) (hd : lookupDef .transport name = some d) (hl : d.linker = "")
    (hacc : accepts d v = true) (hk : (w.node t).keysOK) :
    get (set w c name v).1 t name = .ok (if v.isNone then defaultVal d else v) ∧
    get (set w t name v).1 c name = .ok (if v.isNone then defaultVal d else v) := by
  have hpc : provider w c name = t := by
    rw [provider_star_client w c t h]
    have : isClientOpt name = false := by
      cases hc : isClientOpt name with
      | false => rfl
      | true =>
        simp only [isClientOpt, isTransportOpt, List.any_eq_true, beq_iff_eq] at hc hto
        obtain ⟨a, ha, han⟩ := hc
        obtain ⟨e, he, hen⟩ := hto
        exact absurd (han.trans hen.symm) (domains_disjoint a ha e he)
    simp [this, hto]
  have hpt : provider w t name = t := by
    rw [provider_star_transport w c t h]; simp [hto]
  have hdt : lookupDef (w.node t).domain name = some d := by rw [h.dt]; exact hd
  constructor
  · have s1 := set_get w t name v d (by rw [hpt]; exact h.ht) (by rw [hpt]; exact hdt) hl hacc (by rw [hpt]; exact hk)
    -- set via c and via t are the same store
    have e : set w c name v = set w t name v := by
      unfold set; simp only [hpc, hpt]
    rw [e]; exact s1.2
  · have s1 := set_get w c name v d (by rw [hpc]; exact h.ht) (by rw [hpc]; exact hdt) hl hacc (by rw [hpc]; exact hk)
    have e : set w t name v = set w c name v := by
      unfold set; simp only [hpc, hpt]
    rw [e]; exact s1.2

end Suds.Options
