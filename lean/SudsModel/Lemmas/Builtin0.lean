import SudsModel.Xsd.Builtin
namespace Suds.Xsd
open Suds.Gen

theorem bool_roundtrip (b : Bool) : (boolToXml b).bind boolToPython = some b := by
  cases b <;> decide

theorem bool_lexicals (s : String) :
    boolToPython s = if s = "1" ∨ s = "true" then some true
                     else if s = "0" ∨ s = "false" then some false else none := by
  simp only [boolToPython, boolXmlToPython, List.find?]
  by_cases h1 : s = "1"
  · subst h1; decide
  · by_cases h2 : s = "true"
    · subst h2; decide
    · by_cases h3 : s = "0"
      · subst h3; decide
      · by_cases h4 : s = "false"
        · subst h4; decide
        · have e1 : ("1" == s) = false := by simp [Ne.symm h1]
          have e2 : ("true" == s) = false := by simp [Ne.symm h2]
          have e3 : ("0" == s) = false := by simp [Ne.symm h3]
          have e4 : ("false" == s) = false := by simp [Ne.symm h4]
          simp [h1, h2, h3, h4, e1, e2, e3, e4]

theorem bool_sent_is_canonical (b : Bool) : boolToXml b = some (if b then "true" else "false") := by
  cases b <;> decide

/-! timezone -/
theorem tz_zero_is_utc (neg : Bool) (h : List Char) (m : Option (List Char))
    (hh : natOf h = 0) (hm : tzMinute m = 0) :
    tzFromMatch (.off neg h m) = .ok .utc := by
  simp [tzFromMatch, hh, hm]

theorem tz_ge24_rejected (neg : Bool) (h : List Char) (m : Option (List Char)) (hh : natOf h ≥ 24) :
    tzFromMatch (.off neg h m) = .error .value := by
  have : natOf h ≠ 0 := by omega
  simp [tzFromMatch, this, hh]

theorem tz_offset_value (neg : Bool) (h : List Char) (m : Option (List Char)) (tz : Tz)
    (hok : tzFromMatch (.off neg h m) = .ok tz) :
    tz = .utc ∨ (0 < natOf h * 60 + tzMinute m ∧ natOf h < 24 ∧
      tz = .fixed (if neg then -((natOf h * 60 + tzMinute m : Nat) : Int) else ((natOf h * 60 + tzMinute m : Nat) : Int))) := by
  simp only [tzFromMatch] at hok
  split at hok
  · left; injection hok with hok; exact hok.symm
  · rename_i hz
    split at hok
    · simp at hok
    · rename_i h24
      right
      refine ⟨?_, by omega, ?_⟩
      · simp at hz; omega
      · injection hok with hok; exact hok.symm

/-! validity: a decoded value is never an impossible date or time -/

theorem daysIn_ge (y m : Nat) : 28 ≤ daysIn y m := by
  unfold daysIn; split <;> (try split) <;> omega

theorem dateFromMatch_valid (m : DateM) (d : Date) (h : dateFromMatch m = .ok d) : d.valid = true := by
  simp only [dateFromMatch] at h
  split at h
  · injection h with h; subst h; assumption
  · simp at h

theorem timeFromMatch_valid (m : TimeM) (t : Time) (up : Bool) (h : timeFromMatch m = .ok (t, up)) :
    t.valid = true := by
  simp only [timeFromMatch] at h
  split at h
  · injection h with h; injection h with h1 h2; subst h1; assumption
  · simp at h

theorem bumpTime_valid (t : Time) (h : t.valid = true) : (bumpTime t).valid = true := by
  simp only [Time.valid, Bool.and_eq_true, decide_eq_true_eq] at h
  unfold bumpTime
  split
  · simp [Time.valid]; omega
  · split
    · simp [Time.valid]; omega
    · split
      · simp [Time.valid]; omega
      · split
        · simp [Time.valid]; omega
        · simp [Time.valid]

theorem nextDay_valid (d d' : Date) (h : d.valid = true) (hn : nextDay d = .ok d') : d'.valid = true := by
  simp only [Date.valid, Bool.and_eq_true, decide_eq_true_eq] at h
  unfold nextDay at hn
  split at hn
  · injection hn with hn; subst hn; simp [Date.valid]; omega
  · split at hn
    · injection hn with hn; subst hn
      have := daysIn_ge d.y (d.m + 1)
      simp [Date.valid]; omega
    · split at hn
      · injection hn with hn; subst hn
        have := daysIn_ge (d.y + 1) 1
        simp [Date.valid]; omega
      · simp at hn

theorem parseDate_valid (s : List Char) (d : Date) (h : parseDate s = .ok d) : d.valid = true := by
  unfold parseDate at h
  split at h
  · split at h
    · exact dateFromMatch_valid _ _ h
    · simp at h
  · simp at h

theorem parseTime_valid (s : List Char) (t : Time) (tz : Tz) (h : parseTime s = .ok (t, tz)) :
    t.valid = true := by
  unfold parseTime at h
  cases hs : scanTime s with
  | none => simp [hs] at h
  | some p =>
    obtain ⟨tm, rest⟩ := p
    simp only [hs] at h
    cases hz : scanZone rest with
    | none => simp [hz] at h
    | some z =>
      simp only [hz] at h
      cases hT : timeFromMatch tm with
      | error e => simp [hT, bind, Except.bind] at h
      | ok p =>
        obtain ⟨t0, up⟩ := p
        cases hZ : tzFromMatch z with
        | error e => simp [hT, hZ, bind, Except.bind] at h
        | ok tz0 =>
          simp [hT, hZ, bind, Except.bind, pure, Except.pure] at h
          have hv := timeFromMatch_valid _ _ _ hT
          rw [← h.1]
          split
          · exact bumpTime_valid _ hv
          · exact hv

theorem parseDateTime_valid (s : List Char) (d : Date) (t : Time) (tz : Tz)
    (h : parseDateTime s = .ok (d, t, tz)) : d.valid = true ∧ t.valid = true := by
  unfold parseDateTime at h
  cases hs : scanDate s with
  | none => simp [hs] at h
  | some p =>
    obtain ⟨dm, r⟩ := p
    cases r with
    | nil => simp [hs] at h
    | cons c rest =>
      simp only [hs] at h
      split at h
      · cases hs2 : scanTime rest with
        | none => simp [hs2] at h
        | some p2 =>
          obtain ⟨tm, rest2⟩ := p2
          simp only [hs2] at h
          cases hz : scanZone rest2 with
          | none => simp [hz] at h
          | some z =>
            simp only [hz] at h
            cases hD : dateFromMatch dm with
            | error e => simp [hD, bind, Except.bind] at h
            | ok d0 =>
              cases hT : timeFromMatch tm with
              | error e => simp [hD, hT, bind, Except.bind] at h
              | ok p =>
                obtain ⟨t0, up⟩ := p
                cases hZ : tzFromMatch z with
                | error e => simp [hD, hT, hZ, bind, Except.bind] at h
                | ok tz0 =>
                  have hdv := dateFromMatch_valid _ _ hD
                  have htv := timeFromMatch_valid _ _ _ hT
                  simp only [hD, hT, hZ, bind, Except.bind, pure, Except.pure] at h
                  split at h
                  · split at h
                    · cases hN : nextDay d0 with
                      | error e => simp [hN] at h
                      | ok d1 =>
                        simp [hN] at h
                        rw [← h.1, ← h.2.1]
                        exact ⟨nextDay_valid _ _ hdv hN, bumpTime_valid _ htv⟩
                    · injection h with h; injection h with h1 h2; injection h2 with h2 h3
                      rw [← h1, ← h2]; exact ⟨hdv, bumpTime_valid _ htv⟩
                  · injection h with h; injection h with h1 h2; injection h2 with h2 h3
                    rw [← h1, ← h2]; exact ⟨hdv, htv⟩
      · simp at h

end Suds.Xsd
