import SudsModel.Lemmas.ArgParser0
namespace Suds.ArgParser

def rootId {α} : PT α → Option Nat
  | .leaf _ => none
  | .node i _ _ => some i

/-- Sibling containers have pairwise distinct identities (recursively). -/
def PT.wf {α} : PT α → Prop
  | .leaf _ => True
  | .node _ _ kids => wfKids kids
where wfKids {α} : List (PT α) → Prop
  | [] => True
  | k :: ks => k.wf ∧ (∀ i, rootId k = some i → ∀ k' ∈ ks, rootId k' ≠ some i) ∧ wfKids ks

abbrev VT := PT (Bool × Bool)

def contrib (ls : List (List Anc × (Bool × Bool))) : List (List Anc × Acc) :=
  ls.map fun l => (l.1, leafAcc l.2.1 l.2.2)

theorem contrib_node (i : Nat) (c : Bool) (kids : List VT) :
    contrib (PT.flat (.node i c kids)) = (contrib (PT.flat.flatKids kids)).map fun l => (⟨i, c⟩ :: l.1, l.2) := by
  simp [PT.flat, contrib, List.map_map, Function.comp_def]

theorem feedAll_append (st) (l1 l2 : List (List Anc × Acc)) :
    feedAll st (l1 ++ l2) = feedAll (feedAll st l1) l2 := by
  simp [feedAll, List.foldl_append]

/-- All leaves of a visible container, fed from a state whose first open frame is another
container: the open chain is closed and the container's frame is opened. -/
theorem node_feed (f : Frame) (chain : List Frame) (a : Anc) (L : List (List Anc × Acc)) (hL : L ≠ [])
    (hf : headFresh chain a.id) :
    feedAll (f, chain) (L.map fun l => (a :: l.1, l.2)) =
      (closeChain f chain, (feedAll (fresh a, []) L).1 :: (feedAll (fresh a, []) L).2) := by
  cases L with
  | nil => exact absurd rfl hL
  | cons l0 rest =>
    simp only [List.map, feedAll, List.foldl]
    rw [feedR_fresh f chain a l0.1 l0.2 hf]
    have hid : (feedR (fresh a, []) l0.1 l0.2).1.id = some a.id := by
      rw [(feedR_fst_id _ _ _).1]; rfl
    have := feedAll_peel (closeChain f chain) _ (feedR (fresh a, []) l0.1 l0.2).2 a rest hid
    simp only [feedAll] at this
    exact this

mutual
theorem summ_hasItem : (t : VT) → t.summ.hasItem = !(PT.flat t).isEmpty
  | .leaf a => by simp [PT.summ, leafAcc, PT.flat]
  | .node i c kids => by
    have := summKids_hasItem c Acc.empty kids
    simp only [PT.summ, PT.flat, this]
    simp [Acc.empty]
theorem summKids_hasItem (c : Bool) (acc : Acc) : (kids : List VT) →
    (PT.summ.summKids c acc kids).hasItem = (acc.hasItem || !(PT.flat.flatKids kids).isEmpty)
  | [] => by simp [PT.summ.summKids, PT.flat.flatKids]
  | k :: ks => by
    have h1 := summ_hasItem k
    have h2 := summKids_hasItem c (acc.add c k.summ) ks
    simp only [PT.summ.summKids, PT.flat.flatKids, h2]
    unfold Acc.add
    by_cases hk : (PT.flat k).isEmpty = true
    · simp [h1, hk, List.isEmpty_iff.mp hk]
    · have : k.summ.hasItem = true := by simp [h1, hk]
      have hk' : PT.flat k ≠ [] := fun h => hk (by simp [h])
      simp [this, Acc.addRaw]
      split <;> simp [hk']
end

theorem add_visible (ch : Bool) (p c : Acc) (h : c.hasItem = true) : p.add ch c = p.addRaw ch c := by
  simp [Acc.add, h]
theorem add_invisible (ch : Bool) (p c : Acc) (h : c.hasItem = false) : p.add ch c = p := by
  simp [Acc.add, h]

def setAcc (f : Frame) (a : Acc) : Frame := { f with acc := a }

mutual
/-- One subtree: feeding its leaves to the local machine and closing equals adding the
subtree's recursive summary. Also: what the first open frame is afterwards. -/
theorem tree_lemma : (t : VT) → t.wf → (f : Frame) → (chain : List Frame) →
    (∀ i, rootId t = some i → headFresh chain i) →
    closeChain (feedAll (f, chain) (contrib t.flat)).1 (feedAll (f, chain) (contrib t.flat)).2
        = setAcc (closeChain f chain) ((closeChain f chain).acc.add f.choice t.summ)
      ∧ (∀ g, (feedAll (f, chain) (contrib t.flat)).2.head? = some g →
            chain.head? = some g ∨ g.id = rootId t)
  | .leaf a, _, f, chain, _ => by
    simp only [PT.flat, contrib, List.map, feedAll, List.foldl, feedR, PT.summ]
    cases chain with
    | nil => simp [reopen, addTop, closeChain, Frame.item, setAcc, Acc.add, leafAcc]
    | cons g gs =>
      simp [reopen, addTop, closeChain, Frame.item, setAcc, Acc.add, leafAcc]
  | .node i c kids, hwf, f, chain, hf => by
    rw [contrib_node]
    by_cases hL : contrib (PT.flat.flatKids kids) = []
    · -- invisible container
      have hemp : PT.flat.flatKids kids = [] := by simpa [contrib] using hL
      have hs : (PT.summ (.node i c kids)).hasItem = false := by
        rw [summ_hasItem]; simp [PT.flat, hemp]
      rw [hL]
      simp only [List.map, feedAll, List.foldl]
      rw [add_invisible _ _ _ hs]
      exact ⟨by simp [setAcc], fun g hg => Or.inl hg⟩
    · have hfresh := hf i rfl
      rw [node_feed f chain ⟨i, c⟩ _ hL hfresh]
      have hk := kids_lemma kids hwf (fresh ⟨i, c⟩) [] (by intro k _ j _ g hg; simp at hg)
      have hvis : (PT.summ (.node i c kids)).hasItem = true := by
        rw [summ_hasItem]
        have : PT.flat.flatKids kids ≠ [] := fun h => hL (by simp [contrib, h])
        simp [PT.flat, this]
      refine ⟨?_, ?_⟩
      · simp only [closeChain]
        rw [hk.1]
        rw [add_visible _ _ _ hvis]
        simp [closeChain, setAcc, Frame.item, fresh, PT.summ, closeChain_choice]
      · intro g hg
        simp only [List.head?_cons, Option.some.injEq] at hg
        right
        rw [← hg, (feedAll_fst_id _ _).1]; rfl
/-- A list of sibling subtrees. -/
theorem kids_lemma : (kids : List VT) → PT.wf.wfKids kids → (f : Frame) → (chain : List Frame) →
    (∀ k ∈ kids, ∀ i, rootId k = some i → headFresh chain i) →
    closeChain (feedAll (f, chain) (contrib (PT.flat.flatKids kids))).1
               (feedAll (f, chain) (contrib (PT.flat.flatKids kids))).2
        = setAcc (closeChain f chain) (PT.summ.summKids f.choice (closeChain f chain).acc kids)
      ∧ True
  | [], _, f, chain, _ => by
    simp [PT.flat.flatKids, contrib, feedAll, PT.summ.summKids, setAcc]
  | k :: ks, hwf, f, chain, hf => by
    obtain ⟨hk, hdist, hks⟩ := hwf
    have h1 := tree_lemma k hk f chain (fun i hi => hf k (by simp) i hi)
    have hc_app : contrib (k.flat ++ PT.flat.flatKids ks) = contrib k.flat ++ contrib (PT.flat.flatKids ks) := by
      simp [contrib]
    simp only [PT.flat.flatKids]
    rw [hc_app, feedAll_append]
    have hc : (feedAll (f, chain) (contrib k.flat)).1.choice = f.choice :=
      (feedAll_fst_id (f, chain) (contrib k.flat)).2
    generalize feedAll (f, chain) (contrib k.flat) = st at h1 hc ⊢
    have hfresh2 : ∀ k' ∈ ks, ∀ j, rootId k' = some j → headFresh st.2 j := by
      intro k' hk' j hj g hg
      rcases h1.2 g hg with h | h
      · exact hf k' (by simp [hk']) j hj g h
      · rw [h]
        intro heq
        exact hdist j heq k' hk' hj
    have h2 := kids_lemma ks hks st.1 st.2 hfresh2
    refine ⟨?_, trivial⟩
    rw [show st = (st.1, st.2) from rfl, h2.1, h1.1]
    simp [setAcc, PT.summ.summKids, hc]
end

end Suds.ArgParser
