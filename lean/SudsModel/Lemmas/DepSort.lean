import SudsModel.Xsd.DepSort
/-! Invariants of the depth-first `dependency_sort` model. -/
namespace Suds.Xsd
open List

theorem deps_none {g : Graph} {k : Nat} : g.deps k = none ↔ k ∉ g.keys := by
  induction g with
  | nil => simp [Graph.deps, Graph.keys]
  | cons e g ih =>
    obtain ⟨k', ds⟩ := e
    simp only [Graph.deps, Graph.keys, List.map_cons, List.mem_cons, not_or]
    by_cases h : k' = k
    · simp [h]
    · simp only [h, if_false]
      rw [ih]; simp [Graph.keys, Ne.symm h]

theorem deps_some_mem {g : Graph} {k : Nat} {ds : List Nat} (h : g.deps k = some ds) : (k, ds) ∈ g := by
  induction g with
  | nil => simp [Graph.deps] at h
  | cons e g ih =>
    obtain ⟨k', ds'⟩ := e
    simp only [Graph.deps] at h
    by_cases hk : k' = k
    · simp [hk] at h; simp [hk, h]
    · simp [hk] at h; exact List.mem_cons_of_mem _ (ih h)

theorem deps_some_key {g : Graph} {k : Nat} {ds : List Nat} (h : g.deps k = some ds) : k ∈ g.keys := by
  have := deps_some_mem h
  exact List.mem_map.mpr ⟨_, this, rfl⟩

/-- State invariant. -/
structure InvA (g : Graph) (s : DS) : Prop where
  sub : ∀ x, x ∈ s.rsorted → x ∈ s.processed
  keys : ∀ x, x ∈ s.processed → x ∈ g.keys
  ndp : s.processed.Nodup
  nds : s.rsorted.Nodup

/-- What one call (or a run of calls) does to the state. -/
structure Step (g : Graph) (s s' : DS) : Prop where
  inv : InvA g s'
  mono : ∀ x, x ∈ s.processed → x ∈ s'.processed
  suffix : ∃ new, s'.rsorted = new ++ s.rsorted
  stack : ∀ x, (x ∈ s'.processed ∧ x ∉ s'.rsorted) ↔ (x ∈ s.processed ∧ x ∉ s.rsorted)

theorem Step.refl {g : Graph} {s : DS} (h : InvA g s) : Step g s s :=
  ⟨h, fun _ hx => hx, ⟨[], rfl⟩, fun _ => Iff.rfl⟩

theorem Step.trans {g : Graph} {a b c : DS} (h1 : Step g a b) (h2 : Step g b c) : Step g a c := by
  refine ⟨h2.inv, fun x hx => h2.mono x (h1.mono x hx), ?_, fun x => (h2.stack x).trans (h1.stack x)⟩
  obtain ⟨n1, e1⟩ := h1.suffix
  obtain ⟨n2, e2⟩ := h2.suffix
  exact ⟨n2 ++ n1, by rw [e2, e1, List.append_assoc]⟩

theorem nodup_sub_length {l1 l2 : List Nat} (hn : l1.Nodup) (hs : ∀ x, x ∈ l1 → x ∈ l2) : l1.length ≤ l2.length := by
  induction l1 generalizing l2 with
  | nil => simp
  | cons a l ih =>
    have ha : a ∈ l2 := hs a (by simp)
    have hn' := List.nodup_cons.mp hn
    have := ih (l2 := l2.erase a) hn'.2 (fun x hx => by
      have hx2 := hs x (List.mem_cons_of_mem _ hx)
      have hne : x ≠ a := fun e => hn'.1 (e ▸ hx)
      exact (List.mem_erase_of_ne hne).mpr hx2)
    rw [List.length_erase_of_mem ha] at this
    have hpos : 0 < l2.length := List.length_pos_of_mem ha
    simp only [List.length_cons]; omega

theorem Step.len {g : Graph} {s s' : DS} (h : Step g s s') (hi : InvA g s) : s.processed.length ≤ s'.processed.length :=
  nodup_sub_length hi.ndp h.mono

/-- Fuel `f` suffices in state `s`. -/
def Adq (g : Graph) (s : DS) (f : Nat) : Prop := g.keys.length < s.processed.length + f

theorem fresh_lt {g : Graph} {s : DS} {k : Nat} (hi : InvA g s) (hk : k ∈ g.keys) (hn : k ∉ s.processed) :
    s.processed.length < g.keys.length := by
  have : (k :: s.processed).length ≤ g.keys.length :=
    nodup_sub_length (List.nodup_cons.mpr ⟨hn, hi.ndp⟩) (fun x hx => by
      rcases List.mem_cons.mp hx with h | h
      · exact h ▸ hk
      · exact hi.keys x h)
  simp only [List.length_cons] at this; omega

theorem visitAll_step {g : Graph} {f : Nat}
    (hv : ∀ s d, InvA g s → Adq g s f → Step g s (visit g f s d))
    (ds : List Nat) : ∀ s, InvA g s → Adq g s f → Step g s (visitAll g f s ds) := by
  induction ds with
  | nil => intro s hi _; exact Step.refl hi
  | cons d ds ih =>
    intro s hi ha
    have h1 := hv s d hi ha
    have ha' : Adq g (visit g f s d) f := by
      have := h1.len hi
      unfold Adq at *; omega
    have h2 := ih _ h1.inv ha'
    simpa [visitAll] using h1.trans h2

theorem visit_step {g : Graph} : ∀ f s k, InvA g s → Adq g s f → Step g s (visit g f s k) := by
  intro f
  induction f with
  | zero => intro s k hi _; simpa [visit] using Step.refl hi
  | succ f ih =>
    intro s k hi ha
    unfold visit
    by_cases hp : k ∈ s.processed
    · simp only [hp, if_true]; exact Step.refl hi
    · simp only [hp, if_false]
      cases hd : g.deps k with
      | none => exact Step.refl hi
      | some ds =>
        simp only []
        have hk : k ∈ g.keys := deps_some_key hd
        let s0 : DS := ⟨s.rsorted, k :: s.processed⟩
        have hi0 : InvA g s0 := ⟨fun x hx => List.mem_cons_of_mem _ (hi.sub x hx),
          fun x hx => by
            rcases List.mem_cons.mp hx with h | h
            · exact h ▸ hk
            · exact hi.keys x h,
          List.nodup_cons.mpr ⟨hp, hi.ndp⟩, hi.nds⟩
        have ha0 : Adq g s0 f := by
          unfold Adq at *; simp only [s0, List.length_cons]; omega
        have h1 : Step g s0 (visitAll g f s0 ds) := visitAll_step (fun s d => ih s d) ds s0 hi0 ha0
        have hknot : k ∉ (visitAll g f s0 ds).rsorted := by
          intro hin
          have := (h1.stack k).mpr ⟨by simp [s0], fun h => hp (hi.sub k h)⟩
          exact this.2 hin
        have hkin : k ∈ (visitAll g f s0 ds).processed := h1.mono k (by simp [s0])
        show Step g s ⟨k :: (visitAll g f s0 ds).rsorted, (visitAll g f s0 ds).processed⟩
        refine ⟨⟨?_, h1.inv.keys, h1.inv.ndp, List.nodup_cons.mpr ⟨hknot, h1.inv.nds⟩⟩, ?_, ?_, ?_⟩
        · intro x hx
          rcases List.mem_cons.mp hx with h | h
          · exact h ▸ hkin
          · exact h1.inv.sub x h
        · intro x hx; exact h1.mono x (List.mem_cons_of_mem _ hx)
        · obtain ⟨n, e⟩ := h1.suffix
          exact ⟨k :: n, by simp [e, s0]⟩
        · intro x
          simp only [List.mem_cons, not_or]
          have hs := h1.stack x
          simp only [s0, List.mem_cons] at hs
          constructor
          · rintro ⟨hxp, hxk, hxs⟩
            have := hs.mp ⟨hxp, hxs⟩
            rcases this.1 with h | h
            · exact absurd h hxk
            · exact ⟨h, this.2⟩
          · rintro ⟨hxp, hxs⟩
            have hxk : x ≠ k := fun e => hp (e ▸ hxp)
            have := hs.mpr ⟨Or.inr hxp, hxs⟩
            exact ⟨this.1, hxk, this.2⟩

/-- A processed key is reported processed by the call on it. -/
theorem visit_marks {g : Graph} {f : Nat} {s : DS} {k : Nat} (hi : InvA g s) (ha : Adq g s f) (hk : k ∈ g.keys) :
    k ∈ (visit g f s k).processed := by
  cases f with
  | zero =>
    by_cases hp : k ∈ s.processed
    · simpa [visit] using hp
    · have := fresh_lt hi hk hp
      unfold Adq at ha; omega
  | succ f =>
    unfold visit
    by_cases hp : k ∈ s.processed
    · simp [hp]
    · simp only [hp, if_false]
      cases hd : g.deps k with
      | none => exact absurd hk (deps_none.mp hd)
      | some ds =>
        simp only []
        have hk' : k ∈ g.keys := hk
        let s0 : DS := ⟨s.rsorted, k :: s.processed⟩
        have hi0 : InvA g s0 := ⟨fun x hx => List.mem_cons_of_mem _ (hi.sub x hx),
          fun x hx => by
            rcases List.mem_cons.mp hx with h | h
            · exact h ▸ hk
            · exact hi.keys x h,
          List.nodup_cons.mpr ⟨hp, hi.ndp⟩, hi.nds⟩
        have ha0 : Adq g s0 f := by
          unfold Adq at *; simp only [s0, List.length_cons]; omega
        have h1 : Step g s0 (visitAll g f s0 ds) := visitAll_step (fun s d => visit_step f s d) ds s0 hi0 ha0
        exact h1.mono k (by simp [s0])

theorem visitAll_marks {g : Graph} {f : Nat} (ds : List Nat) : ∀ s, InvA g s → Adq g s f →
    ∀ d, d ∈ ds → d ∈ g.keys → d ∈ (visitAll g f s ds).processed := by
  induction ds with
  | nil => intro s _ _ d hd; simp at hd
  | cons a ds ih =>
    intro s hi ha d hd hk
    have h1 := visit_step f s a hi ha
    have ha' : Adq g (visit g f s a) f := by
      have := h1.len hi
      unfold Adq at *; omega
    have hrest : Step g (visit g f s a) (visitAll g f (visit g f s a) ds) :=
      visitAll_step (fun s d => visit_step f s d) ds _ h1.inv ha'
    simp only [visitAll, List.foldl_cons]
    rcases List.mem_cons.mp hd with h | h
    · subst h
      exact hrest.mono _ (visit_marks hi ha hk)
    · exact ih _ h1.inv ha' d h hk

end Suds.Xsd

namespace Suds.Xsd
open List

/-- Reversed result list in which every entry has all of its (listed) dependencies *after* it,
i.e. earlier in `sorted`. -/
def ORev (g : Graph) : List Nat → Prop
  | [] => True
  | x :: l => (∀ ds, g.deps x = some ds → ∀ d, d ∈ ds → d ∈ g.keys → d ∈ l) ∧ ORev g l

theorem ORev.of_append {g : Graph} : ∀ (a b : List Nat), ORev g (a ++ b) → ORev g b
  | [], _, h => h
  | _ :: a, b, h => ORev.of_append a b h.2

/-- Acyclicity: a rank that strictly drops along every edge between keys. -/
def Ranked (g : Graph) (rank : Nat → Nat) : Prop :=
  ∀ k ds, g.deps k = some ds → ∀ d, d ∈ ds → d ∈ g.keys → rank d < rank k

/-- A decidable sufficient check for `Ranked`. -/
def rankedB (g : Graph) (rank : Nat → Nat) : Bool :=
  g.all fun e => e.2.all fun d => !(g.keys.contains d) || decide (rank d < rank e.1)

theorem ranked_of_rankedB {g : Graph} {rank : Nat → Nat} (h : rankedB g rank = true) : Ranked g rank := by
  intro k ds hd d hdm hk
  have hm := deps_some_mem hd
  simp only [rankedB, List.all_eq_true] at h
  have := h (k, ds) hm d hdm
  simp only [Bool.or_eq_true, Bool.not_eq_true', decide_eq_true_eq] at this
  rcases this with h1 | h1
  · have : g.keys.contains d = true := List.contains_iff_mem.mpr hk
    rw [h1] at this; exact absurd this (by simp)
  · exact h1

section ordered
variable {g : Graph} {rank : Nat → Nat}

/-- the precondition on the call for `k`: everything on the stack outranks it -/
def Above (rank : Nat → Nat) (s : DS) (k : Nat) : Prop :=
  ∀ x, x ∈ s.processed → x ∉ s.rsorted → rank k < rank x

theorem visitAll_ordered {f : Nat}
    (hv : ∀ s d, InvA g s → Adq g s f → ORev g s.rsorted → (d ∈ g.keys → Above rank s d) → ORev g (visit g f s d).rsorted)
    (ds : List Nat) : ∀ s, InvA g s → Adq g s f → ORev g s.rsorted →
      (∀ d, d ∈ ds → d ∈ g.keys → Above rank s d) → ORev g (visitAll g f s ds).rsorted := by
  induction ds with
  | nil => intro s _ _ ho _; exact ho
  | cons a ds ih =>
    intro s hi ha ho hab
    have h1 := visit_step f s a hi ha
    have ha' : Adq g (visit g f s a) f := by
      have := h1.len hi
      unfold Adq at *; omega
    have ho' := hv s a hi ha ho (hab a (by simp))
    simp only [visitAll, List.foldl_cons]
    refine ih _ h1.inv ha' ho' ?_
    intro d hd hk x hxp hxs
    have := (h1.stack x).mp ⟨hxp, hxs⟩
    exact hab d (List.mem_cons_of_mem _ hd) hk x this.1 this.2

theorem visit_ordered (hr : Ranked g rank) : ∀ f s k, InvA g s → Adq g s f → ORev g s.rsorted → (k ∈ g.keys → Above rank s k) →
    ORev g (visit g f s k).rsorted := by
  intro f
  induction f with
  | zero => intro s k _ _ ho _; simpa [visit] using ho
  | succ f ih =>
    intro s k hi ha ho hab
    unfold visit
    by_cases hp : k ∈ s.processed
    · simp only [hp, if_true]; exact ho
    · simp only [hp, if_false]
      cases hd : g.deps k with
      | none => exact ho
      | some ds =>
        simp only []
        have hk : k ∈ g.keys := deps_some_key hd
        let s0 : DS := ⟨s.rsorted, k :: s.processed⟩
        have hi0 : InvA g s0 := ⟨fun x hx => List.mem_cons_of_mem _ (hi.sub x hx),
          fun x hx => by
            rcases List.mem_cons.mp hx with h | h
            · exact h ▸ hk
            · exact hi.keys x h,
          List.nodup_cons.mpr ⟨hp, hi.ndp⟩, hi.nds⟩
        have ha0 : Adq g s0 f := by
          unfold Adq at *; simp only [s0, List.length_cons]; omega
        have habove : ∀ d, d ∈ ds → d ∈ g.keys → Above rank s0 d := by
          intro d hdm hdk x hxp hxs
          have hdk' : rank d < rank k := hr k ds hd d hdm hdk
          rcases List.mem_cons.mp hxp with h | h
          · exact h ▸ hdk'
          · exact Nat.lt_trans hdk' (hab hk x h hxs)
        have h1 : Step g s0 (visitAll g f s0 ds) := visitAll_step (fun s d => visit_step f s d) ds s0 hi0 ha0
        have ho1 : ORev g (visitAll g f s0 ds).rsorted :=
          visitAll_ordered (fun s d => ih s d) ds s0 hi0 ha0 ho habove
        show ORev g (k :: (visitAll g f s0 ds).rsorted)
        refine ⟨?_, ho1⟩
        intro ds' hds' d hdm hdk
        have e : ds' = ds := by rw [hd] at hds'; exact (Option.some.inj hds').symm
        subst e
        have hproc := visitAll_marks (f := f) ds' s0 hi0 ha0 d hdm hdk
        by_cases hin : d ∈ (visitAll g f s0 ds').rsorted
        · exact hin
        · exfalso
          have hst := (h1.stack d).mp ⟨hproc, hin⟩
          have hdk' : rank d < rank k := hr k ds' hd d hdm hdk
          rcases List.mem_cons.mp hst.1 with h | h
          · rw [h] at hdk'; exact Nat.lt_irrefl _ hdk'
          · have := hab hk d h hst.2
            exact Nat.lt_irrefl _ (Nat.lt_trans hdk' this)

end ordered
end Suds.Xsd
