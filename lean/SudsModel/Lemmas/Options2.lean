import SudsModel.Lemmas.Options
namespace Suds.Options
open Suds.Gen

theorem transport_def : ∃ d, lookupDef .client "transport" = some d ∧ d.linker ≠ "" ∧ d.classes = ["Transport"] := by
  refine ⟨⟨"transport", ["Transport"], "None", "TpLinker()"⟩, ?_, by decide, rfl⟩
  decide

theorem reach_single (w : World) (a : Nat) (h : (w.node a).links = []) (fuel : Nat) : reach w fuel [a] = [a] := by
  cases fuel with
  | zero => rfl
  | succ f => simp [reach, h]

/-- **Replacing the transport moves the link**: afterwards the client's options are linked to the new
transport's options and to nothing else; the old transport's options stand alone. -/
theorem transport_replacement (w : World) (c t t' : Nat) (h : Star w c t)
    (hdom : (w.node t').domain = .transport) (hlinks : (w.node t').links = [])
    (hne1 : t' ≠ c) (hne2 : t' ≠ t) (hlt : t' < w.length)
    (tv : Val) (htn : tv.tnode = some t') (hnn : tv.isNone = false) (hisa : "Transport" ∈ tv.isa)
    (hprev : (getValue (w.node c).values "transport").tnode = some t) :
    (set w c "transport" tv).2 = none ∧ Star (set w c "transport" tv).1 c t' ∧
    ((set w c "transport" tv).1.node t).links = [] := by
  obtain ⟨d, hd, hlk, hcls⟩ := transport_def
  have hprov : provider w c "transport" = c := by
    rw [provider_star_client w c t h]
    have : isClientOpt "transport" = true := by decide
    simp [this]
  have hacc : accepts d tv = true := by
    simp [accepts, hcls, hisa]
  have hset : set w c "transport" tv =
      relink (store w c "transport" tv) c (getValue (w.node c).values "transport") tv := by
    unfold set
    simp only [hprov, h.dc, hd, hacc, hnn, hlk]
    simp
  rw [hset]
  unfold relink
  simp only [hprev, htn]
  -- the world after storing and unlinking the old transport
  generalize hw1 : store w c "transport" tv = w1
  have s1 := store_shape w c "transport" tv
  rw [hw1] at s1
  have hl1 : w1.length = w.length := by rw [← hw1]; simp [store, length_modify]
  generalize hw2 : unlink w1 c t = w2
  have hl2 : w2.length = w.length := by rw [← hw2]; simp [unlink, length_modify, hl1]
  have n2c : (w2.node c).links = [] ∧ (w2.node c).domain = .client := by
    rw [← hw2]; unfold unlink
    rw [node_modify_other _ t c _ h.ne, node_modify_self _ c _ (by rw [hl1]; exact h.hc)]
    simp [(s1 c).2, (s1 c).1, h.lc, h.dc]
  have n2t : (w2.node t).links = [] := by
    rw [← hw2]; unfold unlink
    rw [node_modify_self _ t _ (by rw [length_modify, hl1]; exact h.ht), node_modify_other _ c t _ (Ne.symm h.ne)]
    simp [(s1 t).2, h.lt]
  have n2t' : (w2.node t').links = [] ∧ (w2.node t').domain = .transport := by
    rw [← hw2]; unfold unlink
    rw [node_modify_other _ t t' _ hne2, node_modify_other _ c t' _ hne1]
    simp [(s1 t').2, (s1 t').1, hlinks, hdom]
  have hlink : link w2 c t' = .ok (modifyNode (modifyNode w2 c fun x => { x with links := x.links ++ [t'] }) t'
      fun x => { x with links := x.links ++ [c] }) := by
    unfold link
    simp [n2c.1, n2t'.1, reach_single w2 c n2c.1, reach_single w2 t' n2t'.1, n2c.2, n2t'.2]
  rw [hlink]
  refine ⟨rfl, ?_, ?_⟩
  · constructor
    · rw [node_modify_other _ t' c _ (Ne.symm hne1), node_modify_self _ c _ (by rw [hl2]; exact h.hc)]
      exact n2c.2
    · rw [node_modify_self _ t' _ (by rw [length_modify, hl2]; exact hlt), node_modify_other _ c t' _ hne1]
      exact n2t'.2
    · rw [node_modify_other _ t' c _ (Ne.symm hne1), node_modify_self _ c _ (by rw [hl2]; exact h.hc)]
      simp [n2c.1]
    · rw [node_modify_self _ t' _ (by rw [length_modify, hl2]; exact hlt), node_modify_other _ c t' _ hne1]
      simp [n2t'.1]
    · exact Ne.symm hne1
    · simp [length_modify, hl2, h.hc]
    · simp [length_modify, hl2, hlt]
  · rw [node_modify_other _ t' t _ (Ne.symm hne2), node_modify_other _ c t _ (Ne.symm h.ne)]
    exact n2t

end Suds.Options
