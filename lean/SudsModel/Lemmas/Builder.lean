import SudsModel.Xsd.Schema
/-! Fuel adequacy of the object builder: the history bounds the recursion depth. -/
namespace Suds.Schema

/-- every member declaration of the environment -/
def allMembers (env : Env) : List (Member × Nat) :=
  env.types.flatMap fun t => members env (env.types.length + 1) t.key

/-- members of the allMembers not yet on the path -/
def remaining (env : Env) (hist : List (Member × Nat)) : Nat :=
  ((allMembers env).eraseDups.filter fun x => !hist.contains x).length

theorem find_key {env : Env} {k : Key} {t : TypeDef} (h : env.find k = some t) : t ∈ env.types ∧ t.key = k := by
  unfold Env.find at h
  have hm := List.mem_of_find?_eq_some h
  have hp := List.find?_some h
  exact ⟨hm, by simpa using hp⟩

theorem members_in_allMembers (env : Env) (k : Key) (x : Member × Nat)
    (hx : x ∈ members env (env.types.length + 1) k) : x ∈ allMembers env := by
  cases hf : env.find k with
  | none => simp [members, hf] at hx
  | some t =>
    obtain ⟨hm, hk⟩ := find_key hf
    unfold allMembers
    exact List.mem_flatMap.mpr ⟨t, hm, by rw [hk]; exact hx⟩

theorem filter_length_le {α : Type} (p q : α → Bool) (hpq : ∀ x, q x = true → p x = true) :
    ∀ l : List α, (l.filter q).length ≤ (l.filter p).length := by
  intro l
  induction l with
  | nil => simp
  | cons a l ih =>
    simp only [List.filter_cons]
    cases hq : q a with
    | true => simp [hpq a hq]; omega
    | false => cases hp : p a <;> simp <;> omega

theorem filter_length_lt {α : Type} (p q : α → Bool) (hpq : ∀ x, q x = true → p x = true) :
    ∀ l : List α, (∃ a, a ∈ l ∧ p a = true ∧ q a = false) → (l.filter q).length < (l.filter p).length := by
  intro l
  induction l with
  | nil => intro ⟨a, h, _⟩; simp at h
  | cons b l ih =>
    intro ⟨a, hm, hp, hq⟩
    simp only [List.filter_cons]
    rcases List.mem_cons.mp hm with e | e
    · subst e
      have := filter_length_le p q hpq l
      simp [hp, hq]; omega
    · have ih' := ih ⟨a, e, hp, hq⟩
      cases hqb : q b with
      | true => simp [hpq b hqb]; omega
      | false => cases hpb : p b <;> simp <;> omega

theorem remaining_cons_lt (env : Env) (hist : List (Member × Nat)) (md : Member × Nat)
    (hu : md ∈ allMembers env) (hn : hist.contains md = false) :
    remaining env (md :: hist) < remaining env hist := by
  unfold remaining
  apply filter_length_lt
  · intro x hx
    simp only [Bool.not_eq_true', List.contains_cons, Bool.or_eq_false_iff] at hx
    simpa using hx.2
  · have hnm : md ∉ hist := by
      intro h; have := List.contains_iff_mem.mpr h; rw [hn] at this; cases this
    exact ⟨md, List.mem_eraseDups.mpr hu, by simp [hnm], by simp⟩

theorem flatMap_congr_mem {α β : Type} (l : List α) (f g : α → List β) (h : ∀ x ∈ l, f x = g x) :
    l.flatMap f = l.flatMap g := by
  induction l with
  | nil => rfl
  | cons a l ih =>
    simp only [List.flatMap_cons]
    rw [h a (by simp), ih (fun x hx => h x (List.mem_cons_of_mem _ hx))]

/-- **The history bounds the recursion**: once the fuel exceeds the number of member declarations
not yet on the path, more fuel changes nothing. -/
theorem skeletonMember_fuel (env : Env) : ∀ (n : Nat) (hist : List (Member × Nat)) (md : Member × Nat),
    remaining env hist ≤ n → md ∈ allMembers env → ∀ f1 f2, n < f1 → n < f2 →
    skeletonMember env f1 hist md = skeletonMember env f2 hist md := by
  intro n
  induction n with
  | zero =>
    intro hist md hr hu f1 f2 h1 h2
    have hc : hist.contains md = true := by
      cases hcc : hist.contains md with
      | true => rfl
      | false =>
        have := remaining_cons_lt env hist md hu hcc
        omega
    obtain ⟨g1, rfl⟩ : ∃ g, f1 = g + 1 := ⟨f1 - 1, by omega⟩
    obtain ⟨g2, rfl⟩ : ∃ g, f2 = g + 1 := ⟨f2 - 1, by omega⟩
    simp only [skeletonMember, hc, ↓reduceIte]
  | succ n ih =>
    intro hist md hr hu f1 f2 h1 h2
    obtain ⟨g1, rfl⟩ : ∃ g, f1 = g + 1 := ⟨f1 - 1, by omega⟩
    obtain ⟨g2, rfl⟩ : ∃ g, f2 = g + 1 := ⟨f2 - 1, by omega⟩
    cases hc : hist.contains md with
    | true => simp only [skeletonMember, hc, ↓reduceIte]
    | false =>
      have hlt := remaining_cons_lt env hist md hu hc
      unfold skeletonMember
      simp only [hc, Bool.false_eq_true, if_false]
      split
      · rfl
      · split
        · rfl
        · rfl
        · rename_i k _
          split
          · rfl
          · have hk : ((members env (env.types.length + 1) k).filter fun x => !x.1.inChoice).flatMap
                (fun x => skeletonMember env g1 (md :: hist) x) =
              ((members env (env.types.length + 1) k).filter fun x => !x.1.inChoice).flatMap
                (fun x => skeletonMember env g2 (md :: hist) x) := by
              apply flatMap_congr_mem
              intro x hx
              have hxm := (List.mem_filter.mp hx).1
              exact ih (md :: hist) x (by omega) (members_in_allMembers env k x hxm) g1 g2 (by omega) (by omega)
            rw [hk]

end Suds.Schema
