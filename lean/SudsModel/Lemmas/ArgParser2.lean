import SudsModel.Lemmas.ArgParser1
namespace Suds.ArgParser

/-! ### `in_choice_context` observations -/

def feedObs : Frame × List Frame → List (List Anc × Acc) → List Bool
  | _, [] => []
  | st, l :: ls => (feedR st l.1 l.2).2.any (·.choice) :: feedObs (feedR st l.1 l.2) ls

theorem feedObs_append (st) (l1 l2 : List (List Anc × Acc)) :
    feedObs st (l1 ++ l2) = feedObs st l1 ++ feedObs (feedAll st l1) l2 := by
  induction l1 generalizing st with
  | nil => simp [feedObs, feedAll]
  | cons l ls ih => simp [feedObs, feedAll, ih]

theorem feedObs_peel (root f : Frame) (fs : List Frame) (a : Anc) (ls : List (List Anc × Acc))
    (h : f.id = some a.id) :
    feedObs (root, f :: fs) (ls.map fun l => (a :: l.1, l.2)) =
      (feedObs (f, fs) ls).map (f.choice || ·) := by
  induction ls generalizing f fs with
  | nil => simp [feedObs]
  | cons l ls ih =>
    simp only [List.map, feedObs]
    rw [feedR_peel root f fs a l.1 l.2 h]
    have hid : (feedR (f, fs) l.1 l.2).1.id = some a.id := by
      rw [(feedR_fst_id (f, fs) l.1 l.2).1]; exact h
    have hch : (feedR (f, fs) l.1 l.2).1.choice = f.choice := (feedR_fst_id (f, fs) l.1 l.2).2
    rw [ih _ _ hid, hch]
    simp [List.any_cons, hch]

theorem node_obs (f : Frame) (chain : List Frame) (a : Anc) (L : List (List Anc × Acc))
    (hf : headFresh chain a.id) :
    feedObs (f, chain) (L.map fun l => (a :: l.1, l.2)) =
      (feedObs (fresh a, []) L).map (a.choice || ·) := by
  cases L with
  | nil => simp [feedObs]
  | cons l0 rest =>
    simp only [List.map, feedObs]
    rw [feedR_fresh f chain a l0.1 l0.2 hf]
    have hid : (feedR (fresh a, []) l0.1 l0.2).1.id = some a.id := by
      rw [(feedR_fst_id _ _ _).1]; rfl
    have hch : (feedR (fresh a, []) l0.1 l0.2).1.choice = a.choice := by
      rw [(feedR_fst_id _ _ _).2]; rfl
    rw [feedObs_peel _ _ _ a rest hid, hch]
    simp [List.any_cons, hch]

mutual
theorem tree_obs : (t : VT) → t.wf → (f : Frame) → (chain : List Frame) →
    (∀ i, rootId t = some i → headFresh chain i) →
    feedObs (f, chain) (contrib t.flat) = t.flat.map fun l => inChoiceOf l.1
  | .leaf a, _, f, chain, _ => by
    cases chain <;> simp [PT.flat, contrib, feedObs, feedR, reopen, addTop, inChoiceOf]
  | .node i c kids, hwf, f, chain, hf => by
    rw [contrib_node, node_obs f chain ⟨i, c⟩ _ (hf i rfl)]
    rw [kids_obs kids hwf (fresh ⟨i, c⟩) [] (by intro k _ j _ g hg; simp at hg)]
    simp [PT.flat, List.map_map, Function.comp_def, inChoiceOf, List.any_cons]
theorem kids_obs : (kids : List VT) → PT.wf.wfKids kids → (f : Frame) → (chain : List Frame) →
    (∀ k ∈ kids, ∀ i, rootId k = some i → headFresh chain i) →
    feedObs (f, chain) (contrib (PT.flat.flatKids kids)) = (PT.flat.flatKids kids).map fun l => inChoiceOf l.1
  | [], _, f, chain, _ => by simp [PT.flat.flatKids, contrib, feedObs]
  | k :: ks, hwf, f, chain, hf => by
    obtain ⟨hk, hdist, hks⟩ := hwf
    have hc_app : contrib (k.flat ++ PT.flat.flatKids ks) = contrib k.flat ++ contrib (PT.flat.flatKids ks) := by
      simp [contrib]
    simp only [PT.flat.flatKids]
    rw [hc_app, feedObs_append, tree_obs k hk f chain (fun i hi => hf k (by simp) i hi)]
    have h1 := tree_lemma k hk f chain (fun i hi => hf k (by simp) i hi)
    generalize feedAll (f, chain) (contrib k.flat) = st at h1 ⊢
    have hfresh2 : ∀ k' ∈ ks, ∀ j, rootId k' = some j → headFresh st.2 j := by
      intro k' hk' j hj g hg
      rcases h1.2 g hg with h | h
      · exact hf k' (by simp [hk']) j hj g h
      · rw [h]
        intro heq
        exact hdist j heq k' hk' hj
    rw [show st = (st.1, st.2) from rfl, kids_obs ks hks st.1 st.2 hfresh2]
    simp
end

end Suds.ArgParser
