import SudsModel.Lemmas.Builtin0
import Mathlib.Tactic.IntervalCases
import Mathlib.Tactic.Ring
import Mathlib.Tactic.NormNum
namespace Suds.Xsd

theorem natOf_foldl (acc : Nat) (cs : List Char) :
    cs.foldl (fun a c => a * 10 + dval c) acc = acc * 10 ^ cs.length + natOf cs := by
  induction cs generalizing acc with
  | nil => simp [natOf]
  | cons c cs ih =>
    simp only [List.foldl, natOf, List.length_cons]
    rw [ih (acc * 10 + dval c), ih (0 * 10 + dval c)]
    rw [Nat.pow_succ]
    simp only [Nat.zero_mul, Nat.zero_add]
    rw [Nat.add_mul, Nat.mul_assoc, Nat.mul_comm 10 (10 ^ cs.length), Nat.add_assoc]

theorem natOf_append (a b : List Char) : natOf (a ++ b) = natOf a * 10 ^ b.length + natOf b := by
  simp only [natOf, List.foldl_append]
  rw [natOf_foldl]
  rfl

theorem natOf_cons (c : Char) (cs : List Char) : natOf (c :: cs) = dval c * 10 ^ cs.length + natOf cs := by
  have := natOf_append [c] cs
  simpa [natOf] using this

theorem natOf_zeros (k : Nat) : natOf (List.replicate k '0') = 0 := by
  induction k with
  | zero => rfl
  | succ k ih => rw [List.replicate_succ, natOf_cons, ih]; simp [dval]

theorem dval_le (c : Char) (h : isDigit c = true) : dval c ≤ 9 := by
  simp only [isDigit, Bool.and_eq_true, decide_eq_true_eq] at h
  have h2 : c.toNat ≤ 57 := h.2
  unfold dval; omega

theorem natOf_lt (cs : List Char) (h : ∀ c ∈ cs, isDigit c = true) : natOf cs < 10 ^ cs.length := by
  induction cs with
  | nil => simp [natOf]
  | cons c cs ih =>
    rw [natOf_cons, List.length_cons, Nat.pow_succ]
    have h1 := dval_le c (h c (by simp))
    have h2 := ih (fun x hx => h x (by simp [hx]))
    have hp : 0 < 10 ^ cs.length := Nat.pow_pos (by decide)
    calc dval c * 10 ^ cs.length + natOf cs < dval c * 10 ^ cs.length + 10 ^ cs.length := by omega
      _ = (dval c + 1) * 10 ^ cs.length := by rw [Nat.add_mul, Nat.one_mul]
      _ ≤ 10 * 10 ^ cs.length := Nat.mul_le_mul_right _ (by omega)
      _ = 10 ^ cs.length * 10 := Nat.mul_comm _ _

/-- XSD: the fraction `0.d1…dn` of a second in microseconds, rounded half up. -/
def halfUp (ds : List Char) : Nat := (2 * natOf ds * 10 ^ 6 + 10 ^ ds.length) / (2 * 10 ^ ds.length)

theorem div_add_mul (r a d q : Nat) (hd : 0 < d) (hlo : q * d ≤ r) (hhi : r < (q + 1) * d) :
    (a * d + r) / d = a + q := by
  rw [Nat.add_comm, Nat.add_mul_div_right _ _ hd, Nat.div_eq_of_lt_le hlo hhi, Nat.add_comm]

theorem subsecond_half_up (ds : List Char) (hd : ∀ c ∈ ds, isDigit c = true) :
    (subMicro (some ds)).1 + (if (subMicro (some ds)).2 then 1 else 0) = halfUp ds := by
  by_cases hlen : ds.length ≤ 6
  · -- no rounding: the digits are padded
    have htake : ds.take 6 = ds := List.take_of_length_le hlen
    have hup : (decide (ds.length > 6)) = false := by simp; omega
    simp only [subMicro, htake, hup, Bool.false_and, Bool.false_eq_true, if_false, Nat.add_zero]
    rw [natOf_append, natOf_zeros, List.length_replicate, Nat.add_zero]
    unfold halfUp
    have hp : 0 < 10 ^ ds.length := Nat.pow_pos (by decide)
    have hsplit : 10 ^ 6 = 10 ^ (6 - ds.length) * 10 ^ ds.length := by
      rw [← Nat.pow_add]; congr 1; omega
    have : 2 * natOf ds * 10 ^ 6 + 10 ^ ds.length
        = (natOf ds * 10 ^ (6 - ds.length)) * (2 * 10 ^ ds.length) + 10 ^ ds.length := by
      rw [hsplit]; ring
    rw [this, div_add_mul (10 ^ ds.length) _ (2 * 10 ^ ds.length) 0 (by omega) (by omega) (by omega)]
    simp
  · -- more than six digits: ds = six ++ d7 :: rest
    have hlen' : 6 < ds.length := by omega
    obtain ⟨six, tl, hds, hsix⟩ : ∃ six tl, ds = six ++ tl ∧ six.length = 6 :=
      ⟨ds.take 6, ds.drop 6, (List.take_append_drop 6 ds).symm, by simp; omega⟩
    cases tl with
    | nil => subst hds; simp at hlen'; omega
    | cons d7 rest =>
      have hd7 : isDigit d7 = true := hd d7 (by rw [hds]; simp)
      have hrest : ∀ c ∈ rest, isDigit c = true := fun c hc => hd c (by rw [hds]; simp [hc])
      have hB' := natOf_lt rest hrest
      have hdv := dval_le d7 hd7
      have htake : ds.take 6 = six := by rw [hds, List.take_left' hsix]
      have hget : ds.getD 6 '0' = d7 := by
        rw [hds]; simp [List.getD, hsix]
      have hgt : decide (ds.length > 6) = true := by simp; omega
      simp only [subMicro, htake, hget, hgt, Bool.true_and, hsix, Nat.sub_self, List.replicate_zero,
        List.append_nil]
      unfold halfUp
      rw [hds, natOf_append, natOf_cons, List.length_append, List.length_cons, hsix]
      generalize natOf six = A
      generalize natOf rest = B' at *
      generalize hP : 10 ^ rest.length = P at *
      have hPpos : 0 < P := by rw [← hP]; exact Nat.pow_pos (by decide)
      have e1 : 10 ^ (rest.length + 1) = 10 * P := by rw [Nat.pow_succ, hP, Nat.mul_comm]
      have e2 : 10 ^ (6 + (rest.length + 1)) = 1000000 * (10 * P) := by
        rw [Nat.pow_add, e1]
      rw [e1, e2]
      have hnum : 2 * (A * (10 * P) + (dval d7 * P + B')) * 10 ^ 6 + 1000000 * (10 * P)
          = A * (2 * (1000000 * (10 * P))) + (2000000 * (dval d7 * P + B') + 10000000 * P) := by ring
      rw [hnum]
      generalize dval d7 = d at *
      have hD : 0 < 2 * (1000000 * (10 * P)) := by omega
      by_cases h5 : d ≥ 5
      · simp only [h5, decide_true, if_true]
        have hlo : 1 * (2 * (1000000 * (10 * P))) ≤ 2000000 * (d * P + B') + 10000000 * P := by
          interval_cases d <;> omega
        have hhi : 2000000 * (d * P + B') + 10000000 * P < (1 + 1) * (2 * (1000000 * (10 * P))) := by
          interval_cases d <;> omega
        rw [div_add_mul _ A _ 1 hD hlo hhi]
      · have h5' : d < 5 := by omega
        have : decide (d ≥ 5) = false := by simpa using h5
        simp only [this, Bool.false_eq_true, if_false, Nat.add_zero]
        have hlo : 0 * (2 * (1000000 * (10 * P))) ≤ 2000000 * (d * P + B') + 10000000 * P := by omega
        have hhi : 2000000 * (d * P + B') + 10000000 * P < (0 + 1) * (2 * (1000000 * (10 * P))) := by
          interval_cases d <;> omega
        rw [div_add_mul _ A _ 0 hD hlo hhi, Nat.add_zero]

end Suds.Xsd
