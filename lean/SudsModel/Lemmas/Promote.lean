import SudsModel.Lemmas.Prefix
/-!
Whole-tree argument for `promotePrefixes` (repaired rule): moving declarations up never changes
the namespace-resolved infoset of a namespace-well-formed tree.

`D` is the set of prefixes that may be declared in the tree (it contains every key of every
declaration table and no special prefix such as `xml`). A tree is well-formed (`Elem.WF`) when
every table is a dict (unique keys, keys in `D`), every element / attribute prefix is bound where
it is used and every attribute value of the shape `p:rest` has `p` bound or outside `D` (a plain
string such as `urn:x`, whose "prefix" nobody declares).
-/
namespace Suds.Xml
open Suds.Gen

/-! ### contexts that extend each other -/

def ExtAt (D : String → Prop) (c c' : Ctx) (q : String) : Prop :=
  (∀ u, resolvePrefix.resolveUp q c = some u → resolvePrefix.resolveUp q c' = some u) ∧
  (resolvePrefix.resolveUp q c = none → ¬ D q → resolvePrefix.resolveUp q c' = none)

/-- `c'` resolves every prefix bound in `c` the same way, binds no prefix outside `D` that `c`
leaves unbound, and has the same default namespace. -/
def Rel (D : String → Prop) (c c' : Ctx) : Prop :=
  (∀ q, ExtAt D c c' q) ∧ defaultNs c = defaultNs c'

theorem Rel.refl (D : String → Prop) (c : Ctx) : Rel D c c :=
  ⟨fun _ => ⟨fun _ h => h, fun h _ => h⟩, rfl⟩

theorem Rel.trans {D : String → Prop} {a b c : Ctx} (h1 : Rel D a b) (h2 : Rel D b c) : Rel D a c := by
  refine ⟨fun q => ⟨fun u h => (h2.1 q).1 u ((h1.1 q).1 u h), fun h hd => (h2.1 q).2 ((h1.1 q).2 h hd) hd⟩, ?_⟩
  exact h1.2.trans h2.2

theorem defaultNs_cons (m : Table) (e : Option String) (c : Ctx) :
    defaultNs ((m, e) :: c) = match e with | some u => some u | none => defaultNs c := by
  cases e <;> rfl

theorem Rel.cons {D : String → Prop} {c c' : Ctx} (m : Table) (e : Option String) (h : Rel D c c') :
    Rel D ((m, e) :: c) ((m, e) :: c') := by
  refine ⟨fun q => ?_, ?_⟩
  · simp only [ExtAt, resolveUp_cons]
    cases hl : lookup q m with
    | some x => simp
    | none => exact h.1 q
  · simp only [defaultNs_cons]
    cases e with
    | some u => rfl
    | none => exact h.2

/-! ### tables -/

def KeysIn (D : String → Prop) (m : Table) : Prop := ∀ kv ∈ m, D kv.1
def NodupKeys (m : Table) : Prop := (m.map (·.1)).Nodup

theorem lookup_some_mem {q u : String} {m : Table} (h : lookup q m = some u) : (q, u) ∈ m := by
  simp only [lookup, Option.map_eq_some_iff] at h
  obtain ⟨kv, hf, rfl⟩ := h
  have hm := List.mem_of_find?_eq_some hf
  have hk := List.find?_some hf
  have : kv.1 = q := by simpa using hk
  rw [← this]; exact hm

theorem lookup_none_of_notD {D : String → Prop} {m : Table} (hk : KeysIn D m) {q : String} (hq : ¬ D q) :
    lookup q m = none := by
  cases h : lookup q m with
  | none => rfl
  | some u => exact absurd (hk _ (lookup_some_mem h)) hq

theorem lookup_of_mem_nodup {m : Table} (hn : NodupKeys m) {p u : String} (h : (p, u) ∈ m) :
    lookup p m = some u := by
  induction m with
  | nil => cases h
  | cons kv rest ih =>
    simp only [NodupKeys, List.map_cons, List.nodup_cons] at hn
    rcases List.mem_cons.mp h with h | h
    · subst h; simp [lookup]
    · have hne : kv.1 ≠ p := by
        intro he; apply hn.1; rw [he]; exact List.mem_map.mpr ⟨(p, u), h, rfl⟩
      have : (kv.1 == p) = false := by simpa using hne
      have := ih hn.2 h
      simp only [lookup, List.find?_cons, *] at this ⊢
      exact this

theorem lookup_erase_self (p : String) (m : Table) : lookup p (tableErase p m) = none := by
  simp [lookup, tableErase, List.find?_filter]

theorem keysIn_erase {D : String → Prop} {m : Table} (p : String) (h : KeysIn D m) : KeysIn D (tableErase p m) :=
  fun kv hkv => h kv (List.mem_filter.mp hkv).1

theorem any_false_of_lookup_none {p : String} {t : Table} (h : lookup p t = none) :
    (t.any fun kv => kv.1 == p) = false := by
  simp only [lookup] at h
  cases hf : t.find? (fun kv => kv.1 == p) with
  | some x => simp [hf] at h
  | none => simpa [List.find?_eq_none] using hf

theorem dictSet_fresh {p : String} {t : Table} (u : String) (h : lookup p t = none) : dictSet t p u = t ++ [(p, u)] := by
  simp [dictSet, any_false_of_lookup_none h]

theorem keysIn_dictSet {D : String → Prop} {t : Table} {p : String} (u : String) (h : KeysIn D t) (hl : lookup p t = none)
    (hp : D p) : KeysIn D (dictSet t p u) := by
  rw [dictSet_fresh u hl]
  intro kv hkv
  rcases List.mem_append.mp hkv with hkv | hkv
  · exact h kv hkv
  · simp only [List.mem_singleton] at hkv; subst hkv; exact hp

theorem nodup_dictSet {t : Table} {p : String} (u : String) (h : NodupKeys t) (hl : lookup p t = none) :
    NodupKeys (dictSet t p u) := by
  rw [dictSet_fresh u hl]
  simp only [NodupKeys, List.map_append, List.map_cons, List.map_nil]
  refine List.nodup_append.mpr ⟨h, by simp, ?_⟩
  intro a ha b hb
  simp only [List.mem_singleton] at hb
  subst hb
  intro he
  subst he
  obtain ⟨kv, hkv, hk⟩ := List.mem_map.mp ha
  have hany := any_false_of_lookup_none hl
  simp only [List.any_eq_false, beq_iff_eq] at hany
  exact hany kv hkv hk

/-! ### resolution at a node (its own table, the special prefixes, the ancestors) -/

theorem resolvePrefix_cons (p : String) (m : Table) (e : Option String) (rest : Ctx) :
    resolvePrefix p ((m, e) :: rest) =
      match lookup p m with
      | some u => some u
      | none => match lookup p specialPrefixes with
        | some u => some u
        | none => resolvePrefix.resolveUp p rest := by
  simp only [resolvePrefix]
  cases lookup p m with
  | some u => rfl
  | none => cases lookup p specialPrefixes <;> rfl

/-- Resolution as `resolvePrefix` does it at the node that owns the innermost scope. -/
def RP (D : String → Prop) (c c' : Ctx) : Prop :=
  ∀ q, (∀ u, resolvePrefix q c = some u → resolvePrefix q c' = some u) ∧
       (resolvePrefix q c = none → ¬ D q → resolvePrefix q c' = none)

theorem rp_of_ext {D : String → Prop} (hD : ∀ p, D p → lookup p specialPrefixes = none)
    {m m' : Table} {e e' : Option String} {c c' : Ctx} (hk : KeysIn D m) (hk' : KeysIn D m')
    (h : ∀ q, ExtAt D ((m, e) :: c) ((m', e') :: c') q) : RP D ((m, e) :: c) ((m', e') :: c') := by
  intro q
  cases hs : lookup q specialPrefixes with
  | some s =>
    have hq : ¬ D q := fun hd => by rw [hD q hd] at hs; cases hs
    simp only [resolvePrefix_cons, lookup_none_of_notD hk hq, lookup_none_of_notD hk' hq, hs]
    simp
  | none =>
    have e1 : ∀ (mm : Table) (ee : Option String) (cc : Ctx),
        resolvePrefix q ((mm, ee) :: cc) = resolvePrefix.resolveUp q ((mm, ee) :: cc) := by
      intro mm ee cc
      simp only [resolvePrefix_cons, resolveUp_cons, hs]
      cases lookup q mm <;> rfl
    rw [e1, e1]
    exact h q

/-! ### well-formed trees -/

def PfxOK (c : Ctx) : Option String → Prop
  | none => True
  | some q => ∃ u, resolvePrefix q c = some u

def ValOK (D : String → Prop) (c : Ctx) (v : String) : Prop :=
  match (splitPrefix v).1 with
  | none => True
  | some q => (∃ u, resolvePrefix q c = some u) ∨ ¬ D q

mutual
  def Elem.WF (D : String → Prop) (ctx : Ctx) : Elem → Prop
    | .mk _ p _ e m a _ kids =>
      KeysIn D m ∧ NodupKeys m ∧ PfxOK ((m, e) :: ctx) p ∧
      (∀ x ∈ a, PfxOK ((m, e) :: ctx) x.pfx ∧ ValOK D ((m, e) :: ctx) x.value) ∧
      WFKids D ((m, e) :: ctx) kids
  def WFKids (D : String → Prop) (ctx : Ctx) : List Elem → Prop
    | [] => True
    | k :: ks => k.WF D ctx ∧ WFKids D ctx ks
end

theorem pfxOK_rp {D : String → Prop} {c c' : Ctx} (h : RP D c c') {p : Option String} (hp : PfxOK c p) : PfxOK c' p := by
  cases p with
  | none => trivial
  | some q => obtain ⟨u, hu⟩ := hp; exact ⟨u, (h q).1 u hu⟩

theorem valOK_rp {D : String → Prop} {c c' : Ctx} (h : RP D c c') {v : String} (hv : ValOK D c v) : ValOK D c' v := by
  unfold ValOK at hv ⊢
  cases hs : (splitPrefix v).1 with
  | none => trivial
  | some q =>
    simp only [hs] at hv ⊢
    rcases hv with ⟨u, hu⟩ | hd
    · exact Or.inl ⟨u, (h q).1 u hu⟩
    · exact Or.inr hd

theorem nsOf_rp {D : String → Prop} {c c' : Ctx} (h : RP D c c') (hd : defaultNs c = defaultNs c')
    {p : Option String} (hp : PfxOK c p) : nsOf p c' = nsOf p c := by
  cases p with
  | none => simp only [nsOf]; exact hd.symm
  | some q =>
    obtain ⟨u, hu⟩ := hp
    simp only [nsOf, hu, (h q).1 u hu]

theorem attrNs_rp {D : String → Prop} {c c' : Ctx} (h : RP D c c') {x : Attr} (hp : PfxOK c x.pfx) :
    attrNs x c' = attrNs x c := by
  unfold attrNs
  cases hx : x.pfx with
  | none => rfl
  | some q =>
    rw [hx] at hp
    obtain ⟨u, hu⟩ := hp
    simp only [hu, (h q).1 u hu]

theorem avalOf_rp {D : String → Prop} {c c' : Ctx} (h : RP D c c') {v : String} (hv : ValOK D c v) :
    avalOf v c' = avalOf v c := by
  unfold ValOK at hv
  unfold avalOf
  cases hs : (splitPrefix v).1 with
  | none => rfl
  | some q =>
    simp only [hs] at hv ⊢
    rcases hv with ⟨u, hu⟩ | hd
    · simp only [hu, (h q).1 u hu]
    · cases hr : resolvePrefix q c with
      | some u => simp only [(h q).1 u hr]
      | none => simp only [(h q).2 hr hd]

theorem attrs_rp {D : String → Prop} {c c' : Ctx} (h : RP D c c') (a : List Attr)
    (ha : ∀ x ∈ a, PfxOK c x.pfx ∧ ValOK D c x.value) :
    (a.map fun x => (⟨attrNs x c', x.name, avalOf x.value c'⟩ : IAttr)) =
    (a.map fun x => (⟨attrNs x c, x.name, avalOf x.value c⟩ : IAttr)) := by
  apply List.map_congr_left
  intro x hx
  rw [attrNs_rp h (ha x hx).1, avalOf_rp h (ha x hx).2]

mutual
  /-- A well-formed tree reads the same in every context that extends its own. -/
  theorem info_stable {D : String → Prop} (hD : ∀ p, D p → lookup p specialPrefixes = none) :
      (k : Elem) → (c c' : Ctx) → k.WF D c → Rel D c c' → k.info c' = k.info c
    | .mk i p n e m a t kids, c, c', hw, hr => by
      simp only [Elem.WF] at hw
      obtain ⟨hk, _, hp, ha, hkids⟩ := hw
      have hr' := Rel.cons m e hr
      have hrp := rp_of_ext hD hk hk hr'.1
      simp only [Elem.info]
      rw [infoKids_stable hD kids _ _ hkids hr', nsOf_rp hrp hr'.2 hp, attrs_rp hrp a ha]
  theorem infoKids_stable {D : String → Prop} (hD : ∀ p, D p → lookup p specialPrefixes = none) :
      (ks : List Elem) → (c c' : Ctx) → WFKids D c ks → Rel D c c' → infoKids c' ks = infoKids c ks
    | [], _, _, _, _ => rfl
    | k :: ks, c, c', hw, hr => by
      simp only [WFKids] at hw
      simp only [infoKids, info_stable hD k c c' hw.1 hr, infoKids_stable hD ks c c' hw.2 hr]
end

mutual
  theorem wf_stable {D : String → Prop} (hD : ∀ p, D p → lookup p specialPrefixes = none) :
      (k : Elem) → (c c' : Ctx) → k.WF D c → Rel D c c' → k.WF D c'
    | .mk i p n e m a t kids, c, c', hw, hr => by
      simp only [Elem.WF] at hw ⊢
      obtain ⟨hk, hn, hp, ha, hkids⟩ := hw
      have hr' := Rel.cons m e hr
      have hrp := rp_of_ext hD hk hk hr'.1
      exact ⟨hk, hn, pfxOK_rp hrp hp, fun x hx => ⟨pfxOK_rp hrp (ha x hx).1, valOK_rp hrp (ha x hx).2⟩,
        wfKids_stable hD kids _ _ hkids hr'⟩
  theorem wfKids_stable {D : String → Prop} (hD : ∀ p, D p → lookup p specialPrefixes = none) :
      (ks : List Elem) → (c c' : Ctx) → WFKids D c ks → Rel D c c' → WFKids D c' ks
    | [], _, _, _, _ => trivial
    | k :: ks, c, c', hw, hr => by
      simp only [WFKids] at hw ⊢
      exact ⟨wf_stable hD k c c' hw.1 hr, wfKids_stable hD ks c c' hw.2 hr⟩
end

/-! ### one node gives its declarations to its parent -/

theorem ExtAt.of_eq {D : String → Prop} {c c' : Ctx} {q : String}
    (h : resolvePrefix.resolveUp q c = resolvePrefix.resolveUp q c') : ExtAt D c c' q := by
  unfold ExtAt; rw [h]; exact ⟨fun _ h => h, fun h _ => h⟩

theorem rel_of_ext_same {D : String → Prop} {t t' : Table} {pe : Option String} {g : Ctx}
    (h : ∀ q, ExtAt D ((t, pe) :: g) ((t', pe) :: g) q) : Rel D ((t, pe) :: g) ((t', pe) :: g) :=
  ⟨h, by simp only [defaultNs_cons]⟩

/-- What the hoisting loop of one node guarantees: at and below the node nothing resolves
differently; at the parent every binding is kept and only prefixes from `D` are newly bound. -/
def HoistGood (D : String → Prop) (gamma : Ctx) (pe e : Option String) (own pt : Table) (h : Table × Table) : Prop :=
  (∀ q, resolvePrefix.resolveUp q ((own, e) :: (pt, pe) :: gamma) =
        resolvePrefix.resolveUp q ((h.1, e) :: (h.2, pe) :: gamma)) ∧
  (∀ q, ExtAt D ((pt, pe) :: gamma) ((h.2, pe) :: gamma) q) ∧
  KeysIn D h.1 ∧ KeysIn D h.2 ∧ NodupKeys h.2

theorem HoistGood.step {D : String → Prop} {gamma : Ctx} {pe e : Option String} {own pt own1 pt1 : Table}
    {h : Table × Table}
    (h1 : ∀ q, resolvePrefix.resolveUp q ((own, e) :: (pt, pe) :: gamma) =
               resolvePrefix.resolveUp q ((own1, e) :: (pt1, pe) :: gamma))
    (h2 : ∀ q, ExtAt D ((pt, pe) :: gamma) ((pt1, pe) :: gamma) q)
    (g : HoistGood D gamma pe e own1 pt1 h) : HoistGood D gamma pe e own pt h := by
  refine ⟨fun q => (h1 q).trans (g.1 q), fun q => ?_, g.2.2⟩
  exact ⟨fun u hu => (g.2.1 q).1 u ((h2 q).1 u hu), fun hn hd => (g.2.1 q).2 ((h2 q).2 hn hd) hd⟩

theorem hoist_ok {D : String → Prop} (hD : ∀ p, D p → lookup p specialPrefixes = none)
    (gamma : Ctx) (ppfx pe e : Option String) :
    (rest own pt : Table) → NodupKeys rest → (∀ kv ∈ rest, lookup kv.1 own = some kv.2) →
    KeysIn D own → KeysIn D pt → NodupKeys pt →
    HoistGood D gamma pe e own pt (hoist true gamma ppfx pe rest own pt)
  | [], own, pt, _, _, hko, hkp, hnp => by
    simp only [hoist]
    exact ⟨fun _ => rfl, fun _ => ExtAt.of_eq rfl, hko, hkp, hnp⟩
  | (p, u) :: rest, own, pt, hn, hl, hko, hkp, hnp => by
    have hpo : lookup p own = some u := hl (p, u) List.mem_cons_self
    have hDp : D p := hko _ (lookup_some_mem hpo)
    simp only [NodupKeys, List.map_cons, List.nodup_cons] at hn
    have hne : ∀ kv ∈ rest, kv.1 ≠ p := fun kv hkv he => hn.1 (he ▸ List.mem_map.mpr ⟨kv, hkv, rfl⟩)
    have hl' : ∀ kv ∈ rest, lookup kv.1 (tableErase p own) = some kv.2 := fun kv hkv => by
      rw [lookup_erase_other own p kv.1 (hne kv hkv)]; exact hl kv (List.mem_cons_of_mem _ hkv)
    have hl0 : ∀ kv ∈ rest, lookup kv.1 own = some kv.2 := fun kv hkv => hl kv (List.mem_cons_of_mem _ hkv)
    simp only [hoist]
    cases hlp : lookup p pt with
    | some pu =>
      simp only
      by_cases hpu : pu = u
      · subst hpu
        simp only [beq_self_eq_true, if_true]
        refine HoistGood.step (fun q => ?_) (fun q => ExtAt.of_eq rfl)
          (hoist_ok hD gamma ppfx pe e rest (tableErase p own) pt hn.2 hl' (keysIn_erase p hko) hkp hnp)
        by_cases hq : q = p
        · subst hq
          simp only [resolveUp_cons, hpo, lookup_erase_self, hlp]
        · simp only [resolveUp_cons, lookup_erase_other own p q hq]
      · have : (pu == u) = false := by simpa using hpu
        simp only [this, Bool.false_eq_true, if_false]
        exact hoist_ok hD gamma ppfx pe e rest own pt hn.2 hl0 hko hkp hnp
    | none =>
      simp only
      by_cases hpp : (ppfx == some p) = true
      · simp only [hpp, if_true]
        exact hoist_ok hD gamma ppfx pe e rest own pt hn.2 hl0 hko hkp hnp
      · simp only [hpp, Bool.false_eq_true, if_false, Bool.true_and]
        have hinh : resolvePrefix p ((pt, pe) :: gamma) = resolvePrefix.resolveUp p gamma := by
          simp only [resolvePrefix_cons, hlp, hD p hDp]
        rw [hinh]
        cases hg : resolvePrefix.resolveUp p gamma with
        | none =>
          simp only [Bool.false_eq_true, if_false]
          refine HoistGood.step (fun q => ?_) (fun q => ?_)
            (hoist_ok hD gamma ppfx pe e rest (tableErase p own) (dictSet pt p u) hn.2 hl' (keysIn_erase p hko)
              (keysIn_dictSet u hkp hlp hDp) (nodup_dictSet u hnp hlp))
          · by_cases hq : q = p
            · subst hq
              simp only [resolveUp_cons, hpo, lookup_erase_self, lookup_dictSet_same pt q u hlp]
            · simp only [resolveUp_cons, lookup_erase_other own p q hq, lookup_dictSet_other pt p q u hlp hq]
          · by_cases hq : q = p
            · subst hq
              simp only [ExtAt, resolveUp_cons, hlp, hg, lookup_dictSet_same pt q u hlp]
              exact ⟨fun _ h => (by cases h), fun _ hd => absurd hDp hd⟩
            · exact ExtAt.of_eq (by simp only [resolveUp_cons, lookup_dictSet_other pt p q u hlp hq])
        | some u' =>
          by_cases hu : u' = u
          · subst hu
            simp only [bne_self_eq_false, Bool.false_eq_true, if_false]
            refine HoistGood.step (fun q => ?_) (fun q => ?_)
              (hoist_ok hD gamma ppfx pe e rest (tableErase p own) (dictSet pt p u') hn.2 hl' (keysIn_erase p hko)
                (keysIn_dictSet u' hkp hlp hDp) (nodup_dictSet u' hnp hlp))
            · by_cases hq : q = p
              · subst hq
                simp only [resolveUp_cons, hpo, lookup_erase_self, lookup_dictSet_same pt q u' hlp]
              · simp only [resolveUp_cons, lookup_erase_other own p q hq, lookup_dictSet_other pt p q u' hlp hq]
            · by_cases hq : q = p
              · subst hq
                exact ExtAt.of_eq (by simp only [resolveUp_cons, hlp, hg, lookup_dictSet_same pt q u' hlp])
              · exact ExtAt.of_eq (by simp only [resolveUp_cons, lookup_dictSet_other pt p q u' hlp hq])
          · have : (u' != u) = true := by simpa using hu
            simp only [this, if_true]
            exact hoist_ok hD gamma ppfx pe e rest own pt hn.2 hl0 hko hkp hnp

/-! ### the whole pass -/

mutual
  theorem promoteIn_ok {D : String → Prop} (hD : ∀ p, D p → lookup p specialPrefixes = none) :
      (k : Elem) → (gamma : Ctx) → (ppfx pe : Option String) → (pt : Table) →
      k.WF D ((pt, pe) :: gamma) → KeysIn D pt → NodupKeys pt →
      (∀ q, ExtAt D ((pt, pe) :: gamma) (((k.promoteIn true gamma ppfx pe pt).2, pe) :: gamma) q) ∧
      KeysIn D (k.promoteIn true gamma ppfx pe pt).2 ∧ NodupKeys (k.promoteIn true gamma ppfx pe pt).2 ∧
      ∀ X, Rel D (((k.promoteIn true gamma ppfx pe pt).2, pe) :: gamma) X →
        (k.promoteIn true gamma ppfx pe pt).1.info X = k.info ((pt, pe) :: gamma)
    | .mk i p n e m a t kids, gamma, ppfx, pe, pt, hw, hkp, hnp => by
      simp only [Elem.WF] at hw
      obtain ⟨hk, hn, hp, ha, hkids⟩ := hw
      have IH := promoteKids_ok hD kids ((pt, pe) :: gamma) p e m hkids hk hn
      obtain ⟨IH1, IH2, IH3, IH4⟩ := IH
      have H := hoist_ok hD gamma ppfx pe e _ _ pt IH3
        (fun kv hkv => lookup_of_mem_nodup IH3 hkv) IH2 hkp hnp
      simp only [Elem.promoteIn]
      refine ⟨H.2.1, H.2.2.2.1, H.2.2.2.2, fun X hX => ?_⟩
      have R1 := rel_of_ext_same IH1
      have R2 : Rel D (((promoteKids true ((pt, pe) :: gamma) p e m kids).1, e) :: (pt, pe) :: gamma)
          (((hoist true gamma ppfx pe (promoteKids true ((pt, pe) :: gamma) p e m kids).1
              (promoteKids true ((pt, pe) :: gamma) p e m kids).1 pt).1, e) ::
           ((hoist true gamma ppfx pe (promoteKids true ((pt, pe) :: gamma) p e m kids).1
              (promoteKids true ((pt, pe) :: gamma) p e m kids).1 pt).2, pe) :: gamma) :=
        ⟨fun q => ExtAt.of_eq (H.1 q), by simp only [defaultNs_cons]⟩
      have R3 := Rel.cons (hoist true gamma ppfx pe (promoteKids true ((pt, pe) :: gamma) p e m kids).1
              (promoteKids true ((pt, pe) :: gamma) p e m kids).1 pt).1 e hX
      have R23 := R2.trans R3
      have R := R1.trans R23
      have hrp := rp_of_ext hD hk H.2.2.1 R.1
      simp only [Elem.info]
      rw [IH4 _ R23, nsOf_rp hrp R.2 hp, attrs_rp hrp a ha]
  theorem promoteKids_ok {D : String → Prop} (hD : ∀ p, D p → lookup p specialPrefixes = none) :
      (ks : List Elem) → (gamma : Ctx) → (spfx se : Option String) → (st : Table) →
      WFKids D ((st, se) :: gamma) ks → KeysIn D st → NodupKeys st →
      (∀ q, ExtAt D ((st, se) :: gamma) (((promoteKids true gamma spfx se st ks).1, se) :: gamma) q) ∧
      KeysIn D (promoteKids true gamma spfx se st ks).1 ∧ NodupKeys (promoteKids true gamma spfx se st ks).1 ∧
      ∀ X, Rel D (((promoteKids true gamma spfx se st ks).1, se) :: gamma) X →
        infoKids X (promoteKids true gamma spfx se st ks).2 = infoKids ((st, se) :: gamma) ks
    | [], gamma, spfx, se, st, _, hk, hn => by
      simp only [promoteKids]
      exact ⟨fun _ => ExtAt.of_eq rfl, hk, hn, fun _ _ => rfl⟩
    | k :: ks, gamma, spfx, se, st, hw, hk, hn => by
      simp only [WFKids] at hw
      obtain ⟨A1, A2, A3, A4⟩ := promoteIn_ok hD k gamma spfx se st hw.1 hk hn
      have RA := rel_of_ext_same A1
      obtain ⟨B1, B2, B3, B4⟩ := promoteKids_ok hD ks gamma spfx se _ (wfKids_stable hD ks _ _ hw.2 RA) A2 A3
      have RB := rel_of_ext_same B1
      simp only [promoteKids]
      refine ⟨(RA.trans RB).1, B2, B3, fun X hX => ?_⟩
      simp only [infoKids]
      rw [A4 X (RB.trans hX), B4 X hX, infoKids_stable hD ks _ _ hw.2 RA]
end

/-! ### a decision procedure for well-formedness (so that the hypothesis can be evaluated) -/

def pfxOKb (c : Ctx) : Option String → Bool
  | none => true
  | some q => (resolvePrefix q c).isSome

def valOKb (decl : List String) (c : Ctx) (v : String) : Bool :=
  match (splitPrefix v).1 with
  | none => true
  | some q => (resolvePrefix q c).isSome || !decl.contains q

mutual
  def Elem.wfb (decl : List String) (ctx : Ctx) : Elem → Bool
    | .mk _ p _ e m a _ kids =>
      m.all (fun kv => decl.contains kv.1) && decide ((m.map (·.1)).Nodup) && pfxOKb ((m, e) :: ctx) p &&
      a.all (fun x => pfxOKb ((m, e) :: ctx) x.pfx && valOKb decl ((m, e) :: ctx) x.value) &&
      wfbKids decl ((m, e) :: ctx) kids
  def wfbKids (decl : List String) (ctx : Ctx) : List Elem → Bool
    | [] => true
    | k :: ks => k.wfb decl ctx && wfbKids decl ctx ks
end

theorem pfxOKb_sound {c : Ctx} {p : Option String} (h : pfxOKb c p = true) : PfxOK c p := by
  cases p with
  | none => trivial
  | some q =>
    simp only [pfxOKb, Option.isSome_iff_exists] at h
    exact h

theorem valOKb_sound {decl : List String} {c : Ctx} {v : String} (h : valOKb decl c v = true) :
    ValOK (· ∈ decl) c v := by
  unfold valOKb at h
  unfold ValOK
  cases hs : (splitPrefix v).1 with
  | none => trivial
  | some q =>
    simp only [hs, Bool.or_eq_true, Option.isSome_iff_exists, Bool.not_eq_true', List.contains_eq_mem,
      decide_eq_false_iff_not] at h ⊢
    exact h

mutual
  theorem wfb_sound (decl : List String) : (k : Elem) → (ctx : Ctx) → k.wfb decl ctx = true → k.WF (· ∈ decl) ctx
    | .mk i p n e m a t kids, ctx, h => by
      simp only [Elem.wfb, Bool.and_eq_true, List.all_eq_true, decide_eq_true_eq, List.contains_eq_mem] at h
      obtain ⟨⟨⟨⟨h1, h2⟩, h3⟩, h4⟩, h5⟩ := h
      simp only [Elem.WF]
      exact ⟨fun kv hkv => h1 kv hkv, h2, pfxOKb_sound h3,
        fun x hx => ⟨pfxOKb_sound (h4 x hx).1, valOKb_sound (h4 x hx).2⟩, wfbKids_sound decl kids _ h5⟩
  theorem wfbKids_sound (decl : List String) : (ks : List Elem) → (ctx : Ctx) → wfbKids decl ctx ks = true →
      WFKids (· ∈ decl) ctx ks
    | [], _, _ => trivial
    | k :: ks, ctx, h => by
      simp only [wfbKids, Bool.and_eq_true] at h
      simp only [WFKids]
      exact ⟨wfb_sound decl k ctx h.1, wfbKids_sound decl ks ctx h.2⟩
end

mutual
  /-- Every prefix some table of the tree declares. -/
  def Elem.declared : Elem → List String
    | .mk _ _ _ _ m _ _ kids => m.map (·.1) ++ declaredKids kids
  def declaredKids : List Elem → List String
    | [] => []
    | k :: ks => k.declared ++ declaredKids ks
end

/-- The hypothesis of `promote_preserves_infoset`, evaluated for the tree's own declared prefixes. -/
def Elem.wellFormed (t : Elem) : Bool :=
  t.declared.all (fun p => (lookup p specialPrefixes).isNone) && t.wfb t.declared []

end Suds.Xml
