import SudsModel.Xml.Enc
namespace Suds.Enc
open Suds.Gen

theorem subChr_append (c : Char) (repl a b : List Char) :
    subChr c repl (a ++ b) = subChr c repl a ++ subChr c repl b := by
  induction a with
  | nil => simp [subChr]
  | cons x xs ih => simp [subChr]; split <;> simp [ih]

theorem encodeSeq_eq_enc1 (s : List Char) : encodeSeq s = enc1 s := by
  simp only [encodeSeq, encodings, List.foldl, applyRule]
  induction s with
  | nil => simp [subAmp, subChr, enc1]
  | cons c rest ih =>
    simp only [subAmp, enc1]
    by_cases h1 : c = '&'
    · subst h1
      simp only [if_true]
      have : lookaheadHit [['a', 'm', 'p'], ['l', 't'], ['g', 't'], ['q', 'u', 'o', 't'], ['a', 'p', 'o', 's']] rest
          = lookaheadHit predefinedNames rest := rfl
      rw [this]
      split
      · simp [subChr, ih]
      · simp [subChr_append, subChr, ih]
    · simp only [h1, if_false]
      by_cases h2 : c = '<'
      · subst h2; simp [subChr, subChr_append, ih]
      · by_cases h3 : c = '>'
        · subst h3; simp [subChr, subChr_append, ih]
        · by_cases h4 : c = '"'
          · subst h4; simp [subChr, subChr_append, ih]
          · by_cases h5 : c = '\''
            · subst h5; simp [subChr, subChr_append, ih]
            · simp [subChr, h2, h3, h4, h5, ih]


theorem sw_cons {p : Char} {ps s : List Char} (h : startsWith (p :: ps) s = true) :
    ∃ r, s = p :: r ∧ startsWith ps r = true := by
  cases s with
  | nil => simp [startsWith] at h
  | cons c r => simp [startsWith] at h; exact ⟨r, by simp [h.1], h.2⟩

theorem lookahead_cases {rest : List Char} (h : lookaheadHit predefinedNames rest = true) :
    (∃ r, rest = 'a' :: 'm' :: 'p' :: ';' :: r) ∨ (∃ r, rest = 'l' :: 't' :: ';' :: r) ∨
    (∃ r, rest = 'g' :: 't' :: ';' :: r) ∨ (∃ r, rest = 'q' :: 'u' :: 'o' :: 't' :: ';' :: r) ∨
    (∃ r, rest = 'a' :: 'p' :: 'o' :: 's' :: ';' :: r) := by
  simp only [lookaheadHit, predefinedNames, predefined, List.map, List.any, Bool.or_false,
    Bool.or_eq_true, List.cons_append, List.nil_append] at h
  rcases h with h | h | h | h | h
  · obtain ⟨r1, rfl, h1⟩ := sw_cons h; obtain ⟨r2, rfl, h2⟩ := sw_cons h1
    obtain ⟨r3, rfl, h3⟩ := sw_cons h2; obtain ⟨r4, rfl, h4⟩ := sw_cons h3
    exact Or.inl ⟨_, rfl⟩
  · obtain ⟨r1, rfl, h1⟩ := sw_cons h; obtain ⟨r2, rfl, h2⟩ := sw_cons h1
    obtain ⟨r3, rfl, h3⟩ := sw_cons h2
    exact Or.inr (Or.inl ⟨_, rfl⟩)
  · obtain ⟨r1, rfl, h1⟩ := sw_cons h; obtain ⟨r2, rfl, h2⟩ := sw_cons h1
    obtain ⟨r3, rfl, h3⟩ := sw_cons h2
    exact Or.inr (Or.inr (Or.inl ⟨_, rfl⟩))
  · obtain ⟨r1, rfl, h1⟩ := sw_cons h; obtain ⟨r2, rfl, h2⟩ := sw_cons h1
    obtain ⟨r3, rfl, h3⟩ := sw_cons h2; obtain ⟨r4, rfl, h4⟩ := sw_cons h3
    obtain ⟨r5, rfl, h5⟩ := sw_cons h4
    exact Or.inr (Or.inr (Or.inr (Or.inl ⟨_, rfl⟩)))
  · obtain ⟨r1, rfl, h1⟩ := sw_cons h; obtain ⟨r2, rfl, h2⟩ := sw_cons h1
    obtain ⟨r3, rfl, h3⟩ := sw_cons h2; obtain ⟨r4, rfl, h4⟩ := sw_cons h3
    obtain ⟨r5, rfl, h5⟩ := sw_cons h4
    exact Or.inr (Or.inr (Or.inr (Or.inr ⟨_, rfl⟩)))


theorem enc1_amp (r : List Char) : enc1 ('a' :: 'm' :: 'p' :: ';' :: r) = 'a' :: 'm' :: 'p' :: ';' :: enc1 r := by
  simp [enc1]
theorem enc1_lt (r : List Char) : enc1 ('l' :: 't' :: ';' :: r) = 'l' :: 't' :: ';' :: enc1 r := by
  simp [enc1]
theorem enc1_gt (r : List Char) : enc1 ('g' :: 't' :: ';' :: r) = 'g' :: 't' :: ';' :: enc1 r := by
  simp [enc1]
theorem enc1_quot (r : List Char) : enc1 ('q' :: 'u' :: 'o' :: 't' :: ';' :: r) = 'q' :: 'u' :: 'o' :: 't' :: ';' :: enc1 r := by
  simp [enc1]
theorem enc1_apos (r : List Char) : enc1 ('a' :: 'p' :: 'o' :: 's' :: ';' :: r) = 'a' :: 'p' :: 'o' :: 's' :: ';' :: enc1 r := by
  simp [enc1]


def StopOK (stop : List Char) : Prop := ∀ c, c ∈ stop → c = '<' ∨ c = '"'

theorem notin {stop : List Char} (hs : StopOK stop) (c : Char) (h1 : c ≠ '<') (h2 : c ≠ '"') : c ∉ stop :=
  fun h => by cases hs c h <;> contradiction

/-- Reading one predefined reference. -/
theorem read_ref_amp {stop} (lit) (hs : StopOK stop) (x : List Char) :
    readRef stop lit none ('&' :: 'a' :: 'm' :: 'p' :: ';' :: x) = (readRef stop lit none x).map ('&' :: ·) := by
  simp [readRef, refChar, entityChar, predefined, notin hs 'a' (by decide) (by decide),
    notin hs 'm' (by decide) (by decide), notin hs 'p' (by decide) (by decide)]
theorem read_ref_lt {stop} (lit) (hs : StopOK stop) (x : List Char) :
    readRef stop lit none ('&' :: 'l' :: 't' :: ';' :: x) = (readRef stop lit none x).map ('<' :: ·) := by
  simp [readRef, refChar, entityChar, predefined, notin hs 'l' (by decide) (by decide),
    notin hs 't' (by decide) (by decide)]
theorem read_ref_gt {stop} (lit) (hs : StopOK stop) (x : List Char) :
    readRef stop lit none ('&' :: 'g' :: 't' :: ';' :: x) = (readRef stop lit none x).map ('>' :: ·) := by
  simp [readRef, refChar, entityChar, predefined, notin hs 'g' (by decide) (by decide),
    notin hs 't' (by decide) (by decide)]
theorem read_ref_quot {stop} (lit) (hs : StopOK stop) (x : List Char) :
    readRef stop lit none ('&' :: 'q' :: 'u' :: 'o' :: 't' :: ';' :: x) = (readRef stop lit none x).map ('"' :: ·) := by
  simp [readRef, refChar, entityChar, predefined, notin hs 'q' (by decide) (by decide),
    notin hs 'u' (by decide) (by decide), notin hs 'o' (by decide) (by decide), notin hs 't' (by decide) (by decide)]
theorem read_ref_apos {stop} (lit) (hs : StopOK stop) (x : List Char) :
    readRef stop lit none ('&' :: 'a' :: 'p' :: 'o' :: 's' :: ';' :: x) = (readRef stop lit none x).map ('\'' :: ·) := by
  simp [readRef, refChar, entityChar, predefined, notin hs 'a' (by decide) (by decide),
    notin hs 'p' (by decide) (by decide), notin hs 'o' (by decide) (by decide), notin hs 's' (by decide) (by decide)]


theorem read_lit {stop} (lit) (c : Char) (h1 : c ≠ '&') (h2 : c ∉ stop) (x : List Char) :
    readRef stop lit none (c :: x) = (readRef stop lit none x).map (lit c :: ·) := by
  simp [readRef, h1, h2]

theorem isSome_map' {α β} (o : Option α) (f : α → β) : (o.map f).isSome = o.isSome := by
  cases o <;> rfl

/-- Well-formedness: the reader accepts the encoder's output for *every* string. -/
theorem read_enc1_isSome {stop} (lit) (hs : StopOK stop) (s : List Char) :
    (readRef stop lit none (enc1 s)).isSome = true := by
  have na := notin hs 'a' (by decide) (by decide)
  have nm := notin hs 'm' (by decide) (by decide)
  have np := notin hs 'p' (by decide) (by decide)
  have nl := notin hs 'l' (by decide) (by decide)
  have nt := notin hs 't' (by decide) (by decide)
  have ng := notin hs 'g' (by decide) (by decide)
  have nq := notin hs 'q' (by decide) (by decide)
  have nu := notin hs 'u' (by decide) (by decide)
  have no := notin hs 'o' (by decide) (by decide)
  have ns := notin hs 's' (by decide) (by decide)
  have nsc := notin hs ';' (by decide) (by decide)
  induction s with
  | nil => simp [enc1, readRef]
  | cons c rest ih =>
    simp only [enc1]
    by_cases h1 : c = '&'
    · subst h1
      simp only [if_true]
      split
      · rename_i hl
        rcases lookahead_cases hl with ⟨r, rfl⟩ | ⟨r, rfl⟩ | ⟨r, rfl⟩ | ⟨r, rfl⟩ | ⟨r, rfl⟩
        · rw [enc1_amp] at ih ⊢; rw [read_ref_amp lit hs]
          simp [read_lit, na, nm, np, nsc, isSome_map'] at ih ⊢; exact ih
        · rw [enc1_lt] at ih ⊢; rw [read_ref_lt lit hs]
          simp [read_lit, nl, nt, nsc, isSome_map'] at ih ⊢; exact ih
        · rw [enc1_gt] at ih ⊢; rw [read_ref_gt lit hs]
          simp [read_lit, ng, nt, nsc, isSome_map'] at ih ⊢; exact ih
        · rw [enc1_quot] at ih ⊢; rw [read_ref_quot lit hs]
          simp [read_lit, nq, nu, no, nt, nsc, isSome_map'] at ih ⊢; exact ih
        · rw [enc1_apos] at ih ⊢; rw [read_ref_apos lit hs]
          simp [read_lit, na, np, no, ns, nsc, isSome_map'] at ih ⊢; exact ih
      · simp only [List.cons_append, List.nil_append]; rw [read_ref_amp lit hs]; simpa using ih
    · simp only [h1, if_false]
      by_cases h2 : c = '<'
      · subst h2; simp only [if_true, List.cons_append, List.nil_append]; rw [read_ref_lt lit hs]; simpa using ih
      · by_cases h3 : c = '>'
        · subst h3; simp only [if_true, List.cons_append, List.nil_append]; simp; rw [read_ref_gt lit hs]; simpa using ih
        · by_cases h4 : c = '"'
          · subst h4; simp; rw [read_ref_quot lit hs]; simpa using ih
          · by_cases h5 : c = '\''
            · subst h5; simp; rw [read_ref_apos lit hs]; simpa using ih
            · simp only [h2, h3, h4, h5, if_false]
              rw [read_lit lit c h1 (notin hs c h2 h4)]; simpa using ih

/-- Round trip through the reference reader for strings without entity spellings. -/
theorem read_enc1_clean {stop} (lit : Char → Char) (hs : StopOK stop)
    (hl : lit '&' = '&' ∧ lit '<' = '<' ∧ lit '>' = '>' ∧ lit '"' = '"' ∧ lit '\'' = '\'')
    (s : List Char) (hc : clean s = true) :
    readRef stop lit none (enc1 s) = some (s.map lit) := by
  induction s with
  | nil => simp [enc1, readRef]
  | cons c rest ih =>
    simp only [clean, Bool.and_eq_true, Bool.not_eq_true', Bool.and_eq_false_iff, beq_eq_false_iff_ne] at hc
    obtain ⟨hc1, hc2⟩ := hc
    have ih := ih hc2
    simp only [enc1]
    by_cases h1 : c = '&'
    · subst h1
      have : lookaheadHit predefinedNames rest = false := by
        rcases hc1 with h | h
        · exact absurd rfl h
        · exact h
      simp only [if_true, this, List.cons_append, List.nil_append, Bool.false_eq_true, if_false]
      rw [read_ref_amp lit hs, ih]; simp [hl.1]
    · simp only [h1, if_false]
      by_cases h2 : c = '<'
      · subst h2; simp; rw [read_ref_lt lit hs, ih]; simp [hl.2.1]
      · by_cases h3 : c = '>'
        · subst h3; simp; rw [read_ref_gt lit hs, ih]; simp [hl.2.2.1]
        · by_cases h4 : c = '"'
          · subst h4; simp; rw [read_ref_quot lit hs, ih]; simp [hl.2.2.2.1]
          · by_cases h5 : c = '\''
            · subst h5; simp; rw [read_ref_apos lit hs, ih]; simp [hl.2.2.2.2]
            · simp only [h2, h3, h4, h5, if_false]
              rw [read_lit lit c h1 (notin hs c h2 h4), ih]; simp

theorem enc1_of_not_needs (s : List Char) (h : needsEncoding s = false) : enc1 s = s := by
  induction s with
  | nil => rfl
  | cons c rest ih =>
    simp [needsEncoding, Suds.Gen.encSpecial] at h
    obtain ⟨⟨a1, a2⟩, ⟨b1, b2⟩, ⟨c1, c2⟩, ⟨d1, d2⟩, e1, e2⟩ := h
    have : needsEncoding rest = false := by
      simp [needsEncoding, Suds.Gen.encSpecial, a2, b2, c2, d2, e2]
    simp [enc1, ih this, Ne.symm a1, Ne.symm b1, Ne.symm c1, Ne.symm d1, Ne.symm e1]

theorem encode_eq_enc1 (s : List Char) : encode s = enc1 s := by
  unfold encode
  split
  · exact encodeSeq_eq_enc1 s
  · rename_i h; exact (enc1_of_not_needs s (by simpa using h)).symm

/-- `enc1` never introduces a carriage return, tab or newline. -/
theorem enc1_mem_ws (s : List Char) (c : Char) (hc : c = '\r' ∨ c = '\n' ∨ c = '\t') :
    c ∈ enc1 s → c ∈ s := by
  induction s with
  | nil => simp [enc1]
  | cons x rest ih =>
    simp only [enc1]
    intro h
    rcases hc with rfl | rfl | rfl <;>
    · split at h
      · split at h <;> simp at h <;> first | (rcases h with h | h <;> simp_all) | simp_all
      · split at h
        · simp at h; simp_all
        · split at h
          · simp at h; simp_all
          · split at h
            · simp at h; simp_all
            · split at h
              · simp at h; simp_all
              · simp at h ⊢; rcases h with h | h
                · exact Or.inl h
                · exact Or.inr (ih h)

theorem normEol_noCR (x : List Char) (h : '\r' ∉ x) : normEol x = x := by
  unfold normEol
  induction x with
  | nil => rfl
  | cons c r ih =>
    simp at h
    simp [normEolAux, Ne.symm h.1, ih h.2]



end Suds.Enc
