import SudsModel.Xsd.Schema
/-! Lemmas about collecting decoded children, used by the C02 round-trip theorem. -/
namespace Suds.Schema
open Suds.Xml

/-- What an object's member contributes to its parent element. -/
def emit (env : Env) (f : Nat) (fields : List (String × Val)) (md : Member × Nat) : List Info :=
  match vlookup md.1.name fields with
  | none => []
  | some x => if skipped md.1 x then [] else
      marshal env f md.1.name (memberNs env md.1 md.2) md.1.type md.1.nillable x

/-- one level of `marshal` on an object value -/
theorem marshal_obj (env : Env) (f : Nat) (name : String) (ns : Option String) (k : Key) (nl : Bool)
    (real : Option Key) (fields : List (String × Val)) :
    marshal env (f + 1) name ns (.complex k) nl (.obj real fields) =
      [.mk ns name ((if real.getD k == k && !env.encoded then [] else [xsiType env (real.getD k)]) ++
          (attrsOf env (env.types.length + 1) (real.getD k)).filterMap (attrInfo fields)) none
        ((members env (env.types.length + 1) (real.getD k)).flatMap (emit env f fields))] := by
  simp only [marshal, emit]; rfl

theorem plookup_append_other' (k k2 : String) (v : Py) (hne : k2 ≠ k) : ∀ acc,
    plookup k (acc ++ [(k2, v)]) = plookup k acc := by
  intro acc
  induction acc with
  | nil =>
    have : (k2 == k) = false := by simpa using hne
    simp [plookup, this]
  | cons e rest ih =>
    obtain ⟨k', v'⟩ := e
    by_cases hk : k' == k <;> simp [plookup, hk, ih]

theorem plookup_append_new' (k : String) (v : Py) : ∀ acc, plookup k acc = none →
    plookup k (acc ++ [(k, v)]) = some v := by
  intro acc
  induction acc with
  | nil => intro _; simp [plookup]
  | cons e rest ih =>
    intro h
    obtain ⟨k', v'⟩ := e
    by_cases hk : k' == k
    · simp [plookup, hk] at h
    · simp only [plookup, hk] at h
      simp [plookup, hk, ih h]

/-- replacing the value of the last entry, when no earlier entry has that key -/
theorem pset_last (k : String) (o v : Py) : ∀ acc, plookup k acc = none →
    pset k v (acc ++ [(k, o)]) = acc ++ [(k, v)] := by
  intro acc
  induction acc with
  | nil => intro _; simp [pset]
  | cons e rest ih =>
    intro h
    obtain ⟨k', v'⟩ := e
    by_cases hk : k' == k
    · simp [plookup, hk] at h
    · simp only [plookup, hk] at h
      simp [pset, hk, ih h]

/-- One member's occurrences: its key, whether it repeats, and the decoded values in order. -/
structure Group where
  key : String
  multi : Bool
  vals : List Py

def Group.triples (g : Group) : List (String × Bool × Py) := g.vals.map fun v => (g.key, g.multi, v)

/-- what the object holds for that member afterwards -/
def Group.entry (g : Group) : List (String × Py) :=
  match g.vals with
  | [] => []
  | v :: rest => if g.multi then [(g.key, .list (v :: rest))] else
      (match rest with
        | [] => [(g.key, v)]
        | _ => [(g.key, .list (v :: rest))])

def step (acc : List (String × Py)) (x : String × Bool × Py) : List (String × Py) :=
  accStep acc x.1 x.2.1 x.2.2

/-- appending to a repeating member's list -/
theorem foldl_more (k : String) (multi : Bool) : ∀ (vs : List Py) (acc : List (String × Py)) (xs : List Py),
    plookup k acc = none →
    (vs.map fun v => (k, multi, v)).foldl step (acc ++ [(k, .list xs)]) = acc ++ [(k, .list (xs ++ vs))] := by
  intro vs
  induction vs with
  | nil => intro acc xs _; simp
  | cons v vs ih =>
    intro acc xs h
    simp only [List.map_cons, List.foldl_cons]
    have hl : plookup k (acc ++ [(k, .list xs)]) = some (.list xs) := plookup_append_new' k _ acc h
    have hs : step (acc ++ [(k, .list xs)]) (k, multi, v) = acc ++ [(k, .list (xs ++ [v]))] := by
      simp only [step, accStep, hl]
      exact pset_last k _ _ acc h
    rw [hs, ih acc (xs ++ [v]) h]
    simp

/-- the values of one group are not None and not lists themselves (leaves, objects) -/
def Plain : Py → Prop
  | .none => False
  | .list _ => False
  | _ => True

theorem group_fold (g : Group) (acc : List (String × Py)) (h : plookup g.key acc = none)
    (hp : ∀ v ∈ g.vals, Plain v) (hs : g.multi = false → g.vals.length ≤ 1) :
    g.triples.foldl step acc = acc ++ g.entry := by
  obtain ⟨k, multi, vals⟩ := g
  simp only [Group.triples, Group.entry] at *
  cases vals with
  | nil => simp
  | cons v rest =>
    have hv : Plain v := hp v (by simp)
    simp only [List.map_cons, List.foldl_cons]
    cases multi with
    | true =>
      have h1 : step acc (k, true, v) = acc ++ [(k, .list [v])] := by
        simp only [step, accStep, h]
        cases v <;> simp_all [Plain]
      rw [h1, foldl_more k true rest acc [v] h]
      simp
    | false =>
      have hl : rest = [] := by
        have := hs rfl
        simp at this
        exact this
      subst hl
      simp [step, accStep, h]

/-- **Children grouped by member** (each member's occurrences contiguous, members distinct) are
collected into one entry per member, in member order. -/
theorem groups_fold : ∀ (gs : List Group) (acc : List (String × Py)),
    (gs.map (·.key)).Nodup → (∀ g ∈ gs, plookup g.key acc = none) →
    (∀ g ∈ gs, ∀ v ∈ g.vals, Plain v) → (∀ g ∈ gs, g.multi = false → g.vals.length ≤ 1) →
    (gs.flatMap Group.triples).foldl step acc = acc ++ gs.flatMap Group.entry := by
  intro gs
  induction gs with
  | nil => intro acc _ _ _ _; simp
  | cons g gs ih =>
    intro acc hn hk hp hs
    simp only [List.flatMap_cons, List.foldl_append]
    rw [group_fold g acc (hk g (by simp)) (hp g (by simp)) (hs g (by simp))]
    have hn' : g.key ∉ gs.map (·.key) ∧ (gs.map (·.key)).Nodup := List.nodup_cons.mp (by simpa using hn)
    rw [ih (acc ++ g.entry) hn'.2 ?_ (fun g' hg' => hp g' (List.mem_cons_of_mem _ hg'))
      (fun g' hg' => hs g' (List.mem_cons_of_mem _ hg'))]
    · simp
    · intro g' hg'
      have hne : g.key ≠ g'.key := by
        intro e
        exact hn'.1 (List.mem_map.mpr ⟨g', hg', e.symm⟩)
      have hacc := hk g' (List.mem_cons_of_mem _ hg')
      unfold Group.entry
      split
      · simpa using hacc
      · split
        · rw [plookup_append_other' g'.key g.key _ hne]; exact hacc
        · split
          · rw [plookup_append_other' g'.key g.key _ hne]; exact hacc
          · rw [plookup_append_other' g'.key g.key _ hne]; exact hacc

end Suds.Schema
