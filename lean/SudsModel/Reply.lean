import SudsModel.Gen.Tables
/-!
Model of `_SoapClient.process_reply` (suds/client.py): the order of tests on the HTTP status,
the parsed reply, the `faults` and `retxml` options. The status sets come from the generated
tables. Also the documented classification table (`table`) the property states.
-/
namespace Suds.Reply
open Suds.Gen

inductive Body where
  | empty | normal | fault11 | fault12 | faultDetail | nonSoap | malformed
  deriving Repr, DecidableEq

def Body.isFault : Body → Bool
  | .fault11 | .fault12 | .faultDetail => true
  | _ => false

inductive Outcome where
  | retNone                        -- returns None
  | retValue                       -- returns the decoded value
  | retPair200 (hasValue : Bool)   -- returns (200, value) / (200, None)
  | retRaw                         -- returns the reply bytes
  | raiseWebFault                  -- raises WebFault(fault, document)
  | retPair500Fault                -- returns (500, fault)
  | raiseHttp (status : Nat)       -- raises Exception((status, description))
  | retPairHttp (status : Nat)     -- returns (status, description)
  | raiseParse                     -- the XML parser's exception
  | raiseDecode                    -- decoding a non-SOAP document fails (AttributeError)
  deriving Repr, DecidableEq

/-- `_SoapClient.process_reply(reply, status, description)` in the order the code tests things. -/
def process (status : Option Nat) (b : Body) (faults retxml : Bool) : Outcome :=
  let s := status.getD replyDefaultStatus
  if replyAcceptedStatuses.contains s then .retNone
  else
    let parsed := replyParsedStatuses.contains s
    if parsed && b == .malformed then .raiseParse
    else if parsed && b.isFault then (if faults then .raiseWebFault else .retPair500Fault)
    else if s ≠ 200 then (if faults then .raiseHttp s else .retPairHttp s)
    else if retxml then .retRaw
    else match b with
      | .empty => if faults then .retNone else .retPair200 false
      | .nonSoap => .raiseDecode
      | _ => if faults then .retValue else .retPair200 true

/-- The classes of HTTP status the documented table distinguishes. -/
inductive StatusClass where
  | accepted                 -- 202, 204
  | ok                       -- 200 (or no status: a reply returned by the transport)
  | serverError              -- 500
  | other (status : Nat)     -- anything else
  deriving Repr, DecidableEq

def classOf (status : Option Nat) : StatusClass :=
  match status with
  | none => .ok
  | some s =>
    if s = 202 ∨ s = 204 then .accepted
    else if s = 200 then .ok
    else if s = 500 then .serverError
    else .other s

/-- The property's table. -/
def table (c : StatusClass) (b : Body) (faults retxml : Bool) : Outcome :=
  match c with
  | .accepted => .retNone
  | .other s => if faults then .raiseHttp s else .retPairHttp s
  | .serverError =>
    if b == .malformed then .raiseParse
    else if b.isFault then (if faults then .raiseWebFault else .retPair500Fault)
    else if faults then .raiseHttp 500 else .retPairHttp 500
  | .ok =>
    if b == .malformed then .raiseParse
    else if b.isFault then (if faults then .raiseWebFault else .retPair500Fault)
    else if retxml then .retRaw
    else match b with
      | .empty => if faults then .retNone else .retPair200 false
      | .nonSoap => .raiseDecode
      | _ => if faults then .retValue else .retPair200 true

end Suds.Reply
