def hello := "world"
