import SudsModel.Driver.All
open Lean Suds.Driver

def answer (line : String) : String :=
  match Json.parse line with
  | .error e => (Json.mkObj [("error", Json.str ("bad-json: " ++ e))]).compress
  | .ok j =>
    let op := jstr j "op"
    match dispatch op j with
    | some r => (Json.mkObj [("ok", r)]).compress
    | none => (Json.mkObj [("error", Json.str ("bad-op: " ++ op))]).compress

partial def loop (h : IO.FS.Stream) (out : IO.FS.Stream) : IO Unit := do
  let line ← h.getLine
  if line.isEmpty then return ()
  out.putStrLn (answer line)
  loop h out

def main : IO Unit := do
  let out ← IO.getStdout
  loop (← IO.getStdin) out
  out.flush
