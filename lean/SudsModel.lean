-- This module serves as the root of the `SudsModel` library.
-- Import modules here that should be built as part of the library.
import SudsModel.Basic
