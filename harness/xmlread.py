"""Independent XML processor: namespace-aware infoset reader built directly on pyexpat.

Shares no code with suds. Returns nested tuples/dicts:
  {"name": [uri|None, local], "attrs": {(uri|None, local): value}, "text": str, "children": [...],
   "ns": {prefix: uri in scope}}
"""
from xml.parsers import expat


class XmlError(Exception):
    pass


def parse(data, keep_ws=True):
    if isinstance(data, str):
        data = data.encode("utf-8")
    p = expat.ParserCreate(namespace_separator=None)
    p.buffer_text = True
    root = {"children": [], "ns": {"xml": "http://www.w3.org/XML/1998/namespace"}, "text_parts": []}
    stack = [root]

    def start(name, attrs):
        parent = stack[-1]
        ns = dict(parent["ns"])
        plain = []
        for k, v in attrs.items():
            if k == "xmlns":
                ns[None] = v or None
            elif k.startswith("xmlns:"):
                ns[k[6:]] = v
            else:
                plain.append((k, v))
        def expand(q, is_attr):
            if ":" in q:
                pfx, local = q.split(":", 1)
                if pfx not in ns:
                    raise XmlError("undeclared prefix %r in %r" % (pfx, q))
                return (ns[pfx], local)
            if is_attr:
                return (None, q)
            return (ns.get(None), q)
        node = {"name": expand(name, False), "qname": name, "attrs": {}, "rawattrs": dict(plain),
                "children": [], "ns": ns, "text_parts": [], "mixed": []}
        for k, v in plain:
            ek = expand(k, True)
            if ek in node["attrs"]:
                raise XmlError("duplicate attribute %r" % (ek,))
            node["attrs"][ek] = v
        parent["children"].append(node)
        if "mixed" in parent:
            parent["mixed"].append(node)
        stack.append(node)

    def end(name):
        node = stack.pop()
        node["text"] = "".join(node.pop("text_parts"))

    def chars(data):
        stack[-1]["text_parts"].append(data)

    p.StartElementHandler = start
    p.EndElementHandler = end
    p.CharacterDataHandler = chars
    try:
        p.Parse(data, True)
    except expat.ExpatError as e:
        raise XmlError("not well-formed: %s" % e)
    if len(root["children"]) != 1:
        raise XmlError("no single root")
    return root["children"][0]


def resolve_qname(node, value):
    """Resolve a QName-valued attribute value in the scope of `node` (default namespace applies)."""
    if ":" in value:
        pfx, local = value.split(":", 1)
        if pfx not in node["ns"]:
            raise XmlError("undeclared prefix %r in QName value %r" % (pfx, value))
        return (node["ns"][pfx], local)
    return (node["ns"].get(None), value)


def find(node, local, uri="*"):
    out = []
    for c in node["children"]:
        if c["name"][1] == local and (uri == "*" or c["name"][0] == uri):
            out.append(c)
    return out


def find1(node, local, uri="*"):
    r = find(node, local, uri)
    return r[0] if r else None


def walk(node):
    yield node
    for c in node["children"]:
        for x in walk(c):
            yield x


def strip_ws(node):
    """Infoset with whitespace-only text dropped from element-only content (pretty printing)."""
    txt = node.get("text", "")
    if node["children"] and not txt.strip():
        txt = ""
    return {"name": list(node["name"]),
            "attrs": sorted([[list(k), v] for k, v in node["attrs"].items()]),
            "text": txt,
            "children": [strip_ws(c) for c in node["children"]]}


XSI = "http://www.w3.org/2001/XMLSchema-instance"
XSD = "http://www.w3.org/2001/XMLSchema"
ENV11 = "http://schemas.xmlsoap.org/soap/envelope/"
ENV12 = "http://www.w3.org/2003/05/soap-envelope"
ENC = "http://schemas.xmlsoap.org/soap/encoding/"


def infoset(node, qname_attrs=((XSI, "type"),), drop_type_ns=False):
    """Canonical, prefix-free infoset: QName-valued attributes are resolved."""
    attrs = []
    for k, v in node["attrs"].items():
        if k in qname_attrs:
            q = resolve_qname(node, v)
            if drop_type_ns:
                q = ("*", q[1])
            attrs.append([list(k), {"qname": list(q)}])
        elif k == (ENC, "arrayType"):
            m = v.rsplit("[", 1)
            q = resolve_qname(node, m[0])
            attrs.append([list(k), {"qname": list(q), "dim": "[" + m[1] if len(m) > 1 else ""}])
        else:
            attrs.append([list(k), v])
    attrs.sort(key=lambda a: (a[0][0] or "", a[0][1]))
    txt = node.get("text", "")
    if node["children"] and not txt.strip():
        txt = ""
    return {"name": list(node["name"]), "attrs": attrs, "text": txt,
            "children": [infoset(c, qname_attrs, drop_type_ns) for c in node["children"]]}
