"""JSON bridge between the abstract interface family and the Lean schema model (SudsModel/Xsd/Schema.lean)."""
import decimal

from harness import iface as IF
from harness import xmlread


def tref_json(t):
    return ["b", t[1]] if t[0] == "b" else [t[0], t[1][0], t[1][1]]


def member_json(I, m, decl_ns, in_choice=False):
    form = m["form"] or I["namespaces"][decl_ns]["form"]
    return {"name": m["name"], "type": tref_json(m["type"]), "min": m["min"], "unbounded": m["max"] == "unbounded",
            "nillable": bool(m["nillable"]), "qualified": form == "qualified" or m.get("ref_ns") is not None,
            "inChoice": in_choice, "refNs": m.get("ref_ns")}


def env_json(I):
    types = []
    for key in I["type_order"]:
        t = I["types"][key]
        own = [member_json(I, m, key[0], "choice" in path)
               for m, path in IF.flatten_particle(t["particle"], (t["particle"]["kind"],))]
        types.append({"ns": key[0], "name": key[1], "base": list(t["base"]) if t["base"] else None, "own": own,
                      "attrs": [{"name": a["name"], "type": a["type"], "required": a["use"] == "required",
                                 "default": a["default"]} for a in t["attrs"]]})
    return {"uris": [n["uri"] for n in I["namespaces"]], "types": types,
            "arrays": [{"key": list(k), "item": tref_json(I["arrays"][k])} for k in I.get("array_order", [])],
            "encoded": bool(I.get("encoded"))}


def op_json(I, op):
    def ps(lst):
        return [member_json(I, p, 0) for p in lst]
    return {"name": op["name"], "style": {"wrapped": "wrapped", "bare": "bare"}.get(op["style"], "rpc"),
            "in": ps(op["in"]), "out": ps(op["out"])}


def val_json(I, ttype, value):
    if value is None:
        return None
    if isinstance(value, list):
        return {"list": [val_json(I, ttype, v) for v in value]}
    if ttype[0] == "b":
        return {"leaf": IF.lexical(ttype[1], value)}
    if ttype[0] == "a":
        return {"list": [val_json(I, I["arrays"][ttype[1]], v) for v in value["__array__"]]}
    key = ttype[1]
    real = value.get("__type__", key)
    members = {m["name"]: m for m, _, _ in IF.members_of(I, real)}
    attrs = {a["name"]: a for a, _ in IF.attrs_of(I, real)}
    fields = []
    for k, v in value.items():
        if k == "__type__":
            continue
        if k.startswith("_"):
            fields.append([k, None if v is None else {"leaf": IF.lexical(attrs[k[1:]]["type"], v)}])
        else:
            fields.append([k, val_json(I, members[k]["type"], v)])
    return {"obj": {"real": list(real) if real != key else None, "fields": fields}}


def args_json(I, op, args):
    return [[p["name"], val_json(I, p["type"], args[p["name"]])] for p in op["in"] if p["name"] in args]


def canon_text(s):
    """Type-blind canonical form of a leaf's text for the model/implementation correspondence."""
    if s is None:
        return ""
    t = s.strip()
    if t in ("true", "false"):
        return t
    try:
        d = decimal.Decimal(t)
        if d.is_finite():
            return "#" + format(d.normalize(), "f") if d != 0 else "#0"
    except Exception:
        pass
    return s


def canon_node(node):
    """xmlread node -> the model's Info JSON shape with canonical leaf text and sorted attributes."""
    attrs = []
    for k, v in node["attrs"].items():
        if k in ((xmlread.XSI, "type"),):
            attrs.append([list(k), {"qname": list(xmlread.resolve_qname(node, v))}])
        elif k == (xmlread.ENC, "arrayType"):
            base, _, dim = v.partition("[")
            q = xmlread.resolve_qname(node, base)
            attrs.append([list(k), {"qname": [q[0], q[1] + "[" + dim]}])
        else:
            attrs.append([list(k), canon_text(v)])
    attrs.sort(key=lambda a: (a[0][0] or "", a[0][1]))
    txt = node.get("text", "")
    if node["children"]:
        txt = ""
    return {"name": list(node["name"]), "attrs": attrs, "text": canon_text(txt),
            "children": [canon_node(c) for c in node["children"]]}


def canon_info(j):
    """model Info JSON -> same canonical shape."""
    attrs = [[a[0], a[1] if isinstance(a[1], dict) else canon_text(a[1])] for a in j["attrs"]]
    attrs.sort(key=lambda a: (a[0][0] or "", a[0][1]))
    return {"name": j["name"], "attrs": attrs, "text": "" if j["children"] else canon_text(j["text"]),
            "children": [canon_info(c) for c in j["children"]]}


def spec_to_info(node):
    """iface.spec_element node -> canonical shape (leaf text by iface.lexical)."""
    attrs = []
    for k, v in node["attrs"]:
        if isinstance(v, dict):
            attrs.append([list(k), {"qname": [v["qname"][0], v["qname"][1] + v.get("dim", "")]}])
        elif isinstance(v, tuple):
            attrs.append([list(k), canon_text(IF.lexical(v[1], v[2]))])
        else:
            attrs.append([list(k), canon_text(v)])
    attrs.sort(key=lambda a: (a[0][0] or "", a[0][1]))
    t = node["text"]
    if isinstance(t, tuple):
        t = IF.lexical(t[1], t[2])
    return {"name": list(node["name"]), "attrs": attrs, "text": "" if node["children"] else canon_text(t),
            "children": [spec_to_info(c) for c in node["children"]]}


def info_in(node):
    """spec node -> Info JSON the model's decoder reads."""
    attrs = []
    for k, v in node["attrs"]:
        if isinstance(v, dict):
            attrs.append([list(k), {"qname": [v["qname"][0], v["qname"][1] + v.get("dim", "")]}])
        elif isinstance(v, tuple):
            attrs.append([list(k), IF.lexical(v[1], v[2])])
        else:
            attrs.append([list(k), v])
    t = node["text"]
    if isinstance(t, tuple):
        t = IF.lexical(t[1], t[2])
    return {"name": list(node["name"]), "attrs": attrs, "text": t if (t != "" or False) else None,
            "children": [info_in(c) for c in node["children"]]}


def py_canon_model(j):
    """model Py JSON -> canonical decoded form (leaf text canonicalised type-blind)."""
    if j is None:
        return None
    if "text" in j:
        return canon_text(j["text"])
    if "list" in j:
        return [py_canon_model(x) for x in j["list"]]
    if "obj" in j:
        return {"__class__": j["obj"], **{k: py_canon_model(v) for k, v in j["fields"]}}
    return {"__err__": j.get("err")}


def py_canon_suds(x):
    """ifacecheck.normal(...) result -> same canonical form."""
    import datetime
    if x is None:
        return None
    if isinstance(x, dict):
        return {k: (v if k == "__class__" else py_canon_suds(v)) for k, v in x.items()}
    if isinstance(x, list):
        return [py_canon_suds(v) for v in x]
    if isinstance(x, bool):
        return "true" if x else "false"
    if isinstance(x, (int, decimal.Decimal)):
        return canon_text(str(x))
    if isinstance(x, float):
        return canon_text(repr(x))
    if isinstance(x, (datetime.date, datetime.datetime)):
        return x.isoformat()
    return canon_text(str(x))
