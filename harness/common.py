"""Shared machinery of the verification harness (see DESIGN.md sections 2-4).

Executed by /venv/bin/python. The repository under test is taken from $VERIF_REPO (default
/repo) and put first on sys.path, so checks always run the *current working tree*.
"""
import collections
import fcntl
import hashlib
import json
import os
import random
import re
import subprocess
import sys
import time

VERIF = os.path.dirname(os.path.dirname(os.path.abspath(__file__)))
REPO = os.environ.get("VERIF_REPO", "/repo")
LEAN_DIR = os.path.join(VERIF, "lean")
DRIVER = os.path.join(LEAN_DIR, ".lake", "build", "bin", "sudsdriver")
TABLES = os.path.join(LEAN_DIR, "SudsModel", "Gen", "Tables.lean")
EVIDENCE_DIR = os.environ.get("VERIF_EVIDENCE_DIR") or os.path.join(VERIF, "evidence")
REPLAY_DIR = os.path.join(EVIDENCE_DIR, "replays")
ALLOWED_AXIOMS = {"propext", "Classical.choice", "Quot.sound"}
FORBIDDEN = re.compile(r"\b(sorry|admit|native_decide|bv_decide|implemented_by)\b|^\s*axiom\s|\bunsafe\s|maxHeartbeats\s+0\b")


def use_repo():
    """Make `import suds` resolve to the repository's working tree."""
    if sys.path[0] != REPO:
        sys.path.insert(0, REPO)
    for name in list(sys.modules):
        if name == "suds" or name.startswith("suds."):
            f = getattr(sys.modules[name], "__file__", "") or ""
            if not f.startswith(REPO):
                del sys.modules[name]
    import logging
    logging.disable(logging.CRITICAL)
    import suds  # noqa
    import suds.client  # noqa  (loads suds.metrics, suds.sax.parser, ... as a client would)
    if not os.path.abspath(suds.__file__).startswith(os.path.abspath(REPO)):
        raise RuntimeError("suds imported from %s, not from %s" % (suds.__file__, REPO))


def canon(obj):
    return json.dumps(obj, sort_keys=True, ensure_ascii=False, separators=(",", ":"), default=repr)


def digest(obj):
    return hashlib.sha1(canon(obj).encode("utf-8", "surrogatepass")).hexdigest()[:12]


# ---------------------------------------------------------------- Lean side

class LeanStatus:
    def __init__(self):
        self.translator_ok = True
        self.translator_msg = ""
        self.build_ok = True          # property theorems built
        self.driver_ok = True         # model + driver built
        self.build_errors = []        # [{file, line, decl, msg}]
        self.theorems = []            # [{name, axioms, ok}]
        self.examples = 0
        self.forbidden_hits = []
        self.audit_ok = True
        self.lean_wall_s = 0.0

    @property
    def obligations(self):
        return len(self.theorems) + self.examples

    @property
    def discharged(self):
        if not self.translator_ok:
            return 0
        bad = {e["decl"] for e in self.build_errors if e.get("decl")}
        if not self.build_ok and not bad:
            return 0
        prop_files = {t.get("file") for t in self.theorems}
        if any(e.get("file") not in prop_files for e in self.build_errors):
            return 0   # a model or lemma file failed: no property theorem was re-checked
        n = 0
        for t in self.theorems:
            if t["name"] in bad or not t.get("ok", False):
                continue
            n += 1
        ex_bad = sum(1 for e in self.build_errors if e.get("decl") == "example")
        if self.build_ok or bad:
            n += max(0, self.examples - ex_bad)
        return n

    def broken(self):
        return (not self.translator_ok or not self.build_ok or not self.audit_ok
                or bool(self.forbidden_hits))

    def broken_what(self):
        out = []
        if not self.translator_ok:
            out.append("translator: " + self.translator_msg)
        for e in self.build_errors[:8]:
            out.append("lean: %s:%s %s: %s" % (e["file"], e["line"], e.get("decl") or "?", e["msg"][:200]))
        if not self.build_ok and not self.build_errors:
            out.append("lean build failed")
        for t in self.theorems:
            if not t.get("ok", True):
                out.append("theorem %s: axioms %s" % (t["name"], t.get("axioms")))
        for h in self.forbidden_hits[:5]:
            out.append("forbidden token: " + h)
        return out


def _run(cmd, cwd=None, timeout=1800, env=None):
    p = subprocess.run(cmd, cwd=cwd, stdout=subprocess.PIPE, stderr=subprocess.STDOUT,
                       timeout=timeout, env=env)
    return p.returncode, p.stdout.decode("utf-8", "replace")


class BuildLock:
    def __enter__(self):
        self.f = open(os.path.join(LEAN_DIR, ".verif-build.lock"), "w")
        fcntl.flock(self.f, fcntl.LOCK_EX)
        return self

    def __exit__(self, *a):
        fcntl.flock(self.f, fcntl.LOCK_UN)
        self.f.close()


def strip_comments(text):
    text = re.sub(r"/-.*?-/", lambda m: "\n" * m.group(0).count("\n"), text, flags=re.S)
    text = re.sub(r"--.*", "", text)
    return text


def decls_of(path):
    """[(line, kind, name)] of theorem/example declarations in a Lean file."""
    out = []
    src = strip_comments(open(path, encoding="utf-8").read())
    for i, ln in enumerate(src.split("\n"), 1):
        m = re.match(r"\s*(?:private\s+|protected\s+)?(theorem|lemma|example)\b\s*([^\s:({\[]*)", ln)
        if m:
            out.append((i, m.group(1), m.group(2) if m.group(1) != "example" else "example"))
    return out


def namespace_of(path):
    src = strip_comments(open(path, encoding="utf-8").read())
    m = re.search(r"^namespace\s+(\S+)", src, flags=re.M)
    return m.group(1) if m else ""


def enclosing_decl(path, line):
    best = None
    try:
        for ln, kind, name in decls_of(path):
            if ln <= line:
                best = name
    except OSError:
        pass
    return best


def lean_check(prop_id, prop_modules, want_clean=False, leanchecker=False):
    """Regenerate tables, build the property's theorem modules and the driver, audit axioms."""
    st = LeanStatus()
    t0 = time.time()
    with BuildLock():
        rc, out = _run([sys.executable, os.path.join(VERIF, "tools", "extract_tables.py"), REPO, TABLES])
        if rc != 0:
            st.translator_ok = False
            st.translator_msg = out.strip().split("\n")[-1]
        # the driver (model code only)
        rc, out = _run(["lake", "build", "sudsdriver"], cwd=LEAN_DIR)
        if rc != 0:
            st.driver_ok = False
            st.build_ok = False
            _collect_errors(st, out)
        # the property theorems
        prop_files = [os.path.join(LEAN_DIR, m.replace(".", "/") + ".lean") for m in prop_modules]
        for pf in prop_files:
            for _ln, kind, name in decls_of(pf):
                if kind == "example":
                    st.examples += 1
                else:
                    ns = namespace_of(pf)
                    st.theorems.append({"name": (ns + "." if ns else "") + name, "file": os.path.relpath(pf, LEAN_DIR)})
        if want_clean:
            for m in prop_modules:
                for ext in ("olean", "ilean"):
                    p = os.path.join(LEAN_DIR, ".lake", "build", "lib", "lean", m.replace(".", "/") + "." + ext)
                    if os.path.exists(p):
                        os.remove(p)
        rc, out = _run(["lake", "build"] + list(prop_modules), cwd=LEAN_DIR)
        if rc != 0:
            st.build_ok = False
            _collect_errors(st, out)
        else:
            # axioms audit
            os.makedirs(os.path.join(LEAN_DIR, ".audit"), exist_ok=True)
            ap = os.path.join(LEAN_DIR, ".audit", prop_id + ".lean")
            with open(ap, "w", encoding="utf-8") as f:
                for m in prop_modules:
                    f.write("import %s\n" % m)
                for t in st.theorems:
                    f.write("#print axioms %s\n" % t["name"])
            rc, out = _run(["lake", "env", "lean", ap], cwd=LEAN_DIR)
            found = {}
            for m in re.finditer(r"'([^']+)' (does not depend on any axioms|depends on axioms: \[([^\]]*)\])", out):
                axs = [a.strip() for a in (m.group(3) or "").replace("\n", " ").split(",") if a.strip()]
                found[m.group(1)] = axs
            for t in st.theorems:
                if t["name"] in found:
                    t["axioms"] = found[t["name"]]
                    t["ok"] = set(found[t["name"]]) <= ALLOWED_AXIOMS
                else:
                    t["axioms"] = None
                    t["ok"] = False
                if not t["ok"]:
                    st.audit_ok = False
            if rc != 0:
                st.audit_ok = False
            if leanchecker and st.audit_ok:
                rc, out = _run(["lake", "env", "leanchecker"] + list(prop_modules), cwd=LEAN_DIR, timeout=3600)
                if rc != 0:
                    st.audit_ok = False
                    st.build_errors.append({"file": "leanchecker", "line": 0, "decl": None, "msg": out[-300:]})
        # forbidden tokens anywhere in the library sources
        for root, _d, files in os.walk(os.path.join(LEAN_DIR, "SudsModel")):
            for fn in files:
                if fn.endswith(".lean"):
                    p = os.path.join(root, fn)
                    src = strip_comments(open(p, encoding="utf-8").read())
                    for i, ln in enumerate(src.split("\n"), 1):
                        if FORBIDDEN.search(ln):
                            st.forbidden_hits.append("%s:%d: %s" % (os.path.relpath(p, LEAN_DIR), i, ln.strip()[:80]))
    st.lean_wall_s = time.time() - t0
    return st


def _collect_errors(st, out):
    for m in re.finditer(r"^error: ([^\s:]+\.lean):(\d+):(\d+): (.*)$", out, flags=re.M):
        f, line, msg = m.group(1), int(m.group(2)), m.group(4)
        decl = enclosing_decl(os.path.join(LEAN_DIR, f), line)
        st.build_errors.append({"file": f, "line": line, "decl": decl, "msg": msg})
    if not st.build_errors:
        tail = out.strip().split("\n")[-6:]
        st.build_errors.append({"file": "?", "line": 0, "decl": None, "msg": " | ".join(tail)})


class Driver:
    """Batch access to the Lean model's executable definitions (JSON lines)."""

    def __init__(self, available=True):
        self.available = available and os.path.exists(DRIVER)
        self.calls = 0

    def ask(self, requests):
        """requests: list of dicts with key 'op'. Returns list of results (value of 'ok') or
        {'error': ...} objects; None for all when the driver is unavailable."""
        if not self.available:
            return [None] * len(requests)
        if not requests:
            return []
        data = "\n".join(json.dumps(r, ensure_ascii=False) for r in requests) + "\n"
        try:
            p = subprocess.run([DRIVER], input=data.encode("utf-8", "surrogatepass"),
                               stdout=subprocess.PIPE, stderr=subprocess.PIPE, timeout=3600)
        except (FileNotFoundError, PermissionError, OSError):
            # another check may be relinking the driver right now: wait for its build to finish, then try again
            with BuildLock():
                pass
            p = subprocess.run([DRIVER], input=data.encode("utf-8", "surrogatepass"),
                               stdout=subprocess.PIPE, stderr=subprocess.PIPE, timeout=3600)
        if p.returncode != 0:
            raise RuntimeError("driver failed: rc=%s %s" % (p.returncode, p.stderr.decode()[:500]))
        lines = p.stdout.decode("utf-8", "surrogatepass").split("\n")
        if lines and lines[-1] == "":
            lines.pop()
        if len(lines) != len(requests):
            raise RuntimeError("driver answered %d lines for %d requests" % (len(lines), len(requests)))
        self.calls += len(requests)
        out = []
        for ln in lines:
            j = json.loads(ln)
            if "ok" in j:
                out.append(j["ok"])
            else:
                out.append({"error": j.get("error")})
        return out


# ---------------------------------------------------------------- run context

class Ctx:
    def __init__(self, prop_id, tier, seed, driver, known):
        self.prop_id = prop_id
        self.tier = tier
        self.seed = seed
        self.rng = random.Random("%s/%s" % (prop_id, seed))
        self.driver = driver
        self.known = [k for k in known if k.get("property") == prop_id]
        self.evaluations = 0
        self.nontrivial = set()
        self.samples = []
        self.dist = collections.Counter()
        self.corr = collections.OrderedDict()     # name -> {"cases": n, "disagreements": n}
        self.disagreements = []                    # [{corr, input, impl, model}]
        self.failures = []                         # oracle failures not matched by a known finding
        self.kf_hits = collections.Counter()       # known finding id -> count
        self.kf_reproduced = {}
        self.notes = []
        self.deadline = None
        self.classifiers = {}
        self.widened = False

    @property
    def quick(self):
        return self.tier == "quick"

    def pick(self, quick, thorough):
        return quick if self.tier == "quick" else thorough

    def case(self, key=None, nontrivial=True, n=1):
        self.evaluations += n
        if nontrivial and key is not None:
            if len(self.nontrivial) < 2000000:
                self.nontrivial.add(key if isinstance(key, (str, int, tuple)) else digest(key))

    def sample(self, obj, limit=6):
        if len(self.samples) < limit:
            self.samples.append(obj)

    def agree(self, name, n=1):
        c = self.corr.setdefault(name, {"cases": 0, "disagreements": 0})
        c["cases"] += n

    def disagree(self, name, inp, impl, model):
        c = self.corr.setdefault(name, {"cases": 0, "disagreements": 0})
        c["cases"] += 1
        c["disagreements"] += 1
        if len(self.disagreements) < 50:
            self.disagreements.append({"correspondence": name, "input": inp, "impl": impl, "model": model})

    def compare(self, name, inp, impl, model):
        """Record one correspondence comparison (model may be None when unavailable)."""
        if model is None:
            self.dist["model_unavailable"] += 1
            return True
        if impl == model:
            self.agree(name)
            return True
        self.disagree(name, inp, impl, model)
        return False

    def fail(self, what, inp, observed, expected, **extra):
        """An oracle failure: the implementation violates the property on `inp`."""
        f = {"what": what, "input": inp, "observed": observed, "expected": expected}
        f.update(extra)
        for k in self.known:
            if k.get("status") != "open":
                continue
            cl = self.classifiers.get(k.get("classifier"))
            try:
                if cl is not None and cl(f, k):
                    self.kf_hits[k["id"]] += 1
                    return False
            except Exception as e:  # a crashing classifier never hides a failure
                self.notes.append("classifier %s crashed: %r" % (k.get("classifier"), e))
        if len(self.failures) < 200:
            self.failures.append(f)
        return True

    def time_left(self):
        return None if self.deadline is None else self.deadline - time.time()


def load_known():
    p = os.path.join(VERIF, "known_findings.json")
    if not os.path.exists(p):
        return []
    return json.load(open(p, encoding="utf-8")).get("findings", [])


def exc_class(e):
    return type(e).__name__
