"""Abstract interface family, concrete WSDL renderings and the declarative reference ("Spec").

An *interface* is prefix-free, order-free data: namespaces with their form defaults, named complex
types (optional base, particle tree, attributes), global elements and operations with a binding
style. `render()` writes one interface as WSDL/XSD text under rendering choices (prefix names,
default namespace, declaration order, named vs anonymous types, group / attributeGroup factoring,
element refs, several schema blocks, split over several documents). `spec_request()` /
`spec_reply_doc()` / `spec_skeleton()` say what XSD/WSDL prescribe for it, independently of suds.
"""
import datetime
import decimal

XSD = "http://www.w3.org/2001/XMLSchema"
XSI = "http://www.w3.org/2001/XMLSchema-instance"
WSDLNS = "http://schemas.xmlsoap.org/wsdl/"
SOAPNS = "http://schemas.xmlsoap.org/wsdl/soap/"
ENV = "http://schemas.xmlsoap.org/soap/envelope/"
ENC = "http://schemas.xmlsoap.org/soap/encoding/"
WNS = "urn:verif:wsdl"

BUILTINS = ["string", "int", "boolean", "decimal", "double", "date", "dateTime", "long"]


# ---------------------------------------------------------------- generation

def gen_iface(rng, n_ns=None, styles=None, rich=True, encoded=False):
    """encoded=True: an rpc/encoded interface (every operation rpc/encoded; SOAP section-5 array types)."""
    n_ns = n_ns or rng.choice([1, 1, 2, 3])
    arrays = {}
    array_order = []
    nss = [{"uri": "urn:n%d" % i, "form": rng.choice(["qualified", "qualified", "unqualified"])} for i in range(n_ns)]
    types = {}
    order = []

    def pick_type(avail_complex, depth):
        if encoded and array_order and rng.random() < 0.25:
            return ("a", rng.choice(array_order))
        if avail_complex and rng.random() < 0.35:
            return ("c", rng.choice(avail_complex))
        return ("b", rng.choice(BUILTINS))

    def member(name, avail, depth, in_choice=False):
        t = pick_type(avail, depth)
        mx = rng.choice([1, 1, 1, "unbounded"])
        if t[0] == "a":
            mx = 1      # a repeating member of array type would be a list of lists: outside the alphabet
        mn = rng.choice([0, 1, 1])
        return {"name": name, "type": t, "min": mn, "max": mx,
                "nillable": rng.random() < 0.3, "form": rng.choice([None, None, None, "qualified", "unqualified"])}

    def particle(prefix, avail, depth, kind=None):
        kind = kind or rng.choice(["seq", "seq", "seq", "choice", "all"] if depth == 0 else ["seq", "choice"])
        items = []
        n = rng.randint(1, 3)
        for i in range(n):
            if kind != "all" and depth < 2 and rng.random() < 0.25:
                items.append(particle("%s%d" % (prefix, i), avail, depth + 1))
            else:
                m = member("%s%d" % (prefix, i), avail, depth)
                if kind == "all":
                    m["max"] = 1
                items.append(m)
        return {"kind": kind, "items": items}

    n_types = rng.randint(1, 5) if rich else rng.randint(1, 2)
    for i in range(n_types):
        ns = rng.randrange(n_ns)
        name = "T%d" % i
        avail = list(order)
        base = None
        if avail and rng.random() < 0.4:
            base = rng.choice(avail)
        p = particle("m%d_" % i, avail, 0, kind="seq" if base else None)
        attrs = []
        for a in range(rng.choice([0, 0, 1, 2])):
            attrs.append({"name": "at%d_%d" % (i, a), "type": rng.choice(["string", "int", "boolean"]),
                          "use": rng.choice(["optional", "optional", "required"]),
                          "default": rng.choice([None, None, "7"]) })
            if attrs[-1]["default"] is not None and attrs[-1]["type"] == "boolean":
                attrs[-1]["default"] = "true"
            if attrs[-1]["use"] == "required":
                attrs[-1]["default"] = None
        if rich and base is None:
            # names that are Python keywords: suds hands them back as 'cls' / 'dfn' (only in types without a
            # base type, so that a flattened content model never has the name twice)
            leaves = [m for m, _path in flatten_particle(p)]
            for kw in ("class", "def"):
                if leaves and rng.random() < 0.08:
                    m = rng.choice(leaves)
                    if m["name"] not in ("class", "def"):
                        m["name"] = kw
                        m["keyword_name"] = True
        if rich and not encoded:
            for m, _path in flatten_particle(p):
                if m.get("keyword_name"):
                    continue
                if rng.random() < 0.12:
                    # a reference to a global element, possibly of another namespace
                    m["ref_ns"] = rng.randrange(n_ns)
                    m["form"] = None
        if rich and p["kind"] == "seq" and attrs and base is None and rng.random() < 0.15:
            p["items"] = []          # a type with attributes only
        if rich and p["kind"] == "seq" and rng.random() < 0.2:
            # a recursive member (optional or repeating, as XSD requires for a finite instance)
            p["items"].append({"name": "m%d_self" % i, "type": ("c", (ns, name)), "min": 0,
                               "max": rng.choice([1, "unbounded"]), "nillable": False, "form": None})
        types[(ns, name)] = {"base": base, "particle": p, "attrs": attrs}
        order.append((ns, name))
        if encoded and rng.random() < 0.7:
            item = ("c", (ns, name)) if rng.random() < 0.6 else ("b", rng.choice(BUILTINS))
            akey = (rng.randrange(n_ns), "ArrayOf%d" % len(array_order))
            arrays[akey] = item
            array_order.append(akey)
    ops = []
    styles = styles or ["wrapped", "wrapped", "bare", "rpclit"]
    if encoded:
        styles = ["rpcenc"]
    for i in range(rng.randint(1, 3)):
        style = rng.choice(styles)
        def params(prefix, n):
            out = []
            for k in range(n):
                m = member("%s%d" % (prefix, k), order, 0)
                if style in ("rpclit", "rpcenc", "bare"):
                    m["max"] = 1
                    m["min"] = 1
                    m["nillable"] = False
                    m["form"] = None
                out.append(m)
            return out
        ops.append({"name": "op%d" % i, "style": style, "in": params("a", rng.randint(0, 3)),
                    "out": params("r", rng.choice([0, 1, 1, 2]))})
    enums = {}
    if rich and not encoded:
        for i in range(rng.choice([0, 1, 1, 2])):
            enums[(rng.randrange(n_ns), "E%d" % i)] = rng.sample(["A", "B", "C_1", "dd", "E2", "f"], rng.randint(1, 4))
    return {"namespaces": nss, "types": types, "type_order": order, "ops": ops, "arrays": arrays,
            "array_order": array_order, "encoded": encoded, "enums": enums}


def flatten_particle(p, path=()):
    """[(member, path of container kinds)] in document order."""
    out = []
    for it in p["items"]:
        if "kind" in it:
            out += flatten_particle(it, path + (it["kind"],))
        else:
            out.append((it, path + ()))
    return out


def members_of(iface, tkey, seen=()):
    """Flattened content model: inherited members first. [(member, declaring type key, in_choice, ancestors_optional)]"""
    t = iface["types"][tkey]
    out = []
    if t["base"] is not None and t["base"] not in seen:
        out += members_of(iface, t["base"], seen + (tkey,))
    for m, path in flatten_particle(t["particle"], (t["particle"]["kind"],)):
        out.append((m, tkey, "choice" in path))
    return out


def attrs_of(iface, tkey, seen=()):
    t = iface["types"][tkey]
    out = []
    if t["base"] is not None and t["base"] not in seen:
        out += attrs_of(iface, t["base"], seen + (tkey,))
    return out + [(a, tkey) for a in t["attrs"]]


def subtypes_of(iface, tkey):
    out = []
    for k, t in iface["types"].items():
        b = t["base"]
        while b is not None:
            if b == tkey:
                out.append(k)
                break
            b = iface["types"][b]["base"]
    return out


# ---------------------------------------------------------------- values

def gen_builtin(rng, b, attr=False):
    if b == "string":
        if not attr and rng.random() < 0.15:
            return rng.choice(["line one\nline two", "tab\there", " lead and trail ", "a\n\nb"])
        return rng.choice(["s", "a b", "x<&>y", "é", "0"])
    if b in ("int", "long"):
        return rng.choice([0, 1, -5, 123456789, 2 ** 40 if b == "long" else 77])
    if b == "boolean":
        return rng.choice([True, False])
    if b == "decimal":
        return decimal.Decimal(rng.choice(["0", "1.50", "-0.001", "1E+3", "12345678901234567890.123",
                                           "123456789012345678901234567890123456789.000000000012345"]))
    if b == "double":
        return rng.choice([0.0, 1.5, -2.25, 1e20, 1e-7])
    if b == "date":
        return datetime.date(rng.choice([1999, 2000, 2024]), rng.randint(1, 12), rng.randint(1, 28))
    if b == "dateTime":
        return datetime.datetime(rng.choice([1999, 2024]), rng.randint(1, 12), rng.randint(1, 28), rng.randint(0, 23),
                                 rng.randint(0, 59), rng.randint(0, 59), rng.choice([0, 0, 500000]))
    raise ValueError(b)


def lexical(b, v):
    """XSD lexical form of a Python value (independent of suds)."""
    if b == "string":
        return v
    if b in ("int", "long"):
        return str(v)
    if b == "boolean":
        return "true" if v else "false"
    if b == "decimal":
        s = format(v, "f")
        if "." in s:
            s = s.rstrip("0").rstrip(".")
        return s if s not in ("-0",) else "-0"
    if b == "double":
        return repr(float(v))
    if b == "date":
        return v.isoformat()
    if b == "dateTime":
        return v.isoformat()
    raise ValueError(b)


def value_equal_lex(b, text, v):
    """Does `text` denote `v` as XSD type `b`?"""
    try:
        if b == "string":
            return text == v
        if b in ("int", "long"):
            return int(text) == v
        if b == "boolean":
            return text in (("true", "1") if v else ("false", "0"))
        if b == "decimal":
            return "e" not in text.lower() and decimal.Decimal(text) == v
        if b == "double":
            return float(text) == v
        if b == "date":
            return datetime.date.fromisoformat(text) == v
        if b == "dateTime":
            return datetime.datetime.fromisoformat(text) == v
    except Exception:
        return False
    return False


def gen_value(rng, iface, ttype, depth=0, allow_derived=True):
    """A schema-conforming value for type reference ttype = ('b', name) | ('c', key)."""
    if ttype[0] == "b":
        return gen_builtin(rng, ttype[1])
    if ttype[0] == "a":
        n = rng.choice([0, 1, 2, 3]) if depth <= 2 else 0
        return {"__array__": [gen_value(rng, iface, iface["arrays"][ttype[1]], depth + 1) for _ in range(n)]}
    key = ttype[1]
    real = key
    if allow_derived and depth <= 2:
        subs = subtypes_of(iface, key)
        if subs and rng.random() < 0.4:
            real = rng.choice(subs)
    val = {"__type__": real} if real != key else {}
    chosen = {}
    for m, decl, in_choice in members_of(iface, real):
        if depth > 2 and m["type"][0] in ("c", "a"):
            if m["min"] == 0 or in_choice:
                continue
        if in_choice:
            # at most one member of the (outermost) choice group of a type gets a value
            grp = decl
            if grp in chosen:
                continue
            if rng.random() < 0.5:
                continue
            chosen[grp] = m["name"]
        val[m["name"]] = gen_member_value(rng, iface, m, depth, in_choice)
    for a, decl in attrs_of(iface, real):
        if a["use"] == "required" or rng.random() < 0.5:
            val["_" + a["name"]] = gen_builtin(rng, a["type"], True)
    if not has_content(val):
        # the alphabet has no content-free objects: give the first member a value (and drop the empty lists
        # drawn so far: an empty list for another branch of a choice would count as a second value in a call)
        for k_ in [k_ for k_, v_ in val.items() if k_ != "__type__" and v_ == []]:
            del val[k_]
        ms = members_of(iface, real)
        if ms:
            m, decl, in_choice = ms[0]
            v = gen_value(rng, iface, m["type"], depth + 1, allow_derived=False)
            val[m["name"]] = [v] if m["max"] == "unbounded" else v
        else:
            ats = attrs_of(iface, real)
            if ats:
                val["_" + ats[0][0]["name"]] = gen_builtin(rng, ats[0][0]["type"], True)
    return val


def has_content(val):
    for k, v in val.items():
        if k == "__type__" or v is None or v == []:
            continue
        return True
    return False


def gen_member_value(rng, iface, m, depth, in_choice=False):
    if m["max"] == "unbounded":
        n = rng.choice([0, 1, 2, 3]) if m["min"] == 0 else rng.choice([1, 2, 3])
        if depth > 2:
            n = min(n, 1)
        return [gen_value(rng, iface, m["type"], depth + 1) for _ in range(n)]
    if not in_choice and (m["min"] == 0 or m["nillable"]) and rng.random() < 0.3:
        return None
    return gen_value(rng, iface, m["type"], depth + 1)


# ---------------------------------------------------------------- the reference: requests

def member_ns(iface, m, decl_key):
    if m.get("ref_ns") is not None:
        return iface["namespaces"][m["ref_ns"]]["uri"]      # a reference to a global element: always qualified
    form = m["form"] or iface["namespaces"][decl_key[0]]["form"]
    return iface["namespaces"][decl_key[0]]["uri"] if form == "qualified" else None


def spec_element(iface, name, ns, ttype, value, nillable=False, reply=False):
    """Expected infoset of one element carrying `value` of declared type `ttype`."""
    node = {"name": [ns, name], "attrs": [], "text": "", "children": []}
    if value is None:
        if nillable:
            node["attrs"].append([[XSI, "nil"], "true"])
        return node
    if ttype[0] == "b":
        node["text"] = ("b", ttype[1], value)
        return node
    key = ttype[1]
    real = value.get("__type__", key)
    if real != key:
        node["attrs"].append([[XSI, "type"], {"qname": [iface["namespaces"][real[0]]["uri"], real[1]]}])
    for a, decl in attrs_of(iface, real):
        v = value.get("_" + a["name"])
        if v is not None:
            node["attrs"].append([[None, a["name"]], ("b", a["type"], v)])
    for m, decl, in_choice in members_of(iface, real):
        if m["name"] not in value:
            if in_choice or m["min"] == 0:
                continue
            v = None
        else:
            v = value[m["name"]]
        ns2 = member_ns(iface, m, decl)
        if isinstance(v, list):
            for item in v:
                node["children"].append(spec_element(iface, m["name"], ns2, m["type"], item, m["nillable"], reply))
            continue
        if v is None:
            if reply:
                # a reply writer marks every None it can as nil; a None it cannot mark is an absent member
                if not m["nillable"]:
                    continue
            elif m["min"] == 0 or in_choice:
                continue
        node["children"].append(spec_element(iface, m["name"], ns2, m["type"], v, m["nillable"], reply))
    return node


def type_qname(iface, ttype):
    if ttype[0] == "b":
        return [XSD, ttype[1]]
    return [iface["namespaces"][ttype[1][0]]["uri"], ttype[1][1]]


def spec_element_enc(iface, name, ns, ttype, value, nillable=False, reply=False):
    """Section-5 encoding of one accessor: xsi:type everywhere, arrays with soapenc:arrayType."""
    node = {"name": [ns, name], "attrs": [], "text": "", "children": []}
    if value is None:
        node["attrs"].append([[XSI, "type"], {"qname": type_qname(iface, ttype)}])
        if nillable:
            node["attrs"].append([[XSI, "nil"], "true"])
        return node
    if ttype[0] == "b":
        node["attrs"].append([[XSI, "type"], {"qname": type_qname(iface, ttype)}])
        node["text"] = ("b", ttype[1], value)
        return node
    if ttype[0] == "a":
        item = iface["arrays"][ttype[1]]
        items = value["__array__"]
        node["attrs"].append([[XSI, "type"], {"qname": type_qname(iface, ttype)}])
        node["attrs"].append([[ENC, "arrayType"], {"qname": type_qname(iface, item), "dim": "[%d]" % len(items)}])
        for x in items:
            node["children"].append(spec_element_enc(iface, "item", None, item, x, False, reply))
        return node
    key = ttype[1]
    real = value.get("__type__", key)
    node["attrs"].append([[XSI, "type"], {"qname": type_qname(iface, ("c", real))}])
    for a, decl in attrs_of(iface, real):
        v = value.get("_" + a["name"])
        if v is not None:
            node["attrs"].append([[None, a["name"]], ("b", a["type"], v)])
    for m, decl, in_choice in members_of(iface, real):
        if m["name"] not in value:
            continue
        v = value[m["name"]]
        ns2 = member_ns(iface, m, decl)
        if isinstance(v, list):
            for item in v:
                node["children"].append(spec_element_enc(iface, m["name"], ns2, m["type"], item, m["nillable"], reply))
            continue
        if v is None:
            if reply:
                if not m["nillable"]:
                    continue
            elif m["min"] == 0 or in_choice:
                continue
        if not reply and isinstance(v, dict) and v.get("__array__") == [] and (m["min"] == 0 or in_choice):
            continue
        node["children"].append(spec_element_enc(iface, m["name"], ns2, m["type"], v, m["nillable"], reply))
    return node


def spec_request(iface, op, args):
    """Expected Body child(ren) for calling `op` with `args` (dict param name -> value)."""
    ns0 = iface["namespaces"][0]["uri"]
    style = op["style"]
    if style == "wrapped":
        wrapper = {"name": [ns0, op["name"]], "attrs": [], "text": "", "children": []}
        form = iface["namespaces"][0]["form"]
        for p in op["in"]:
            v = args.get(p["name"])
            pns = ns0 if (p["form"] or form) == "qualified" else None
            if isinstance(v, list):
                for item in v:
                    wrapper["children"].append(spec_element(iface, p["name"], pns, p["type"], item, p["nillable"]))
                continue
            if v is None and p["min"] == 0:
                continue
            wrapper["children"].append(spec_element(iface, p["name"], pns, p["type"], v, p["nillable"]))
        return [wrapper]
    if style == "bare":
        out = []
        for p in op["in"]:
            out.append(spec_element(iface, "%s_%s" % (op["name"], p["name"]), ns0, p["type"], args.get(p["name"])))
        return out
    # rpc: wrapper named after the operation in the soap:body namespace; part accessors
    wrapper = {"name": [rpc_ns(iface), op["name"]], "attrs": [], "text": "", "children": []}
    one = spec_element_enc if style == "rpcenc" else spec_element
    for p in op["in"]:
        v = args.get(p["name"])
        if v is None or (isinstance(v, dict) and v.get("__array__") == []):
            continue        # suds treats every rpc part as optional: None / an empty array is left out
        wrapper["children"].append(one(iface, p["name"], None, p["type"], v))
    return [wrapper]


def rpc_ns(iface):
    return "urn:rpc:body"


# ---------------------------------------------------------------- rendering

class Rendering:
    def __init__(self, rng=None, **kw):
        self.rng = rng
        self.prefixes = kw.get("prefixes")            # ns index -> prefix
        self.default_ns_schema = kw.get("default_ns_schema", False)
        self.shuffle = kw.get("shuffle", False)
        self.anonymous = kw.get("anonymous", False)   # inline single-use wrapper types are always anonymous
        self.groups = kw.get("groups", False)
        self.attr_groups = kw.get("attr_groups", False)
        self.element_refs = kw.get("element_refs", False)
        self.split_blocks = kw.get("split_blocks", False)
        self.documents = kw.get("documents", None)    # None | "import" | "include"
        self.wsdl_tns_is_ns0 = kw.get("wsdl_tns_is_ns0", False)
        self.mixed_block_forms = kw.get("mixed_block_forms", False)
        self.block_styles = kw.get("block_styles", False)   # every schema block picks its own prefixes / defaults
        self.root_prefixes = kw.get("root_prefixes", True)   # <definitions> declares the interface namespaces' prefixes
        self.inline = set()        # filled by render() when anonymous


def inlinable(iface):
    """Types that may be written as anonymous types of the one element that uses them."""
    uses = {}
    for key, t in iface["types"].items():
        for m, path in flatten_particle(t["particle"]):
            if m["type"][0] == "c":
                uses.setdefault(m["type"][1], []).append(key)
                if m.get("ref_ns") is not None:
                    uses[m["type"][1]].append(None)      # typed by a global element: needs its name
    bases = set(t["base"] for t in iface["types"].values() if t["base"])
    params = set(p["type"][1] for op in iface["ops"] for p in op["in"] + op["out"] if p["type"][0] == "c")
    items = set(v[1] for v in iface.get("arrays", {}).values() if v[0] == "c")
    out = set()
    for key, t in iface["types"].items():
        u = uses.get(key, [])
        if len(u) == 1 and u[0] != key and u[0][0] == key[0] and t["base"] is None and key not in bases \
                and key not in params and key not in items:
            out.add(key)
    return out


def random_rendering(rng):
    prefixes = {i: rng.choice(["t%d" % i, "ns%d" % i, "p%s" % "abc"[i % 3] * (i + 1)]) for i in range(3)}
    if rng.random() < 0.25:
        # the document's own ns0, ns1, ns2 - bound to other namespaces than the ones suds gives those numbers
        k = rng.choice([1, 2])
        prefixes = {i: "ns%d" % ((i + k) % 3) for i in range(3)}
    return Rendering(rng, prefixes=prefixes,
                     wsdl_tns_is_ns0=rng.random() < 0.3, anonymous=rng.random() < 0.4,
                     mixed_block_forms=rng.random() < 0.3, block_styles=rng.random() < 0.6,
                     root_prefixes=rng.random() < 0.7, default_ns_schema=rng.random() < 0.4, shuffle=rng.random() < 0.7, groups=rng.random() < 0.5,
                     attr_groups=rng.random() < 0.5, element_refs=rng.random() < 0.4, split_blocks=rng.random() < 0.4)


def canonical_rendering():
    return Rendering(None, prefixes={0: "t0", 1: "t1", 2: "t2"})


def _q(r, iface, ttype, own_ns=None):
    if ttype[0] == "b":
        return "xsd:" + ttype[1]
    ns, name = ttype[1]
    if ttype[0] == "a":
        return "%s:%s" % (r.prefixes[ns], name)
    if r.default_ns_schema and own_ns == ns:
        return name
    return "%s:%s" % (r.prefixes[ns], name)


def _member_xml(r, iface, m, own_ns, block_form=None, extra_decls=None):
    if m.get("ref_ns") is not None:
        a = ['ref="%s"' % _q(r, iface, ("c", (m["ref_ns"], m["name"])), own_ns)]
        if m["min"] != 1:
            a.append('minOccurs="%s"' % m["min"])
        if m["max"] != 1:
            a.append('maxOccurs="%s"' % m["max"])
        return "<xsd:element %s/>" % " ".join(a)
    inline = m["type"][0] == "c" and m["type"][1] in r.inline
    a = ['name="%s"' % m["name"]]
    if not inline:
        a.append('type="%s"' % _q(r, iface, m["type"], own_ns))
    if m["min"] != 1:
        a.append('minOccurs="%s"' % m["min"])
    if m["max"] != 1:
        a.append('maxOccurs="%s"' % m["max"])
    if m["nillable"]:
        a.append('nillable="%s"' % (r.rng.choice(["true", "1"]) if (r.rng is not None and r.block_styles) else "true"))
    form = m["form"]
    if block_form is not None:
        # the enclosing schema block's default differs from the namespace's: say the form when it is not the block's
        resolved = m["form"] or iface["namespaces"][own_ns]["form"]
        form = None if resolved == block_form else resolved
    if form:
        a.append('form="%s"' % form)
    if inline:
        return "<xsd:element %s>%s</xsd:element>" % (" ".join(a), _type_xml(r, iface, m["type"][1], extra_decls, False,
                                                                            block_form))
    return "<xsd:element %s/>" % " ".join(a)


def _particle_xml(r, iface, p, own_ns, extra_decls, tag_hint, block_form=None):
    tag = {"seq": "sequence", "choice": "choice", "all": "all"}[p["kind"]]
    inner = []
    for i, it in enumerate(p["items"]):
        if "kind" in it:
            inner.append(_particle_xml(r, iface, it, own_ns, extra_decls, "%s_%d" % (tag_hint, i), block_form))
        elif r.element_refs and block_form is None and not (it["type"][0] == "c" and it["type"][1] in r.inline) \
                and it.get("ref_ns") is None and not it.get("keyword_name") and it["form"] is None and iface["namespaces"][own_ns]["form"] == "qualified" \
                and r.rng is not None and r.rng.random() < 0.5:
            # a global element + ref: same expanded name because the schema is qualified
            gname = it["name"]
            if gname not in extra_decls["elements"]:
                extra_decls["elements"][gname] = '<xsd:element name="%s" type="%s"%s/>' % (
                    gname, _q(r, iface, it["type"], own_ns), ' nillable="true"' if it["nillable"] else "")
                occ = ""
                if it["min"] != 1:
                    occ += ' minOccurs="%s"' % it["min"]
                if it["max"] != 1:
                    occ += ' maxOccurs="%s"' % it["max"]
                refq = gname if r.default_ns_schema else "%s:%s" % (r.prefixes[own_ns], gname)
                inner.append('<xsd:element ref="%s"%s/>' % (refq, occ))
            else:
                inner.append(_member_xml(r, iface, it, own_ns, block_form, extra_decls))
        else:
            inner.append(_member_xml(r, iface, it, own_ns, block_form, extra_decls))
    body = "<xsd:%s>%s</xsd:%s>" % (tag, "".join(inner), tag)
    if r.groups and block_form is None and p["kind"] != "all" and r.rng is not None and r.rng.random() < 0.5:
        gname = "G_%s" % tag_hint
        extra_decls["groups"].append('<xsd:group name="%s">%s</xsd:group>' % (gname, body))
        refq = gname if r.default_ns_schema else "%s:%s" % (r.prefixes[own_ns], gname)
        return '<xsd:group ref="%s"/>' % refq
    return body


def _type_xml(r, iface, key, extra_decls, name_attr=True, block_form=None):
    t = iface["types"][key]
    ns = key[0]
    attrs = []
    for a in t["attrs"]:
        x = '<xsd:attribute name="%s" type="xsd:%s"' % (a["name"], a["type"])
        if a["use"] == "required":
            x += ' use="required"'
        if a["default"] is not None:
            x += ' default="%s"' % a["default"]
        attrs.append(x + "/>")
    attr_xml = "".join(attrs)
    if attrs and r.attr_groups and r.rng is not None and r.rng.random() < 0.6:
        gname = "AG_%s" % key[1]
        extra_decls["groups"].append('<xsd:attributeGroup name="%s">%s</xsd:attributeGroup>' % (gname, attr_xml))
        refq = gname if r.default_ns_schema else "%s:%s" % (r.prefixes[ns], gname)
        attr_xml = '<xsd:attributeGroup ref="%s"/>' % refq
    part = _particle_xml(r, iface, t["particle"], ns, extra_decls, key[1], block_form)
    head = '<xsd:complexType name="%s">' % key[1] if name_attr else "<xsd:complexType>"
    if t["base"] is not None:
        return '%s<xsd:complexContent><xsd:extension base="%s">%s%s</xsd:extension></xsd:complexContent></xsd:complexType>' % (
            head, _q(r, iface, ("c", t["base"]), ns), part, attr_xml)
    return "%s%s%s</xsd:complexType>" % (head, part, attr_xml)


def to_xsd_default(text):
    """The same schema block written with the XML Schema namespace as default namespace:
    <schema xmlns="http://www.w3.org/2001/XMLSchema"> <element name=.. type="int"/> ..."""
    import re
    text = text.replace("<xsd:", "<").replace("</xsd:", "</")
    text = re.sub(r'(type|base|wsdl:arrayType)="xsd:', r'\1="', text)
    i = text.index("<schema") + len("<schema")
    return text[:i] + ' xmlns="%s"' % XSD + text[i:]


def render_schemas(r, iface):
    """{ns index: [schema block xml, ...]} (several blocks when split_blocks / mixed_block_forms).
    Every block has its own style: default namespace (none / target namespace / XML Schema), prefix names,
    explicit or omitted elementFormDefault."""
    out = {}
    n = len(iface["namespaces"])
    rng = r.rng
    r.inline = set()
    if r.anonymous and rng is not None and not iface.get("encoded"):
        r.inline = set(k for k in sorted(inlinable(iface)) if rng.random() < 0.7)
        # an inlined type must not itself contain an inlined type's only user chain that loops; one level is enough
        r.inline = set(k for k in r.inline
                       if not any(m["type"][0] == "c" and m["type"][1] in r.inline
                                  for m, _ in flatten_particle(iface["types"][k]["particle"])))
    base_prefixes, base_default = dict(r.prefixes), r.default_ns_schema
    for ns in range(n):
        form = iface["namespaces"][ns]["form"]
        opp = "unqualified" if form == "qualified" else "qualified"
        keys = [k for k in iface["type_order"] if k[0] == ns and k not in r.inline]
        in_b, b_form = set(), None
        if rng is not None and len(keys) >= 2 and (r.mixed_block_forms or r.split_blocks):
            in_b = set(k for k in keys if rng.random() < 0.5)
            if len(in_b) == len(keys):
                in_b.discard(keys[0])
            b_form = opp if r.mixed_block_forms else None
        blocks = []
        for gi in (0, 1):
            group = [k for k in keys if (k in in_b) == (gi == 1)]
            if gi == 1 and not group:
                continue
            # this block's own style
            style = "plain"
            if rng is not None and r.block_styles:
                style = rng.choice(["plain", "plain", "tns-default", "xsd-default"])
                r.prefixes = {j: (base_prefixes[j] if rng.random() < 0.6 else "%s%d" % (rng.choice(["q", "v", "z"]), j))
                              for j in base_prefixes}
                if rng.random() < 0.3:
                    r.prefixes[ns] = "tns"       # every schema calls its own target namespace "tns"
                if n >= 2 and rng.random() < 0.3:
                    # the same prefix names as elsewhere, bound to other namespaces in this block
                    names = [base_prefixes[j] for j in range(n)]
                    rot = rng.randint(1, n - 1)
                    r.prefixes = dict(base_prefixes)
                    for j in range(n):
                        r.prefixes[j] = names[(j + rot) % n]
            elif base_default:
                style = "tns-default"
            r.default_ns_schema = style == "tns-default"
            block_form = b_form if gi == 1 else None
            extra = {"elements": {}, "groups": []}
            decls = [_type_xml(r, iface, key, extra, True, block_form) for key in group]
            if gi == 0:
                for akey in iface.get("array_order", []):
                    if akey[0] == ns:
                        decls.append('<xsd:complexType name="%s"><xsd:complexContent><xsd:restriction base="soapenc:Array">'
                                     '<xsd:attribute ref="soapenc:arrayType" wsdl:arrayType="%s[]"/></xsd:restriction>'
                                     '</xsd:complexContent></xsd:complexType>'
                                     % (akey[1], _q(r, iface, iface["arrays"][akey])))
                for ekey, vals in sorted(iface.get("enums", {}).items()):
                    if ekey[0] == ns:
                        decls.append('<xsd:simpleType name="%s"><xsd:restriction base="xsd:string">%s</xsd:restriction>'
                                     '</xsd:simpleType>'
                                     % (ekey[1], "".join('<xsd:enumeration value="%s"/>' % v for v in vals)))
                for key, t in iface["types"].items():
                    # global elements of this namespace that members of other types refer to
                    for m, _ in flatten_particle(t["particle"]):
                        if m.get("ref_ns") == ns:
                            decls.append('<xsd:element name="%s" type="%s"%s/>' % (
                                m["name"], _q(r, iface, m["type"], ns), ' nillable="true"' if m["nillable"] else ""))
                if ns == 0:
                    for op in iface["ops"]:
                        decls += _op_elements(r, iface, op, extra)
            decls += list(extra["elements"].values()) + extra["groups"]
            if r.shuffle and rng is not None:
                rng.shuffle(decls)
            nsdecl = " ".join('xmlns:%s="%s"' % (r.prefixes[j], iface["namespaces"][j]["uri"]) for j in range(n))
            dflt = ' xmlns="%s"' % iface["namespaces"][ns]["uri"] if r.default_ns_schema else ""
            f = (b_form or form) if gi == 1 else form
            fattr = ' elementFormDefault="%s"' % f
            if f == "unqualified" and rng is not None and r.block_styles and rng.random() < 0.5:
                fattr = ""       # unqualified is the default
            text = ('<xsd:schema xmlns:xsd="%s" xmlns:soapenc="%s" xmlns:wsdl="%s" %s%s targetNamespace="%s"%s>'
                    % (XSD, ENC, WSDLNS, nsdecl, dflt, iface["namespaces"][ns]["uri"], fattr)
                    + "@@IMPORTS:%d@@" % ns + "".join(decls) + "</xsd:schema>")
            own_decl = ' xmlns:%s="%s"' % (r.prefixes[ns], iface["namespaces"][ns]["uri"])
            if style == "tns-default" and r.block_styles and ('"%s:' % r.prefixes[ns]) not in text \
                    and text.count(own_decl) == 1:
                text = text.replace(own_decl, "", 1)      # the target namespace has no prefix in this block
            if style == "xsd-default":
                text = to_xsd_default(text)
            blocks.append(text)
        if len(blocks) == 2 and rng is not None and rng.random() < 0.5:
            blocks.reverse()
        out[ns] = blocks
    r.prefixes, r.default_ns_schema = base_prefixes, base_default
    return out


def _op_elements(r, iface, op, extra):
    out = []
    if op["style"] == "wrapped":
        for suffix, params in (("", op["in"]), ("Response", op["out"])):
            inner = "".join(_member_xml(r, iface, p, 0, None, extra) for p in params)
            out.append('<xsd:element name="%s%s"><xsd:complexType><xsd:sequence>%s</xsd:sequence></xsd:complexType>'
                       '</xsd:element>' % (op["name"], suffix, inner))
    elif op["style"] == "bare":
        for p in op["in"] + op["out"]:
            out.append('<xsd:element name="%s_%s" type="%s"/>' % (op["name"], p["name"], _q(r, iface, p["type"], 0)))
    return out


def plain_imports(iface, ns, locate=None, only=None):
    """The xsd:import elements of a schema block of namespace index ns; locate(j) -> schemaLocation or None;
    only: the namespaces to import (default: all others)."""
    n = len(iface["namespaces"])
    out = ""
    for j in range(n):
        if j == ns or (only is not None and j not in only):
            continue
        loc = locate(j) if locate else None
        out += '<xsd:import namespace="%s"%s/>' % (iface["namespaces"][j]["uri"],
                                                   ' schemaLocation="%s"' % loc if loc else "")
    if iface.get("encoded"):
        out += '<xsd:import namespace="%s"/>' % ENC
    return out


def wsdl_sections(r, iface, location, wns):
    msgs, ptops, bops = [], [], []
    n = len(iface["namespaces"])

    def part(name, attr, ns, local):
        """One wsdl:part; its QName prefix is the definitions-level one or, with block_styles, one declared on the
        part itself - possibly the name definitions binds to another namespace (shadowing)."""
        if ns is None:
            return '<wsdl:part name="%s" %s="xsd:%s"/>' % (name, attr, local)
        if r.rng is not None and (not r.root_prefixes or (r.block_styles and r.rng.random() < 0.4)):
            pfx = r.rng.choice(["pp%d" % ns] + ([r.prefixes[(ns + 1) % n]] if n > 1 else []))
            return '<wsdl:part name="%s" %s="%s:%s" xmlns:%s="%s"/>' % (name, attr, pfx, local, pfx,
                                                                      iface["namespaces"][ns]["uri"])
        return '<wsdl:part name="%s" %s="%s:%s"/>' % (name, attr, r.prefixes[ns], local)

    def tpart(p):
        if p["type"][0] == "b":
            return part(p["name"], "type", None, p["type"][1])
        return part(p["name"], "type", p["type"][1][0], p["type"][1][1])

    for op in iface["ops"]:
        st = op["style"]
        if st == "wrapped":
            pin = part("parameters", "element", 0, op["name"])
            pout = part("parameters", "element", 0, op["name"] + "Response")
        elif st == "bare":
            pin = "".join(part(p["name"], "element", 0, "%s_%s" % (op["name"], p["name"])) for p in op["in"])
            pout = "".join(part(p["name"], "element", 0, "%s_%s" % (op["name"], p["name"])) for p in op["out"])
        else:
            pin = "".join(tpart(p) for p in op["in"])
            pout = "".join(tpart(p) for p in op["out"])
        msgs.append('<wsdl:message name="%sIn">%s</wsdl:message><wsdl:message name="%sOut">%s</wsdl:message>'
                    % (op["name"], pin, op["name"], pout))
        ptops.append('<wsdl:operation name="%s"><wsdl:input message="w:%sIn"/><wsdl:output message="w:%sOut"/>'
                     '</wsdl:operation>' % (op["name"], op["name"], op["name"]))
        style = "document" if st in ("wrapped", "bare") else "rpc"
        use = "encoded" if st == "rpcenc" else "literal"
        battr = 'use="%s"' % use
        if style == "rpc":
            battr += ' namespace="%s"' % rpc_ns(iface)
        if use == "encoded":
            battr += ' encodingStyle="%s"' % ENC
        bops.append('<wsdl:operation name="%s"><soap:operation soapAction="urn:act:%s" style="%s"/>'
                    '<wsdl:input><soap:body %s/></wsdl:input><wsdl:output><soap:body %s/></wsdl:output></wsdl:operation>'
                    % (op["name"], op["name"], style, battr, battr))
    return {"messages": "".join(msgs),
            "porttype": '<wsdl:portType name="PT">%s</wsdl:portType>' % "".join(ptops),
            "binding": '<wsdl:binding name="B" type="w:PT"><soap:binding style="document" '
                       'transport="http://schemas.xmlsoap.org/soap/http"/>%s</wsdl:binding>' % "".join(bops),
            "service": '<wsdl:service name="S"><wsdl:port name="P" binding="w:B"><soap:address location="%s"/>'
                       '</wsdl:port></wsdl:service>' % location}


def definitions(r, iface, wns, inner):
    n = len(iface["namespaces"])
    nsdecl = " ".join('xmlns:%s="%s"' % (r.prefixes[j], iface["namespaces"][j]["uri"]) for j in range(n))
    if not r.root_prefixes and r.rng is not None:
        nsdecl = ""      # every QName in the WSDL part declares its prefix where it is used
    return ('<?xml version="1.0" encoding="UTF-8"?><wsdl:definitions targetNamespace="%s" xmlns:wsdl="%s" '
            'xmlns:w="%s" xmlns:soap="%s" xmlns:xsd="%s" %s>%s</wsdl:definitions>'
            % (wns, WSDLNS, wns, SOAPNS, XSD, nsdecl, inner)).encode("utf-8")


def block_ns(block):
    import re
    return int(re.search(r"@@IMPORTS:(\d+)@@", block).group(1))


def render(r, iface, location="http://svc.invalid/endpoint", schemas=None):
    """-> {document name: bytes}; 'main.wsdl' is the root (the single-document form)."""
    n = len(iface["namespaces"])
    wns = iface["namespaces"][0]["uri"] if r.wsdl_tns_is_ns0 else WNS
    if schemas is None:
        schemas = render_schemas(r, iface)
    types_inner = []
    order = list(range(n))
    if r.shuffle and r.rng is not None:
        r.rng.shuffle(order)
    for ns in order:
        types_inner += [b.replace("@@IMPORTS:%d@@" % ns, plain_imports(iface, ns)) for b in schemas[ns]]
    sec = wsdl_sections(r, iface, location, wns)
    rest = [sec["messages"], sec["porttype"], sec["binding"], sec["service"]]
    if r.shuffle and r.rng is not None:
        # WSDL 1.1 fixes types first; messages / portType / binding / service may come in any order
        r.rng.shuffle(rest)
    return {"main.wsdl": definitions(r, iface, wns, '<wsdl:types>%s</wsdl:types>' % "".join(types_inner) + "".join(rest))}


# ---------------------------------------------------------------- partitioned renderings (C12)

def relative_to(base, target, rng):
    """A reference to URL `target` as written inside the document at URL `base`: absolute or relative."""
    import posixpath
    from urllib.parse import urlsplit
    b, t = urlsplit(base), urlsplit(target)
    if (b.scheme, b.netloc) != (t.scheme, t.netloc) or rng.random() < 0.4 or b.scheme == "suds":
        return target
    if rng.random() < 0.2:
        return t.path               # relative to the server root ("/a/ns1.xsd")
    rel = posixpath.relpath(t.path, posixpath.dirname(b.path))
    return rel


def schema_open(block):
    return block.index("<xsd:schema") if "<xsd:schema" in block else block.index("<schema")


def schema_close(block):
    return block.rindex("</xsd:schema>") if "</xsd:schema>" in block else block.rindex("</schema>")


def head_of(block):
    return block[:block.index(">", schema_open(block)) + 1]


def body_of(block):
    import re
    inner = block[len(head_of(block)):schema_close(block)]
    return re.sub(r"@@IMPORTS:\d+@@", "", inner)


def block_scope(block):
    """({prefix: uri}, default namespace uri or None) declared on the block's <schema> node."""
    import re
    head = head_of(block)
    prefixes = dict(re.findall(r'xmlns:([A-Za-z0-9_]+)="([^"]*)"', head))
    m = re.search(r'\sxmlns="([^"]*)"', head)
    return prefixes, (m.group(1) if m else None)


def block_refs(block):
    """[(namespace uri, local name)] of every QName reference (type / base / ref / arrayType) in the block."""
    import re
    prefixes, default = block_scope(block)
    out = []
    for m in re.finditer(r'(?:base|ref|type|wsdl:arrayType)="(?:([^":]+):)?([^"\[]+)', block[len(head_of(block)):]):
        uri = prefixes.get(m.group(1)) if m.group(1) else default
        out.append((uri, m.group(2)))
    return out


def block_uses(block, iface):
    """Indices of the interface namespaces the block refers to."""
    uris = [nsd["uri"] for nsd in iface["namespaces"]]
    return set(uris.index(u) for u, _ in block_refs(block) if u in uris)


def block_depends(b, a, iface, ns):
    """Does schema block b need a declaration made in block a (both of namespace index ns)?
    (types, extension bases, group / attributeGroup / element references)"""
    import re
    declared = set(re.findall(r'<(?:xsd:)?(?:complexType|group|attributeGroup|element|simpleType) name="([^"]+)"', a))
    own = iface["namespaces"][ns]["uri"]
    return any(u == own and name in declared for u, name in block_refs(b))


def render_partitioned(r, iface, rng, location="http://svc.invalid/endpoint", schemas=None):
    """One interface split over several documents.
    -> (docs {url: bytes}, root url, plan description, reachable urls (set), decoys {url: bytes})"""
    n = len(iface["namespaces"])
    wns = iface["namespaces"][0]["uri"] if r.wsdl_tns_is_ns0 else WNS
    if schemas is None:
        schemas = render_schemas(r, iface)

    def url_for(name):
        if rng.random() < 0.35:
            return "suds://%s" % name
        return "http://docs.invalid/%s%s" % (rng.choice(["", "a/", "a/b/", "x/"]), name)

    root_url = rng.choice(["suds://root.wsdl", "http://docs.invalid/svc/root.wsdl", "http://docs.invalid/root.wsdl"])
    # where every schema block lives: ("inline",) | ("doc", url, how) with how in ximport / wimport / include
    place = {}
    doc_of_ns = {}
    # which namespaces each namespace's declarations refer to
    uses = {ns: set() for ns in range(n)}
    for key, t in iface["types"].items():
        if t["base"]:
            uses[key[0]].add(t["base"][0])
        for m, _ in flatten_particle(t["particle"]):
            if m["type"][0] in ("c", "a"):
                uses[key[0]].add(m["type"][1][0])
            if m.get("ref_ns") is not None:
                uses[key[0]].add(m["ref_ns"])
                if m["type"][0] in ("c", "a"):
                    uses[m["ref_ns"]].add(m["type"][1][0])
    for akey, item in iface.get("arrays", {}).items():
        if item[0] != "b":
            uses[akey[0]].add(item[1][0])
    for op in iface["ops"]:
        for prm in op["in"] + op["out"]:
            if prm["type"][0] in ("c", "a"):
                uses[0].add(prm["type"][1][0])
    # an out-of-line schema can only refer to out-of-line schemas (it names them by schemaLocation); inline
    # schemas see everything: close the out-of-line set under "refers to"
    external = set(ns for ns in range(n) if rng.random() < 0.6)
    changed = True
    while changed:
        changed = False
        for ns in list(external):
            for j in uses[ns]:
                if j not in external:
                    external.add(j)
                    changed = True
    schemas = {ns: list(bl) for ns, bl in schemas.items()}
    together = set()
    reach_ns = {ns: set(uses[ns]) for ns in range(n)}
    changed = True
    while changed:
        changed = False
        for ns in range(n):
            for j in list(reach_ns[ns]):
                if not reach_ns[j] <= reach_ns[ns]:
                    reach_ns[ns] |= reach_ns[j]
                    changed = True
    for ns in range(n):
        # suds builds and dereferences every out-of-line document on its own, depth-first (known finding D35): an
        # included part may not need declarations of a document still being loaded. So: the included part must not
        # depend on its includer, and namespaces on an import cycle are not split by includes at all.
        if len(schemas[ns]) == 2:
            a_, b_ = schemas[ns]
            cyclic = any(ns in reach_ns[j] for j in reach_ns[ns] if j != ns)
            dep_ba, dep_ab = block_depends(b_, a_, iface, ns), block_depends(a_, b_, iface, ns)
            if cyclic or (dep_ba and dep_ab):
                if head_of(a_) == head_of(b_):
                    schemas[ns] = [a_[:schema_close(a_)] + body_of(b_) + a_[schema_close(a_):]]
                else:
                    together.add(ns)
            elif dep_ba:
                schemas[ns] = [b_, a_]
    external = set(ns for ns in external if ns not in together)
    for _ in range(4 * n + 4):
        before = set(external)
        for ns in list(external):
            external |= uses[ns]                       # what an out-of-line schema uses is out of line too
        if external & together:
            external = set()                           # would need an inline-only namespace: keep everything inline
            break
        if external == before:
            break
    # out-of-line namespaces that import each other in a cycle of three or more (known finding D35: a document
    # reached while another document of the cycle is still loading merges incomplete tables)
    def reaches(a, b, seen=()):
        return any(j == b or (j not in seen and reaches(j, b, seen + (j,))) for j in uses[a] if j in external)
    cyc = [ns for ns in external if reaches(ns, ns)]
    import_cycle3 = any(len([m for m in cyc if reaches(ns, m) and reaches(m, ns)]) >= 3 for ns in cyc)
    # the same over ALL namespaces: every block of a partition imports only what it uses, so inline blocks that
    # import each other in a cycle of three or more are merged in an order-dependent, possibly incomplete way too
    def reaches_any(a, b, seen=()):
        return any(j == b or (j not in seen and reaches_any(j, b, seen + (j,))) for j in uses[a] if j != a)
    cyc_any = [ns for ns in range(n) if reaches_any(ns, ns)]
    import_cycle3 = import_cycle3 or any(
        len([m for m in cyc_any if reaches_any(ns, m) and reaches_any(m, ns)]) >= 3 for ns in cyc_any)
    for ns in range(n):
        mode = rng.choice(["ximport", "ximport", "wimport"]) if ns in external else "inline"
        for bi, block in enumerate(schemas[ns]):
            if bi == 0:
                if mode == "inline":
                    place[(ns, bi)] = ("inline",)
                else:
                    u = url_for("ns%d.xsd" % ns)
                    place[(ns, bi)] = ("doc", u, mode)
                    doc_of_ns[ns] = u
            else:
                # a second block of the namespace: inline too, or included by the first block
                foreign = block_uses(block, iface) - {ns}
                if ns in together or (ns not in external and not foreign <= external):
                    place[(ns, bi)] = ("inline",)     # an out-of-line part may only refer to out-of-line namespaces
                elif rng.random() < 0.6:
                    place[(ns, bi)] = ("doc", url_for("ns%d_part%d.xsd" % (ns, bi)), "include")
                else:
                    place[(ns, bi)] = place[(ns, 0)] if place[(ns, 0)][0] == "inline" else \
                        ("doc", url_for("ns%d_part%d.xsd" % (ns, bi)), "include")
    split_wsdl = rng.random() < 0.5
    iface_url = url_for("interface.wsdl") if split_wsdl else None
    self_import = rng.random() < 0.2
    docs = {}
    plan = {"root": root_url, "blocks": {}, "split_wsdl": split_wsdl, "self_import": self_import,
            "import_cycle3": import_cycle3}

    def fill_imports(block, ns, base_url):
        def locate(j):
            return relative_to(base_url, doc_of_ns[j], rng) if j in doc_of_ns else None
        only = block_uses(block, iface)      # a schema imports what it uses
        return block.replace("@@IMPORTS:%d@@" % ns, plain_imports(iface, ns, locate, only))

    types_holder = iface_url or root_url      # the WSDL document that carries <types>
    inline_blocks, wimports = [], []
    needs_stub = []
    for ns in range(n):
        for bi, block in enumerate(schemas[ns]):
            pl = place[(ns, bi)]
            plan["blocks"]["%d.%d" % (ns, bi)] = list(pl)
            if pl[0] == "inline":
                text = fill_imports(block, ns, types_holder)
                inline_blocks.append((ns, bi, text))
            else:
                text = fill_imports(block, ns, pl[1])
                if pl[2] == "include" and rng.random() < 0.5:
                    # chameleon include: the included document has no targetNamespace of its own
                    text = text.replace(' targetNamespace="%s"' % iface["namespaces"][ns]["uri"], "", 1)
                docs[pl[1]] = ('<?xml version="1.0" encoding="UTF-8"?>' + text).encode("utf-8")
    # includes: the first block of the namespace includes its out-of-line parts
    def add_includes(text, ns, base_url, is_doc=False):
        inc = ""
        for bi in range(1, len(schemas[ns])):
            pl = place[(ns, bi)]
            if pl[0] == "doc" and pl[2] == "include":
                inc += '<xsd:include schemaLocation="%s"/>' % relative_to(base_url, pl[1], rng)
        if self_import and is_doc and base_url.startswith("http"):
            inc += '<xsd:include schemaLocation="%s"/>' % base_url
        if not inc:
            return text
        i = text.index(">", schema_open(text)) + 1
        return text[:i] + inc + text[i:]
    inline_blocks = [(ns, bi, add_includes(t, ns, types_holder) if bi == 0 else t) for ns, bi, t in inline_blocks]
    for ns in range(n):
        pl = place[(ns, 0)]
        if pl[0] == "doc":
            docs[pl[1]] = add_includes(docs[pl[1]].decode("utf-8"), ns, pl[1], True).encode("utf-8")
            if pl[2] == "wimport":
                wimports.append('<wsdl:import namespace="%s" location="%s"/>'
                                % (iface["namespaces"][ns]["uri"], relative_to(types_holder, pl[1], rng)))
            else:
                needs_stub.append(ns)
    # an out-of-line namespace must be reachable: some inline schema imports it with a location (every inline block
    # imports every other namespace); when nothing is inline, a stub schema does
    if needs_stub:
        stub = '<xsd:schema xmlns:xsd="%s" targetNamespace="urn:stub">%s</xsd:schema>' % (
            XSD, "".join('<xsd:import namespace="%s" schemaLocation="%s"/>'
                         % (iface["namespaces"][j]["uri"], relative_to(types_holder, doc_of_ns[j], rng)) for j in needs_stub))
        inline_blocks.append((-1, 0, stub))
    if r.shuffle:
        rng.shuffle(inline_blocks)
    types = '<wsdl:types>%s</wsdl:types>' % "".join(t for _, _, t in inline_blocks)
    sec = wsdl_sections(r, iface, location, wns)
    if split_wsdl:
        # interface document: imports, types, messages, portType; root: import of it + binding + service
        docs[iface_url] = definitions(r, iface, wns, "".join(wimports) + types + sec["messages"] + sec["porttype"])
        root_inner = '<wsdl:import namespace="%s" location="%s"/>' % (wns, relative_to(root_url, iface_url, rng))
        if self_import:
            root_inner += '<wsdl:import namespace="%s" location="%s"/>' % (wns, root_url)
        if rng.random() < 0.5:
            # a diamond of wsdl:imports: the binding lives in a third document that imports the interface too
            bind_url = url_for("binding.wsdl")
            plan["wsdl_diamond"] = True
            again = ""
            if wimports and rng.random() < 0.6:
                # ... and wsdl:imports the schema documents the interface document wsdl:imports as well
                plan["xsd_wimport_diamond"] = True
                for ns in range(n):
                    pl = place[(ns, 0)]
                    if pl[0] == "doc" and pl[2] == "wimport":
                        again += '<wsdl:import namespace="%s" location="%s"/>' % (
                            iface["namespaces"][ns]["uri"], relative_to(bind_url, pl[1], rng))
            docs[bind_url] = definitions(r, iface, wns, '<wsdl:import namespace="%s" location="%s"/>'
                                         % (wns, relative_to(bind_url, iface_url, rng)) + again + sec["binding"])
            second = '<wsdl:import namespace="%s" location="%s"/>' % (wns, relative_to(root_url, bind_url, rng))
            if not self_import and rng.random() < 0.35:
                # a chain instead of a diamond: service -> binding -> interface (+ types); the middle document
                # has no <types> of its own
                plan["wsdl_chain"] = True
                root_inner = second
            else:
                root_inner = (root_inner + second) if rng.random() < 0.5 else (second + root_inner)
            docs[root_url] = definitions(r, iface, wns, root_inner + sec["service"])
        else:
            docs[root_url] = definitions(r, iface, wns, root_inner + sec["binding"] + sec["service"])
    else:
        root_inner = "".join(wimports)
        if self_import:
            root_inner += '<wsdl:import namespace="%s" location="%s"/>' % (wns, root_url)
        elif rng.random() < 0.3:
            # a cycle of two: the root (which carries <types>) imports a document that imports the root back
            plan["wsdl_cycle"] = True
            aux_url = url_for("aux.wsdl")
            docs[aux_url] = definitions(r, iface, wns, '<wsdl:import namespace="%s" location="%s"/>'
                                        % (wns, relative_to(aux_url, root_url, rng)))
            root_inner += '<wsdl:import namespace="%s" location="%s"/>' % (wns, relative_to(root_url, aux_url, rng))
        docs[root_url] = definitions(r, iface, wns, root_inner + types + sec["messages"] + sec["porttype"]
                                     + sec["binding"] + sec["service"])
    decoys = {"http://docs.invalid/decoy.xsd": b'<xsd:schema xmlns:xsd="%s" targetNamespace="urn:decoy"/>' % XSD.encode(),
              "suds://decoy.wsdl": definitions(r, iface, "urn:decoy", "")}
    plan["documents"] = sorted(docs)
    return docs, root_url, plan, decoys




# ---------------------------------------------------------------- the reference: replies

def out_params(iface, op):
    """The (member-like) definitions the reply's top-level nodes are matched against, with the
    namespace each carries, as [(member, ns)]."""
    ns0 = iface["namespaces"][0]
    if op["style"] == "wrapped":
        return [(p, ns0["uri"] if (p["form"] or ns0["form"]) == "qualified" else None) for p in op["out"]]
    if op["style"] == "bare":
        return [(dict(p, name="%s_%s" % (op["name"], p["name"])), ns0["uri"]) for p in op["out"]]
    return [(p, None) for p in op["out"]]


def top_value(p, outvals):
    """('absent',) | ('nil',) | ('one', v) | ('many', [v...]) for a top-level reply member."""
    if p["name"] not in outvals:
        return ("absent",)
    v = outvals[p["name"]]
    if isinstance(v, list):
        return ("many", v) if v else ("absent",)
    if v is None:
        return ("nil",) if p["nillable"] else ("absent",)
    return ("one", v)


def spec_reply_nodes(iface, op, outvals):
    """Body content (list of spec nodes) of a reply carrying `outvals` (dict out-param name -> value)."""
    nodes = []
    se = spec_element_enc if op["style"] == "rpcenc" else spec_element
    for (p, ns), orig in zip(out_params(iface, op), op["out"]):
        tv = top_value(orig, outvals)
        if tv[0] == "many":
            for item in tv[1]:
                nodes.append(se(iface, p["name"], ns, p["type"], item, orig["nillable"], True))
        elif tv[0] == "one":
            nodes.append(se(iface, p["name"], ns, p["type"], tv[1], False, True))
        elif tv[0] == "nil":
            nodes.append(se(iface, p["name"], ns, p["type"], None, True, True))
    if op["style"] == "wrapped":
        return [{"name": [iface["namespaces"][0]["uri"], op["name"] + "Response"], "attrs": [], "text": "", "children": nodes}]
    if op["style"] == "bare":
        return nodes
    return [{"name": [rpc_ns(iface), op["name"] + "Response"], "attrs": [], "text": "", "children": nodes}]


PY_NAMES = {"class": "cls", "def": "dfn"}


def decoded(iface, ttype, value):
    """Normal form of the Python data a reply value denotes: dicts for objects (with '__class__'),
    lists for repeating members, None for nil."""
    if value is None:
        return None
    if ttype[0] == "b":
        return value
    if ttype[0] == "a":
        return [decoded(iface, iface["arrays"][ttype[1]], x) for x in value["__array__"]]
    key = ttype[1]
    real = value.get("__type__", key)
    out = {"__class__": real[1]}
    for a, _ in attrs_of(iface, real):
        if "_" + a["name"] in value and value["_" + a["name"]] is not None:
            out["_" + a["name"]] = value["_" + a["name"]]
    for m, _, in_choice in members_of(iface, real):
        if m["name"] not in value:
            continue
        v = value[m["name"]]
        if v is None and not m["nillable"]:
            continue
        if m["max"] == "unbounded":
            if not isinstance(v, list):
                v = [v]
            if v:
                out[PY_NAMES.get(m["name"], m["name"])] = [decoded(iface, m["type"], x) for x in v]
        else:
            out[PY_NAMES.get(m["name"], m["name"])] = decoded(iface, m["type"], v)
    return out


def unwraps_out(op):
    ps = op["out"]
    return op["style"] == "bare" and len(ps) == 1 and ps[0]["type"][0] == "c"


def spec_result(iface, op, outvals):
    """The value an invocation returns for a reply carrying outvals."""
    outs = op["out"]
    names = [p["name"] for p, _ in out_params(iface, op)]
    n_types = len(outs)
    if unwraps_out(op):
        # suds treats a single-part document/literal message with a complex element as a wrapper:
        # the reply is the wrapper's content, one value per member
        key = outs[0]["type"][1]
        outvals = outvals.get(outs[0]["name"]) or {}
        outs = [m for m, _, _ in members_of(iface, key)]
        names = [m["name"] for m in outs]
        n_types = len(outs) + len(attrs_of(iface, key))
    def one(p):
        v = outvals.get(p["name"])
        if p["max"] == "unbounded":
            if v is None:
                v = []
            return [decoded(iface, p["type"], x) for x in v]
        return decoded(iface, p["type"], v)
    if n_types == 0:
        return None
    if not outs:
        # an unwrapped element whose type has attributes only: no child nodes to decode
        return None if n_types == 1 else {"__class__": "reply"}
    if n_types == 1:
        return one(outs[0])
    comp = {"__class__": "reply"}
    for p, q in zip(outs, names):
        if top_value(p, outvals)[0] == "absent":
            continue
        comp[q] = one(p)
    return comp


def gen_outvals(rng, iface, op, nil_in_lists=False):
    out = {}
    for p in op["out"]:
        v = gen_member_value(rng, iface, p, 0)
        if v is None and (p["min"] == 0 and rng.random() < 0.5):
            continue     # absent
        if v is None and op["style"] != "wrapped":
            v = gen_value(rng, iface, p["type"], 1)
        if unwraps_out(op):
            v = gen_value(rng, iface, p["type"], 1, allow_derived=False)
            v = {k: x for k, x in v.items() if not k.startswith("_")}
        out[p["name"]] = v
    return out


# ---------------------------------------------------------------- independent writer

class Presentation:
    def __init__(self, rng, soap12=False, default_ns=0.3, shadow=0.3, cdata=0.2, charref=0.3, comments=0.2,
                 whitespace=0.5, fresh=0.4):
        self.rng = rng
        self.soap12 = soap12
        self.default_ns = default_ns
        self.shadow = shadow
        self.cdata = cdata
        self.charref = charref
        self.comments = comments
        self.whitespace = whitespace
        self.fresh = fresh
        self.counter = 0


def plain_presentation(rng):
    return Presentation(rng, default_ns=0, shadow=0, cdata=0, charref=0, comments=0, whitespace=0, fresh=0)


def _esc_text(pr, s):
    rng = pr.rng
    if s and rng.random() < pr.cdata and "]]>" not in s:
        k = rng.randint(0, len(s))
        return _esc_plain(pr, s[:k]) + "<![CDATA[" + s[k:] + "]]>"
    return _esc_plain(pr, s)


def _esc_plain(pr, s):
    out = []
    for ch in s:
        if ch in "<&>" or (pr.rng.random() < pr.charref * 0.3):
            if ch in "<&>" and pr.rng.random() > pr.charref:
                out.append({"<": "&lt;", "&": "&amp;", ">": "&gt;"}[ch])
            else:
                out.append(pr.rng.choice(["&#%d;" % ord(ch), "&#x%x;" % ord(ch)]))
        else:
            out.append(ch)
    return "".join(out)


def _esc_attr(pr, s):
    out = []
    for ch in s:
        if ch in '<&>"':
            out.append({"<": "&lt;", "&": "&amp;", ">": "&gt;", '"': "&quot;"}[ch] if pr.rng.random() > pr.charref
                       else "&#%d;" % ord(ch))
        elif ch in "\t\n\r":
            out.append("&#%d;" % ord(ch))
        else:
            out.append(ch)
    return "".join(out)


def _prefix_for(pr, scope, uri, decls, allow_default):
    """Pick a prefix (None = default namespace) that denotes uri, declaring it when needed."""
    rng = pr.rng
    cands = [p for p, u in scope.items() if u == uri and (p is not None or allow_default)]
    if cands and rng.random() > pr.fresh:
        return rng.choice(sorted(cands, key=lambda x: x or ""))
    if allow_default and rng.random() < pr.default_ns and not any(d.startswith("xmlns=") for d in decls):
        scope[None] = uri
        decls.append('xmlns="%s"' % uri)
        return None
    if rng.random() < pr.shadow and scope:
        others = sorted(p for p in scope if p is not None and p not in ("xml",) and scope[p] != uri)
        if others:
            p = rng.choice(others)
            if not any(d.startswith('xmlns:%s=' % p) for d in decls):
                scope[p] = uri
                decls.append('xmlns:%s="%s"' % (p, uri))
                return p
    pr.counter += 1
    p = rng.choice(["q", "ns", "a", "tns", "x"]) + str(pr.counter)
    scope[p] = uri
    decls.append('xmlns:%s="%s"' % (p, uri))
    return p


def write_node(pr, node, scope, lexical_of=None):
    rng = pr.rng
    scope = dict(scope)
    decls = []
    ns, name = node["name"]
    if ns is None:
        if scope.get(None) is not None:
            scope[None] = None
            decls.append('xmlns=""')
        qn = name
    else:
        p = _prefix_for(pr, scope, ns, decls, True)
        qn = name if p is None else "%s:%s" % (p, name)
    attrs = []
    # attributes are resolved after the element's own choice so shadowing cannot hit the element name
    used = {qn.split(":")[0]} if ":" in qn else set()
    for k, v in node["attrs"]:
        ans, an = k
        if ans is None:
            aq = an
        else:
            while True:
                ap = _prefix_for(pr, scope, ans, decls, False)
                if scope.get(ap) == ans:
                    break
            aq = "%s:%s" % (ap, an)
            used.add(ap)
        if isinstance(v, dict):
            tns, tname = v["qname"]
            tp = _prefix_for(pr, scope, tns, decls, True)
            val = tname if tp is None else "%s:%s" % (tp, tname)
        elif isinstance(v, tuple):
            val = lexical(v[1], v[2])
        else:
            val = v
        attrs.append((aq, val, ans))
    # shadowing chosen later may have rebound a prefix already used on this element: re-validate
    def bound(q, uri, is_attr):
        if ":" in q:
            return scope.get(q.split(":")[0]) == uri
        return is_attr or scope.get(None) == uri
    if not bound(qn, ns, False) or not all(bound(a[0], a[2], True) for a in attrs):
        return write_node(plain_presentation(rng), node, {k: v for k, v in scope.items() if k in ("xml",)} , lexical_of)
    for a in attrs:
        if isinstance(node["attrs"][attrs.index(a)][1], dict):
            tns, tname = node["attrs"][attrs.index(a)][1]["qname"]
            if not bound(a[1], tns, False):
                return write_node(plain_presentation(rng), node, {"xml": scope.get("xml")}, lexical_of)
    head = "<" + qn + "".join(" " + d for d in decls) + "".join(' %s="%s"' % (a[0], _esc_attr(pr, a[1])) for a in attrs)
    t = node["text"]
    if isinstance(t, tuple):
        t = lexical(t[1], t[2])
    if not node["children"] and t == "":
        if rng.random() < 0.5:
            return head + "/>"
        return head + "></" + qn + ">"
    def ws():
        return rng.choice(["", "\n", "  ", "\n\t"]) if rng.random() < pr.whitespace else ""
    def cm():
        return "<!-- c -->" if rng.random() < pr.comments else ""
    if node["children"]:
        inner = ws() + cm()
        for c in node["children"]:
            inner += write_node(pr, c, scope, lexical_of) + ws() + cm()
        return head + ">" + inner + "</" + qn + ">"
    body = _esc_text(pr, t)
    if rng.random() < pr.comments and len(t) > 1:
        k = rng.randint(1, len(t) - 1)
        body = _esc_text(pr, t[:k]) + "<!--x-->" + _esc_text(pr, t[k:])
    return head + ">" + body + "</" + qn + ">"


def write_envelope(pr, body_nodes):
    envns = "http://www.w3.org/2003/05/soap-envelope" if pr.soap12 else ENV
    env = {"name": [envns, "Envelope"], "attrs": [], "text": "", "children": [
        {"name": [envns, "Body"], "attrs": [], "text": "", "children": body_nodes}]}
    if pr.rng.random() < 0.3:
        env["children"].insert(0, {"name": [envns, "Header"], "attrs": [], "text": "", "children": []})
    head = pr.rng.choice(['<?xml version="1.0" encoding="UTF-8"?>', "", '<?xml version="1.0"?>\n'])
    return (head + write_node(pr, env, {"xml": "http://www.w3.org/XML/1998/namespace"})).encode("utf-8")


# ---------------------------------------------------------------- the reference: factory objects

def spec_skeleton(iface, key, path=()):
    """What factory.create(type) holds: every member of the content model in schema order (inherited
    first), [] for repeating members, a pre-built object for a required complex member, None for optional
    members and leaves, nothing for choice branches; attributes under '_' names with their default."""
    out = {"__class__": key[1]}
    for a, _ in attrs_of(iface, key):
        out["_" + a["name"]] = a["default"]
    for m, decl, in_choice in members_of(iface, key):
        if in_choice:
            continue
        ident = (decl, m["name"])
        if ident in path:
            continue            # recursion cut-off
        if m["max"] == "unbounded":
            out[m["name"]] = []
        elif m["type"][0] == "b" or m["min"] == 0:
            out[m["name"]] = None
        else:
            out[m["name"]] = spec_skeleton(iface, m["type"][1], path + (ident,))
    return out
