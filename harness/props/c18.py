"""C18 - Referenced (multiref) content decodes exactly like inlined content."""
import copy

from harness import common, wsdlkit, xmlread

ID = "C18"
LEAN_MODULES = ["SudsModel.Props.C18"]
RULE = ("rpc/encoded reply values (structs, arrays of simple and of struct items, nested structs, empty arrays) x "
        "choices of which value nodes to move out of line (any subset), sharing of equal values by several referrers, "
        "nested references inside referenced values, id spellings, multiRef placement (after the response; before it "
        "when marked root='0'), roots marked or unmarked, dangling hrefs; decode(out-lined) vs decode(inlined) through "
        "the real client, and MultiRef.process vs the model on the body tree; non-trivial = at least one out-lined "
        "node; distinct = distinct (value, out-lining)"
        ' ; plus: independent elements named like their referrer or otherwise, arrays of arrays, a dangling href followed by valid ones'
        ' ; pretty-printed referrers (white space between the tags), independent elements re-binding an envelope prefix they do not use'
        ' ; independent elements stating the target namespace as default with unprefixed type names; ids differing in case only'
        ' ; padded strings out of line'
        ' ; type names ending in a digit; envelope-level bindings overridden per element; a prefix re-bound inside an independent element'
        ' ; xsi bound to the 1999 namespace'
        ' ; childless independent elements binding the prefix of their own type')
ASSUMPTIONS = ["references are acyclic and an href sits on a value element, not on a multiRef element itself"]
PARTIAL = [{"theorem": "decoded values (not trees) equal", "missing": "outlined_body_decodes proves, for every tree, every set "
            "of out-lined nodes and every nesting depth, that resolution returns the inline TREE (writer = "
            "Elem.outline/mkRef, ids distinct); that the schema-driven decoder maps equal trees to equal values is by "
            "construction, and what it maps them to is checked on the implementation (decode oracle); readers' "
            "variations of the writer (soapenc:root markers, positions, prefixes) are covered by the correspondence"}]
TRUSTED = []

ENC = xmlread.ENC
XSI = xmlread.XSI
XSD = xmlread.XSD
TNS = wsdlkit.TNS

SCHEMA = '''<xsd:import namespace="http://schemas.xmlsoap.org/soap/encoding/"/>
<xsd:complexType name="Person"><xsd:sequence><xsd:element name="name" type="xsd:string"/>
<xsd:element name="age" type="xsd:int"/><xsd:element name="home" type="x:Addr" minOccurs="0"/>
<xsd:element name="tags" type="x:ArrayOfString" minOccurs="0"/></xsd:sequence></xsd:complexType>
<xsd:complexType name="Employee"><xsd:complexContent><xsd:extension base="x:Person"><xsd:sequence>
<xsd:element name="dept" type="xsd:string"/></xsd:sequence></xsd:extension></xsd:complexContent></xsd:complexType>
<xsd:complexType name="Addr"><xsd:sequence><xsd:element name="city" type="xsd:string"/>
<xsd:element name="zip" type="xsd:int"/></xsd:sequence></xsd:complexType>
<xsd:complexType name="ArrayOfString"><xsd:complexContent><xsd:restriction base="soapenc:Array">
<xsd:attribute ref="soapenc:arrayType" wsdl:arrayType="xsd:string[]"/></xsd:restriction></xsd:complexContent></xsd:complexType>
<xsd:complexType name="ArrayOfPerson"><xsd:complexContent><xsd:restriction base="soapenc:Array">
<xsd:attribute ref="soapenc:arrayType" wsdl:arrayType="x:Person[]"/></xsd:restriction></xsd:complexContent></xsd:complexType>
<xsd:complexType name="Matrix"><xsd:complexContent><xsd:restriction base="soapenc:Array">
<xsd:attribute ref="soapenc:arrayType" wsdl:arrayType="xsd:int[][]"/></xsd:restriction></xsd:complexContent></xsd:complexType>'''


def childless_independent_elements(ctx):
    """An independent element that holds a simple value (no children) and binds, for itself, the prefix its own
    xsi:type uses - a prefix the envelope binds to something else: the value is typed as the inlined element is."""
    schema = ('<xsd:simpleType name="Code"><xsd:restriction base="xsd:int"/></xsd:simpleType><xsd:complexType name="Holder">'
              '<xsd:sequence><xsd:element name="v" type="xsd:anyType"/><xsd:element name="w" type="xsd:anyType"/>'
              '</xsd:sequence></xsd:complexType>')
    w = wsdlkit.wsdl_doc(schema, style="rpc", use="encoded", in_parts=[("a", "type", "xsd:string")],
                         out_parts=[("return", "type", "x:Holder")])
    c = wsdlkit.client(w)
    for outer in ("urn:elsewhere", wsdlkit.TNS, None):
        for inline in (True, False):
            kdecl = "" if outer is None else ' xmlns:k="%s"' % outer
            v_ = ' xmlns:k="%s" xsi:type="k:Code">42' % wsdlkit.TNS
            w_ = ' xmlns:k="%s" xsi:type="k:int">7' % xmlread.XSD
            if inline:
                body = '<return><v%s</v><w%s</w></return></m:fResponse>' % (v_, w_)
            else:
                body = ('<return><v href="#id1"/><w href="#id2"/></return></m:fResponse><multiRef id="id1" soapenc:root="0"%s'
                        '</multiRef><multiRef id="id2" soapenc:root="0"%s</multiRef>' % (v_, w_))
            doc = ('<e:Envelope xmlns:e="%s" xmlns:xsi="%s" xmlns:xsd="%s" xmlns:soapenc="%s"%s><e:Body><m:fResponse '
                   'xmlns:m="%s">%s</e:Body></e:Envelope>' % (xmlread.ENV11, xmlread.XSI, xmlread.XSD, xmlread.ENC, kdecl,
                                                               wsdlkit.TNS, body)).encode()
            meta = {"stream": "childless-independent-elements", "envelope_binds_k_to": outer, "inline": inline, "doc": doc.decode()}
            ctx.case(common.canon({k_: v for k_, v in meta.items() if k_ != "doc"}), True)
            try:
                r = c.service.f("x", __inject={"reply": doc})
                got = [[type(r.v).__name__, str(r.v)], [type(r.w).__name__, str(r.w)]]
            except Exception as e:
                got = "%s: %s" % (type(e).__name__, e)
            if got != [["int", "42"], ["int", "7"]]:
                ctx.fail("out-lined reply decodes differently from the inlined one", meta, got, [["int", "42"], ["int", "7"]])


def make_wsdl(ret_type):
    return wsdlkit.wsdl_doc(SCHEMA, style="rpc", use="encoded", in_parts=[("a", "type", "xsd:string")],
                            out_parts=[("return", "type", ret_type)])


# value trees: ("struct", type, [(name, value)]) | ("array", itemtype, [values]) | ("str", s) | ("int", n)

def gen_person(rng, depth=0):
    fields = [("name", ("str", rng.choice(["Ann", "Bob", "Zoë <&>", "", " padded "]))), ("age", ("int", rng.randint(0, 99)))]
    if rng.random() < 0.6:
        fields.append(("home", ("struct", "Addr", [("city", ("str", rng.choice(["Rome", "Oslo"]))),
                                                   ("zip", ("int", rng.randint(1000, 9999)))])))
    if rng.random() < 0.6:
        fields.append(("tags", ("array", "xsd:string", [("str", rng.choice(["t1", "t2", "x y", "  lead", "trail "]))
                                                        for _ in range(rng.choice([0, 1, 2, 3]))])))
    if depth == 0 and rng.random() < 0.25:
        return ("struct", "Employee", fields + [("dept", ("str", rng.choice(["R&D", "ops"])))])
    return ("struct", "Person", fields)


def gen_value(rng, kind):
    if kind == "Person":
        return gen_person(rng)
    return ("array", "x:Person", [gen_person(rng) for _ in range(rng.choice([0, 1, 2, 3]))])


class Writer:
    """Independent writer of rpc/encoded replies with optional out-lining."""

    def __init__(self, rng, outline_prob, share, id_style, placement, marked, untyped=0.0):
        self.untyped = untyped
        self.rng = rng
        self.p = outline_prob
        self.share = share
        self.id_style = id_style
        self.placement = placement
        self.marked = marked
        self.multirefs = []
        self.by_content = {}
        self.n = 0
        self.outlined = 0
        self.xsi = rng.choice(["xsi", "xsi", "i"])           # the schema-instance namespace under another prefix
        self.local = rng.random() < 0.3                       # declare prefixes on the element that uses them
        # SOAP 1.1 section 5: the name of an independent element is not significant - the customary "multiRef", the
        # name of the accessor that refers to it, or the type's name
        self.mrname = rng.choice(["multiRef", "multiRef", "accessor", "other"])
        self.spaced = rng.random() < 0.3                      # pretty printed: <x href="#id">(white space)</x>
        # an independent element may re-bind, for itself, a prefix the envelope binds (and that it does not use)
        self.shadow = rng.random() < 0.3
        # an independent element may state the target namespace as its default namespace and name the types of the
        # structs inside it without a prefix (an unprefixed QName value takes the default namespace in scope)
        self.dflt = (not self.local) and rng.random() < 0.25
        self.in_dflt = 0
        # ids are case-sensitive: r1 and R1 are two ids
        self.mixed_case_ids = rng.random() < 0.3
        self.outer_conflict = rng.random() < 0.4
        self.rebind = rng.random() < 0.5
        self.in_mr = 0
        # old toolkits bind "xsi" to the 1999 instance namespace; a document may do so (and not use it) while it
        # writes the 2001 one under another prefix
        self.old_xsi = self.xsi != "xsi" and rng.random() < 0.6

    def new_id(self):
        self.n += 1
        if self.mixed_case_ids:
            # r1, R2, r3 ... and, for every second one, the other case of an id already used (r1 / R1)
            k = (self.n + 1) // 2
            return ("Ref%d" if self.n % 2 else "ref%d") % k
        return {"num": "id%d" % self.n, "guid": "g-%04x-ref" % (self.n * 7919), "plain": "r%d" % self.n}[self.id_style]

    def type_attrs(self, v):
        def decl(*prefixes):
            # local mode: an element declares exactly the prefixes its own attributes use
            if not self.local:
                return ""
            uris = {self.xsi: XSI, "x": TNS, "y": TNS, "xsd": XSD, "soapenc": ENC}
            return "".join(' xmlns:%s="%s"' % (p, uris[p]) for p in dict.fromkeys(prefixes))
        if v[0] == "struct":
            if self.in_dflt:
                return decl(self.xsi) + ' %s:type="%s"' % (self.xsi, v[1])
            if self.local and self.rebind and self.in_mr:
                # inside an independent element that binds y to something else, this element re-binds y for itself
                return decl(self.xsi, "y") + ' %s:type="y:%s"' % (self.xsi, v[1])
            return decl(self.xsi, "x") + ' %s:type="x:%s"' % (self.xsi, v[1])
        if v[0] == "array":
            return decl(self.xsi, "soapenc", v[1].split(":")[0]) + \
                ' %s:type="soapenc:Array" soapenc:arrayType="%s[%d]"' % (self.xsi, v[1], len(v[2]))
        return decl(self.xsi, "xsd") + ' %s:type="xsd:%s"' % (self.xsi, "string" if v[0] == "str" else "int")

    def content(self, v):
        if v[0] == "struct":
            return "".join(self.element(n, x) for n, x in v[2])
        if v[0] == "array":
            return "".join(self.element("item", x) for x in v[2])
        if v[0] == "str":
            return v[1].replace("&", "&amp;").replace("<", "&lt;").replace(">", "&gt;")
        return str(v[1])

    def element(self, name, v, allow_outline=True):
        if allow_outline and self.rng.random() < self.p:
            key = repr(v)
            if self.share and key in self.by_content:
                rid = self.by_content[key]
            else:
                rid = self.new_id()
                self.by_content[key] = rid
                root = ' soapenc:root="0"' if self.marked else ""
                if root and self.local and v[0] != "array":
                    root = ' xmlns:soapenc="%s"%s' % (ENC, root)
                tag = {"multiRef": "multiRef", "accessor": name, "other": "val%d" % self.n}[self.mrname]
                if self.shadow and v[0] in ("str", "int"):
                    root = ' xmlns:x="urn:shadowed:%d"%s' % (self.n, root)
                use_dflt = self.dflt and v[0] == "struct" and not self.in_dflt
                was_in_mr, self.in_mr = self.in_mr, 0
                own_type = self.type_attrs(v)
                self.in_mr = was_in_mr + 1
                if self.local and self.rebind:
                    root = ' xmlns:y="urn:decoy:%d"%s' % (self.n, root)
                if use_dflt:
                    root = ' xmlns="%s"%s' % (TNS, root)
                    self.in_dflt += 1
                body = self.content(v)
                self.in_mr = was_in_mr
                if use_dflt:
                    self.in_dflt -= 1
                self.multirefs.append('<%s id="%s"%s%s>%s</%s>' % (tag, rid, root, own_type, body, tag))
            self.outlined += 1
            if self.spaced:
                return '<%s href="#%s">\n    </%s>' % (name, rid, name)
            return '<%s href="#%s"/>' % (name, rid)
        ta = self.type_attrs(v)
        if name == "item" and v[0] != "array" and not (v[0] == "struct" and v[1] != "Person") \
                and self.rng.random() < self.untyped:
            ta = ""       # untyped array item: its type comes from the enclosing arrayType
        return "<%s%s>%s</%s>" % (name, ta, self.content(v), name)

    def envelope(self, v, dangling=False):
        resp = '<m:fResponse xmlns:m="%s">%s%s</m:fResponse>' % (
            TNS, self.element("return", v), '<extra href="#nowhere"/>' if dangling else "")
        mr = "".join(self.multirefs)
        body = (mr + resp) if self.placement == "before" else (resp + mr)
        if self.local:
            # (sometimes the envelope binds the same prefixes to something else: every element that uses one re-binds
            # it for itself, as local mode does anyway)
            outer = ' xmlns:x="urn:outer:x" xmlns:xsd="urn:outer:xsd"' if self.outer_conflict else ""
            return ('<e:Envelope xmlns:e="%s"%s><e:Body>%s</e:Body></e:Envelope>' % (xmlread.ENV11, outer, body)).encode("utf-8")
        old = ' xmlns:xsi="http://www.w3.org/1999/XMLSchema-instance"' if self.old_xsi else ""
        return ('<e:Envelope xmlns:e="%s" xmlns:%s="%s"%s xmlns:xsd="%s" xmlns:soapenc="%s" xmlns:x="%s">'
                '<e:Body>%s</e:Body></e:Envelope>' % (xmlread.ENV11, self.xsi, XSI, old, XSD, ENC, TNS, body)).encode("utf-8")


def canon(v):
    """suds decoded value -> JSON-able canonical form."""
    import datetime
    if v is None or isinstance(v, (bool, int, float)):
        return v
    if isinstance(v, str):
        return str(v)
    if isinstance(v, list):
        return [canon(x) for x in v]
    if hasattr(v, "__keylist__"):
        return {"@" + type(v).__name__: [[k, canon(getattr(v, k))] for k in v.__keylist__]}
    return repr(v)


def expected_of(v):
    """What the abstract value is, in the same canonical form (for the inlined reply)."""
    if v[0] == "str":
        return v[1] if v[1] != "" else None
    if v[0] == "int":
        return v[1]
    if v[0] == "array":
        return [expected_of(x) for x in v[2]]
    return {"@" + v[1]: [[n, expected_of(x)] for n, x in v[2]]}


def loosen(c):
    """Drop class names and None-vs-'' distinctions that are the C02 business, keep structure."""
    if isinstance(c, dict):
        (k, items), = c.items()
        return {"obj": [[n, loosen(x)] for n, x in items]}
    if isinstance(c, list):
        return [loosen(x) for x in c]
    return c


def struct_dump(e):
    return {"name": e.name, "pfx": e.prefix,
            "attrs": [[a.prefix, a.name, None if a.value is None else str(a.value)] for a in e.attributes],
            "text": None if e.text is None else str(e.text), "kids": [struct_dump(c) for c in e.children]}


def strip_ids(n):
    return {"name": n["name"], "pfx": n["pfx"], "attrs": n["attrs"], "text": n["text"],
            "kids": [strip_ids(k) for k in n["kids"]]}


def model_tree(e, counter):
    counter[0] += 1
    return {"id": counter[0], "pfx": e.prefix, "name": e.name, "expns": e.expns,
            "nsp": [[k, v] for k, v in e.nsprefixes.items()],
            "attrs": [[a.prefix, a.name, "" if a.value is None else str(a.value)] for a in e.attributes],
            "text": None if e.text is None else str(e.text), "kids": [model_tree(c, counter) for c in e.children]}


def run(ctx):
    from suds.sax.parser import Parser
    from suds.bindings.multiref import MultiRef
    rng = ctx.rng
    clients = {k: wsdlkit.client(make_wsdl(t)) for k, t in (("Person", "x:Person"), ("People", "x:ArrayOfPerson"))}
    reqs, reals, metas = [], [], []
    for _ in range(ctx.pick(300, 6000)):
        kind = rng.choice(["Person", "People"])
        v = gen_value(rng, kind)
        c = clients[kind]
        inline_doc = Writer(rng, 0.0, False, "num", "after", True).envelope(v)
        try:
            base = canon(c.service.f("x", __inject={"reply": inline_doc}))
        except Exception as e:
            ctx.fail("inlined reply could not be decoded", {"value": repr(v)[:300]}, repr(e), "a value")
            continue
        if loosen(base) != loosen(expected_of(v)):
            ctx.fail("inlined encoded reply decodes to a different value", {"value": repr(v)[:300], "doc": inline_doc.decode()},
                     base, expected_of(v))
        for _k in range(ctx.pick(4, 8)):
            marked = rng.random() < 0.7
            placement = "after" if rng.random() < (0.85 if not marked else 0.6) else "before"
            wtr = Writer(rng, rng.choice([0.0, 0.2, 0.5, 0.9]), rng.random() < 0.5, rng.choice(["num", "guid", "plain"]),
                         placement, marked, untyped=rng.choice([0.0, 0.5, 1.0]))
            dangling = rng.random() < 0.1
            doc = wtr.envelope(v, dangling)
            meta = {"kind": kind, "value": repr(v)[:400], "doc": doc.decode("utf-8"), "marked": marked,
                    "placement": placement, "outlined": wtr.outlined, "dangling": dangling}
            ctx.case(common.digest(meta["doc"]), wtr.outlined > 0)
            ctx.dist["outlined=%d" % min(wtr.outlined, 6)] += 1
            try:
                got = canon(c.service.f("x", __inject={"reply": doc}))
            except Exception as e:
                ctx.fail("out-lined reply could not be decoded", meta, repr(e), base)
                continue
            if got != base:
                ctx.fail("out-lined reply decodes differently from the inlined one", meta, got, base)
            # tree level: MultiRef.process vs model
            body = Parser().parse(string=doc).root().getChild("Body")
            body.detach()
            mt = model_tree(body, [0])
            MultiRef().process(body)
            reqs.append({"op": "multiref.process", "tree": mt, "fuel": 12})
            reals.append(struct_dump(body))
            metas.append(meta)
    for meta, real, ans in zip(metas, reals, ctx.driver.ask(reqs)):
        if ans is not None:
            ctx.compare("MultiRef.process", meta, real, strip_ids(ans))
    jagged_and_dangling(ctx)
    digit_ended_type_names(ctx)
    childless_independent_elements(ctx)
    lean_writer_roundtrip(ctx)
    # a reference that dangles in this reply stays dangling, whatever earlier replies on the same client defined
    head = ('<e:Envelope xmlns:e="%s" xmlns:xsi="%s" xmlns:xsd="%s" xmlns:soapenc="%s" xmlns:x="%s"><e:Body>'
            '<m:fResponse xmlns:m="%s"><return xsi:type="x:Person"><name xsi:type="xsd:string">N</name>'
            '<age xsi:type="xsd:int">5</age><home href="#id1"/></return></m:fResponse>'
            % (xmlread.ENV11, XSI, XSD, ENC, TNS, TNS))
    with_ref = (head + '<multiRef id="id1" soapenc:root="0" xsi:type="x:Addr"><city xsi:type="xsd:string">Rome</city>'
                '<zip xsi:type="xsd:int">1</zip></multiRef></e:Body></e:Envelope>').encode()
    without = (head + '</e:Body></e:Envelope>').encode()
    fresh = wsdlkit.client(make_wsdl("x:Person"))
    used = clients["Person"]
    ctx.case("stale-catalogue", True)
    try:
        want = canon(fresh.service.f("x", __inject={"reply": without}))
        used.service.f("x", __inject={"reply": with_ref})
        got = canon(used.service.f("x", __inject={"reply": without}))
    except Exception as e:
        want, got = "decoded", "%s: %s" % (type(e).__name__, e)
    if got != want:
        ctx.fail("a dangling href was resolved from an earlier reply's multiRef", {"doc": without.decode()}, got, want)
    # arrays: item typing by arrayType and empty arrays
    c = clients["People"]
    doc = Writer(rng, 0, False, "num", "after", True).envelope(("array", "x:Person", []))
    r = c.service.f("x", __inject={"reply": doc})
    ctx.case("empty-array", True)
    if r != []:
        ctx.fail("empty array does not decode to an empty list", {"doc": doc.decode()}, repr(r), [])
    # ... whatever the document binds the prefix "xsi" to (the 2001 namespace, the 1999 one of old toolkits, nothing)
    for label, decl, pfx in (("xsi-2001", ' xmlns:xsi="%s"' % XSI, "xsi"), ("xsi-unbound", ' xmlns:i="%s"' % XSI, "i"),
                             ("xsi-1999", ' xmlns:i="%s" xmlns:xsi="http://www.w3.org/1999/XMLSchema-instance"' % XSI, "i"),
                             ("no-instance-namespace", "", None),
                             ("only-1999", ' xmlns:xsi="http://www.w3.org/1999/XMLSchema-instance"', None)):
        ta = ' %s:type="soapenc:Array"' % pfx if pfx else ""
        untyped = ('<e:Envelope xmlns:e="%s"%s xmlns:xsd="%s" xmlns:soapenc="%s" xmlns:x="%s"><e:Body>'
                   '<m:fResponse xmlns:m="%s"><return%s soapenc:arrayType="x:Person[2]">'
                   '<item><name>A</name><age>1</age></item><item><name>B</name><age>2</age></item></return>'
                   '</m:fResponse></e:Body></e:Envelope>' % (xmlread.ENV11, decl, XSD, ENC, TNS, TNS, ta)).encode()
        ctx.case(("arrayType-items", label), True)
        try:
            r = c.service.f("x", __inject={"reply": untyped})
        except Exception as e:
            r = "%s: %s" % (type(e).__name__, e)
        ok = isinstance(r, list) and len(r) == 2 and all(type(x).__name__ == "Person" and isinstance(x.age, int) for x in r)
        if not ok:
            ctx.fail("array items are not typed by arrayType", {"doc": untyped.decode(), "binding": label},
                     canon(r) if not isinstance(r, str) else r, "2 Person items with int ages")
    ctx.sample({"doc": metas[0]["doc"][:600] if metas else ""})
    ctx.sample({"value": metas[-1]["value"] if metas else ""})


def kf_unmarked_before(f, k):
    """D16: an unmarked multiRef (no soapenc:root) placed before the response element."""
    m = f.get("input") or {}
    return m.get("marked") is False and m.get("placement") == "before"


CLASSIFIERS = {"c18_unmarked_multiref_first": kf_unmarked_before}


def lean_writer_roundtrip(ctx):
    """The writer of the theorem outlined_body_decodes (Lean: Elem.outline / mkRef) applied to random inline content,
    its output handed to the REAL MultiRef.process: the implementation gives back what the theorem says (the inline
    content, out-lined nodes carrying the soapenc:root marker), and what the model's process gives."""
    from harness.props import c19
    from suds.bindings.multiref import MultiRef
    rng = ctx.rng

    def gen(depth, counter):
        counter[0] += 1
        n = {"id": counter[0], "name": rng.choice(["a", "b", "item"]), "pfx": None, "expns": None, "nsp": [],
             "attrs": [[None, k, rng.choice(["v", "x y", ""])] for k in rng.sample(["k", "v", "w"], rng.randint(0, 2))],
             "text": rng.choice([None, "t", "x y"]), "kids": []}
        if depth > 0:
            n["kids"] = [gen(depth - 1, counter) for _ in range(rng.choice([0, 1, 2, 3]))]
            if n["kids"]:
                n["text"] = None
        return n

    def ids_of(n):
        return [n["id"]] + [i for k in n["kids"] for i in ids_of(k)]
    reqs, metas = [], []
    for _ in range(ctx.pick(150, 3000)):
        counter = [1]
        roots = [gen(3, counter)]
        body = {"id": 1, "name": "Body", "pfx": None, "expns": None, "nsp": [["soapenc", ENC]], "attrs": [], "text": None,
                "kids": roots}
        inner = [i for r in roots for i in ids_of(r)][1:]           # the response element itself stays in place
        chosen = sorted(rng.sample(inner, rng.randint(0, min(4, len(inner))))) if inner else []
        reqs.append({"op": "multiref.outline", "tree": body, "outlined": chosen, "marked": True, "fuel": 40})
        metas.append({"stream": "lean-writer", "inline": body, "outlined": chosen})
    for meta, ans in zip(metas, ctx.driver.ask(reqs)):
        if ans is None:
            continue
        ctx.case(common.canon({"inline": meta["inline"], "outlined": meta["outlined"]}), bool(meta["outlined"]))
        ctx.dist["lean-writer:outlined=%d" % min(len(meta["outlined"]), 4)] += 1
        world = c19.World()
        real_body = c19.build(world, ans["body"])
        MultiRef().process(real_body)
        real = struct_dump(real_body)
        ctx.compare("MultiRef.process(lean writer)", meta, real, strip_ids(ans["processed"]))
        if real != strip_ids(ans["expected"]):
            ctx.fail("resolution of the theorem's writer output does not give back the inline content", meta, real,
                     strip_ids(ans["expected"]))


def leaves(x):
    """The leaf values of a decoded result, in order."""
    import suds.sudsobject
    if isinstance(x, suds.sudsobject.Object):
        out = []
        for _k, v in suds.sudsobject.items(x):
            out.extend(leaves(v))
        return out
    if isinstance(x, (list, tuple)):
        out = []
        for v in x:
            out.extend(leaves(v))
        return out
    return [x]


def jagged_and_dangling(ctx):
    """(a) an array of arrays (arrayType with two bracket groups; the rows carry only their own arrayType): inline and
    with rows moved out of line it decodes to the same value, whose leaves are the integers written; (b) an href that
    matches no id stays unresolved without disturbing the references after it."""
    env = ('<e:Envelope xmlns:e="%s" xmlns:xsi="%s" xmlns:xsd="%s" xmlns:soapenc="%s" xmlns:x="%s"><e:Body>'
           '<m:fResponse xmlns:m="%s">%%s</m:fResponse>%%s</e:Body></e:Envelope>' % (xmlread.ENV11, XSI, XSD, ENC, TNS, TNS))
    row = '<item soapenc:arrayType="xsd:int[2]">%s</item>'
    rows = [row % "<i>1</i><i>2</i>", row % "<i>3</i><i>4</i>"]
    inline = env % ('<return xsi:type="x:Matrix" soapenc:arrayType="xsd:int[][2]">%s</return>' % "".join(rows), "")
    outl = env % ('<return xsi:type="x:Matrix" soapenc:arrayType="xsd:int[][2]"><item href="#r1"/><item href="#r2"/>'
                  '</return>', '<multiRef id="r1" soapenc:root="0" soapenc:arrayType="xsd:int[2]"><i>1</i><i>2</i></multiRef>'
                  '<multiRef id="r2" soapenc:root="0" soapenc:arrayType="xsd:int[2]"><i>3</i><i>4</i></multiRef>')
    c = wsdlkit.client(make_wsdl("x:Matrix"))
    got = []
    for name, doc in (("inline", inline), ("out-of-line", outl)):
        ctx.case(("jagged", name), True)
        try:
            got.append(leaves(c.service.f("x", __inject={"reply": doc.encode()})))
        except Exception as e:
            got.append("%s: %s" % (type(e).__name__, e))
    if got != [[1, 2, 3, 4], [1, 2, 3, 4]]:
        ctx.fail("an array of arrays does not decode to its integers (inline / rows out of line)", {"stream": "jagged"},
                 got, [[1, 2, 3, 4], [1, 2, 3, 4]])
    c2 = wsdlkit.client(make_wsdl("x:Person"))
    person = ('<return xsi:type="x:Person"><name href="#nowhere"/><age href="#a"/><home href="#h"/></return>')
    refs = ('<multiRef id="a" soapenc:root="0" xsi:type="xsd:int">41</multiRef><multiRef id="h" soapenc:root="0" '
            'xsi:type="x:Addr"><city href="#alsonowhere"/><zip href="#z"/></multiRef><multiRef id="z" soapenc:root="0" '
            'xsi:type="xsd:int">7</multiRef>')
    ctx.case(("dangling-then-valid",), True)
    try:
        r = c2.service.f("x", __inject={"reply": (env % (person, refs)).encode()})
        got = [getattr(r, "age", None), getattr(getattr(r, "home", None), "zip", None)]
    except Exception as e:
        got = "%s: %s" % (type(e).__name__, e)
    if got != [41, 7]:
        ctx.fail("a dangling href disturbed the references after it", {"stream": "dangling-then-valid"}, got, [41, 7])


def digit_ended_type_names(ctx):
    """An array whose item type has a name ending in a digit (Vec3), items untyped, inline and out of line."""
    schema = ('<xsd:import namespace="http://schemas.xmlsoap.org/soap/encoding/"/><xsd:complexType name="Vec3"><xsd:sequence>'
              '<xsd:element name="x" type="xsd:int"/><xsd:element name="tag" type="xsd:string" minOccurs="0"/></xsd:sequence>'
              '</xsd:complexType><xsd:complexType name="Vec"><xsd:sequence><xsd:element name="other" type="xsd:string"/>'
              '</xsd:sequence></xsd:complexType><xsd:complexType name="ArrayOfVec3"><xsd:complexContent><xsd:restriction '
              'base="soapenc:Array"><xsd:attribute ref="soapenc:arrayType" wsdl:arrayType="x:Vec3[]"/></xsd:restriction>'
              '</xsd:complexContent></xsd:complexType>')
    c = wsdlkit.client(wsdlkit.wsdl_doc(schema, style="rpc", use="encoded", in_parts=[("a", "type", "xsd:string")],
                                        out_parts=[("return", "type", "x:ArrayOfVec3")]))
    env = ('<e:Envelope xmlns:e="%s" xmlns:xsi="%s" xmlns:xsd="%s" xmlns:soapenc="%s" xmlns:x="%s"><e:Body>'
           '<m:fResponse xmlns:m="%s">%%s</m:fResponse>%%s</e:Body></e:Envelope>' % (xmlread.ENV11, XSI, XSD, ENC, TNS, TNS))
    items = "<item><x>1</x><tag>a</tag></item><item><x>2</x></item>"
    inline = env % ('<return xsi:type="soapenc:Array" soapenc:arrayType="x:Vec3[2]">%s</return>' % items, "")
    outl = env % ('<return href="#a1"/>', '<multiRef id="a1" soapenc:root="0" xsi:type="soapenc:Array" '
                  'soapenc:arrayType="x:Vec3[2]">%s</multiRef>' % items)
    got = []
    for name, doc in (("inline", inline), ("out-of-line", outl)):
        ctx.case(("digit-ended-type", name), True)
        try:
            r = c.service.f("q", __inject={"reply": doc.encode()})
            got.append([[type(i).__name__, getattr(i, "x", None), str(getattr(i, "tag", None))] for i in r])
        except Exception as e:
            got.append("%s: %s" % (type(e).__name__, e))
    want = [["Vec3", 1, "a"], ["Vec3", 2, "None"]]
    if got != [want, want]:
        ctx.fail("an array of a type whose name ends in a digit does not decode to its items (inline / out of line)",
                 {"stream": "digit-ended-type"}, got, [want, want])


def widen(ctx):
    ctx.tier = "thorough"
    run(ctx)


def conflicting_prefixes():
    """D50 witness: two independent elements bind one prefix differently; the struct's own xsi:type uses its binding."""
    XSI = "http://www.w3.org/2001/XMLSchema-instance"
    c = wsdlkit.client(make_wsdl("x:Person"))
    doc = ('<e:Envelope xmlns:e="%s"><e:Body><m:fResponse xmlns:m="%s"><return href="#id1"/></m:fResponse>'
           '<multiRef id="id2" xmlns:x="urn:elsewhere" xmlns:soapenc="%s" soapenc:root="0" xmlns:xsi="%s" xmlns:xsd="%s" '
           'xsi:type="xsd:string">R&amp;D</multiRef>'
           '<multiRef id="id1" xmlns:x="%s" xmlns:soapenc="%s" soapenc:root="0" xmlns:xsi="%s" xsi:type="x:Employee">'
           '<name>Bob</name><dept href="#id2"/></multiRef></e:Body></e:Envelope>'
           % (xmlread.ENV11, TNS, ENC, XSI, XSD, TNS, ENC, XSI)).encode()
    try:
        r = c.service.f("x", __inject={"reply": doc})
        return not (type(r).__name__ == "Employee" and r.dept == "R&D")
    except Exception:
        return True


def shared_with_children():
    """D51 witness: one independent array (an untyped item inside) referred to by two structs; the document calls
    the schema-instance namespace i, not xsi."""
    c = wsdlkit.client(make_wsdl("x:ArrayOfPerson"))
    doc = ('<e:Envelope xmlns:e="%s" xmlns:i="%s" xmlns:xsd="%s" xmlns:soapenc="%s" xmlns:x="%s"><e:Body>'
           '<m:fResponse xmlns:m="%s"><return i:type="soapenc:Array" soapenc:arrayType="x:Person[2]">'
           '<item i:type="x:Person"><name i:type="xsd:string">A</name><age i:type="xsd:int">1</age><tags href="#t"/></item>'
           '<item i:type="x:Person"><name i:type="xsd:string">B</name><age i:type="xsd:int">2</age><tags href="#t"/></item>'
           '</return></m:fResponse><multiRef id="t" soapenc:root="0" i:type="soapenc:Array" '
           'soapenc:arrayType="xsd:string[1]"><item>x y</item></multiRef></e:Body></e:Envelope>'
           % (xmlread.ENV11, XSI, XSD, ENC, TNS, TNS)).encode()
    try:
        r = canon(c.service.f("x", __inject={"reply": doc}))
        tags = [dict((k, v) for k, v in p["@Person"]).get("tags") for p in r]
        return tags != [["x y"], ["x y"]]
    except Exception:
        return True


def witness(ctx, k):
    import random
    if k["witness"].get("kind") == "conflicting-prefixes":
        return conflicting_prefixes()
    if k["witness"].get("kind") == "shared-with-children":
        return shared_with_children()
    rng = random.Random(1)
    v = ("struct", "Person", [("name", ("str", "Ann")), ("age", ("int", 3))])
    c = wsdlkit.client(make_wsdl("x:Person"))
    base = canon(c.service.f("x", __inject={"reply": Writer(rng, 0, False, "num", "after", True).envelope(v)}))
    w = Writer(rng, 1.0, False, "num", "before", False)
    try:
        got = canon(c.service.f("x", __inject={"reply": w.envelope(v)}))
    except Exception:
        return True
    return got != base


def replay(ctx, payload):
    f = payload.get("failure") or {}
    m = f.get("input") or {}
    if "doc" in m and "kind" in m:
        c = wsdlkit.client(make_wsdl("x:Person" if m["kind"] == "Person" else "x:ArrayOfPerson"))
        try:
            got = canon(c.service.f("x", __inject={"reply": m["doc"].encode("utf-8")}))
        except Exception as e:
            got = repr(e)
        return {"fails": got != f.get("expected"), "got": got, "expected": f.get("expected")}
    return {"fails": bool(f), "recorded": f}
