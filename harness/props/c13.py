"""C13 - Concurrent calls do not see each other's data."""
import os
import sys
import threading

from harness import common, wsdlkit, xmlread
from harness.props import c18

ID = "C13"
LEAN_MODULES = ["SudsModel.Props.C13"]
RULE = ("two invocations on one client (or a client and its clone) under a controlled scheduler: the first thread is "
        "preempted after its k-th function call/return event inside suds/, the second runs to completion, the first "
        "resumes - k swept over the whole invocation (every k thorough, a uniform sample quick) for document, rpc and "
        "rpc/encoded multiref replies and for clone(); plus random schedules with up to 3 preemptions at line "
        "granularity among 2..4 threads; every call's request bytes and returned value are compared with the "
        "sequential run; non-trivial = every schedule with a preemption strictly inside the invocation; distinct = "
        "distinct (scenario, schedule)"
        " ; plus: every clone's own message history, a clone over a caller-written Transport (D41), line-level sweeps inside the generated shared-state writers followed by a third call, identical never-seen replies, two different operations in flight with a header Element configured"
        ' ; a port mixing a document/literal and an rpc/literal operation, both in flight'
        ' ; header entries added by a marshalled plugin stay with their own request (sequential, two in flight, clone)'
        ' ; encoded string arrays next to string replies (one generated class name, two kinds of object)'
        ' ; an endpoint set on a clone stays with the clone'
        ' ; multi-part replies in flight'
        ' ; first calls of a fresh client in flight; a clone over a transport with a back-referencing helper')
ASSUMPTIONS = ["preemption points are Python trace events (function call/return, line); switches inside C code "
               "(expat callbacks aside) are not exercised",
               "the scheduler serialises the threads itself, so GIL switch timing is not what is being sampled"]
PARTIAL = [{"theorem": "noninterference", "missing": "a theorem about the step model; atomicity of Python operations "
            "and C extensions is runtime, covered only by the schedules actually run"}]
TRUSTED = ["CPython threading / sys.settrace"]

SUDS_DIR = None


class Baton:
    """Only the thread holding the baton runs. Threads are numbered 0..n-1."""

    def __init__(self, n):
        self.sems = [threading.Semaphore(0) for _ in range(n)]
        self.done = [False] * n
        self.events = 0
        self.switch_at = {}
        self.errors = []
        self.lock_timeout = 20
        self.watch = ()
        self.watched = []

    def pass_to(self, me, other):
        self.sems[other].release()
        if not self.sems[me].acquire(timeout=self.lock_timeout):
            self.errors.append("thread %d never got the baton back (deadlock between paused threads?)" % me)

    def finish(self, me):
        self.done[me] = True
        for i, d in enumerate(self.done):
            if not d:
                self.sems[i].release()
                return


def make_tracer(baton, me, granularity):
    prefix = SUDS_DIR

    def local(frame, event, arg):
        if event == granularity or (granularity == "call" and event == "return"):
            tick(frame)
        return local

    def tick(frame):
        baton.events += 1
        if baton.watch:
            f, depth = frame, 0
            while f is not None and depth < 8:
                if f.f_code.co_name in baton.watch:
                    baton.watched.append(baton.events)
                    baton.watched_inner[baton.events] = frame.f_code.co_name
                    break
                f, depth = f.f_back, depth + 1
        tgt = baton.switch_at.get(baton.events)
        if tgt is not None and tgt != me and not baton.done[tgt]:
            baton.pass_to(me, tgt)

    def tracer(frame, event, arg):
        if event != "call":
            return None
        if not frame.f_code.co_filename.startswith(prefix):
            return None
        if granularity == "call":
            tick(frame)
        return local
    return tracer


WATCHED = []
WATCHED_INNER = {}


def memo_writers():
    """Function names that write the shared memo cells, from the generated table."""
    import re
    path = os.path.join(common.LEAN_DIR, "SudsModel", "Gen", "Tables.lean")
    m = re.search(r"def sharedMemoWrites[^\n]*:= \[(.*)\]", open(path).read())
    return tuple(sorted(set(x.split(".")[-1] for x in re.findall(r'\("([^"]+)",', m.group(1))))) if m else ()


def run_schedule(fns, switch_at, granularity="call", watch=()):
    """Run fns[i] in thread i; thread 0 starts. switch_at: {global event number: thread to hand the baton to}."""
    n = len(fns)
    baton = Baton(n)
    baton.watch = watch
    baton.watched_inner = {}
    global WATCHED, WATCHED_INNER
    WATCHED = baton.watched
    WATCHED_INNER = baton.watched_inner
    baton.switch_at = dict(switch_at)
    results = [None] * n

    def body(i):
        if i != 0:
            baton.sems[i].acquire()
        sys.settrace(make_tracer(baton, i, granularity))
        try:
            results[i] = ("ok", fns[i]())
        except BaseException as e:
            results[i] = ("exc", "%s: %s" % (type(e).__name__, str(e)[:200]))
        finally:
            sys.settrace(None)
            baton.finish(i)
    threads = [threading.Thread(target=body, args=(i,)) for i in range(n)]
    for t in threads:
        t.start()
    for t in threads:
        t.join(timeout=60)
    if any(t.is_alive() for t in threads):
        baton.errors.append("threads did not finish")
        for s in baton.sems:
            s.release()
    return results, baton.events, baton.errors


# ---------------------------------------------------------------- scenarios

def echo_reply(style):
    """Transport reply function: the reply carries the argument found in the request."""
    import re

    def fn(request):
        m = re.search(rb"<(?:\w+:)?a[^>]*>([^<]*)</", request.message)
        arg = m.group(1).decode() if m else "?"
        if style == "document":
            body = '<fResponse xmlns="%s"><r>echo-%s</r><n>%d</n></fResponse>' % (wsdlkit.TNS, arg, len(arg))
            extra = ""
        elif style == "rpc":
            body = '<m:fResponse xmlns:m="%s"><return>echo-%s</return></m:fResponse>' % (wsdlkit.TNS, arg)
            extra = ""
        else:
            body = ('<m:fResponse xmlns:m="%s"><return href="#id1"/></m:fResponse>'
                    '<multiRef id="id1" soapenc:root="0" xsi:type="x:Person"><name href="#id2"/><age xsi:type="xsd:int">%d</age>'
                    '</multiRef><multiRef id="id2" soapenc:root="0" xsi:type="xsd:string">echo-%s</multiRef>'
                    % (wsdlkit.TNS, len(arg), arg))
        return ('<e:Envelope xmlns:e="%s" xmlns:xsi="%s" xmlns:xsd="%s" xmlns:soapenc="%s" xmlns:x="%s"><e:Body>%s'
                '</e:Body></e:Envelope>' % (xmlread.ENV11, xmlread.XSI, xmlread.XSD, xmlread.ENC, wsdlkit.TNS, body)).encode()
    return fn


def make_client(style):
    if style == "document":
        schema = ('<xsd:element name="f"><xsd:complexType><xsd:sequence><xsd:element name="a" type="xsd:string"/>'
                  '</xsd:sequence></xsd:complexType></xsd:element><xsd:element name="fResponse"><xsd:complexType>'
                  '<xsd:sequence><xsd:element name="r" type="xsd:string"/><xsd:element name="n" type="xsd:int"/></xsd:sequence></xsd:complexType></xsd:element>')
        w = wsdlkit.wsdl_doc(schema, "f", "fResponse")
    elif style == "rpc":
        w = wsdlkit.wsdl_doc("", style="rpc", in_parts=[("a", "type", "xsd:string")], out_parts=[("return", "type", "xsd:string")])
    else:
        w = c18.make_wsdl("x:Person")
    tr = wsdlkit.RecordingTransport(reply=echo_reply(style))
    return wsdlkit.client(w, transport=tr), tr


def call(client, arg):
    def fn():
        r = client.service.f(arg)
        return c18.canon(r)
    return fn


def plain_transport_clone(style):
    """-> None when a client over a plain Transport subclass (no __deepcopy__ of its own) can be cloned and the
    clone's options are its own; else a description of what went wrong."""
    import suds.transport

    class Plain(suds.transport.Transport):
        def __init__(self):
            suds.transport.Transport.__init__(self)
            self.sent = []

        def open(self, request):
            raise suds.transport.TransportError("no documents here", 404)

        def send(self, request):
            self.sent.append(request.message)
            return None

    client, _tr = make_client(style)
    client.set_options(transport=Plain(), timeout=7)
    try:
        c2 = client.clone()
    except RecursionError:
        return "RecursionError"
    except Exception as e:
        return "%s: %s" % (type(e).__name__, str(e)[:120])
    c2.set_options(timeout=3)
    client.set_options(timeout=11)
    got = [client.options.timeout, client.options.transport.options.timeout, c2.options.timeout,
           c2.options.transport.options.timeout, c2.options.transport is client.options.transport]
    if got != [11, 11, 3, 3, False]:
        return "options after clone: %r" % (got,)
    return None


def clone_histories(style):
    """-> None when every clone (clones of clones included) keeps its own message history: last_sent() /
    last_received() of a client are those of ITS last call, None before it made one; else what was seen."""
    client, _tr = make_client(style)
    client.service.f("ORIG")
    a, b = client.clone(), client.clone()
    c = a.clone()
    seen = []
    if [x.last_sent() for x in (a, b, c)] != [None, None, None]:
        seen.append("a clone that sent nothing has a history")
    a.service.f("for-A")
    b.service.f("for-B")
    for name, cl, mark in (("original", client, "ORIG"), ("a", a, "for-A"), ("b", b, "for-B")):
        sent = cl.last_sent()
        text = "" if sent is None else sent.plain()
        if mark not in text or any(m in text for m in ("ORIG", "for-A", "for-B") if m != mark):
            seen.append("%s.last_sent() is not its own last request" % name)
        rcv = cl.last_received()
        if rcv is None or mark not in rcv.plain():
            seen.append("%s.last_received() is not its own last reply" % name)
    if c.last_sent() is not None or c.last_received() is not None:
        seen.append("a clone of a clone that sent nothing shows another client's messages")
    return seen or None


def clone_and_call(client, arg):
    def fn():
        c2 = client.clone()
        c2.set_options(faults=False)
        out = c2.service.f(arg)
        if not (isinstance(out, tuple) and len(out) == 2):
            # faults=False makes every invocation return (status, value): the clone's own option was not used
            return ["clone-option-ignored", c18.canon(out)]
        st, r = out
        same_wsdl = c2.wsdl is client.wsdl
        return [st, c18.canon(r), same_wsdl, c2.options.faults, client.options.faults, c2.messages is not client.messages]
    return fn


def shared_fingerprint(client):
    """Structure of the objects all invocations share (the loaded WSDL), minus the two memo caches."""
    import suds.sudsobject
    seen = {}
    out = []

    def walk(o, path, depth):
        if isinstance(o, (str, bytes, int, float, bool, type(None))):
            return repr(o)[:60]
        if id(o) in seen:
            return "@%d" % seen[id(o)]
        seen[id(o)] = len(seen)
        if depth > 40:
            return "deep"
        if isinstance(o, dict):
            if path.endswith(".resolved_cache"):
                return "memo"
            return {str(k)[:40]: walk(v, path + "[]", depth + 1) for k, v in list(o.items())[:200]}
        if isinstance(o, (list, tuple, set)):
            return [walk(v, path + "[]", depth + 1) for v in list(o)[:300]]
        d = getattr(o, "__dict__", None)
        if d is None:
            return type(o).__name__
        return {"$": type(o).__name__, **{k: walk(v, path + "." + k, depth + 1) for k, v in sorted(d.items())
                                           if k not in ("options", "parent")}}
    return walk(client.wsdl, "wsdl", 0)


def run(ctx):
    global SUDS_DIR
    import suds
    SUDS_DIR = os.path.dirname(os.path.abspath(suds.__file__))
    rng = ctx.rng
    old_switch = sys.getswitchinterval()
    for style in ("document", "rpc", "encoded"):
        client, tr = make_client(style)
        # sequential reference (also warms every lazy import)
        ref = {}
        for arg in ("AAAA", "BB"):
            ref[arg] = call(client, arg)()
        refclone = clone_and_call(client, "BB")()
        ctx.case(("clone-sequential", style), True)
        if refclone[0] != 200 or refclone[3] is not False or refclone[4] is not True or not refclone[2]:
            ctx.fail("a clone's invocation does not run under the clone's own options (or the parent's changed)",
                     {"style": style, "scenario": "clone-sequential"}, refclone,
                     [200, ref["BB"], True, False, True, True])
        # mutable option values are not shared with a clone: an in-place edit on the clone stays there
        import suds.plugin

        class Stamp(suds.plugin.MessagePlugin):
            def marshalled(self, context):
                context.envelope.set("stamp", "clone")

        pclient, ptr = make_client(style)
        pclient.set_options(plugins=[], soapheaders={})
        pclone = pclient.clone()
        try:
            pclone.options.plugins.append(Stamp())
            pclone.options.soapheaders["x"] = "y"
        except Exception as e:
            ctx.notes.append("in-place option edit on a clone raised: %r" % e)
        del ptr.sent[:]
        call(pclient, "AAAA")()
        ctx.case(("clone-mutable-options", style), True)
        leaked = [k for k in ("plugins", "soapheaders") if getattr(pclient.options, k)]
        if leaked or (ptr.sent and b'stamp="clone"' in ptr.sent[-1]["message"]):
            ctx.fail("an in-place change of a mutable option value on a clone shows up on the original client",
                     {"style": style, "scenario": "clone-mutable-options"}, leaked or "request carries the clone's plugin edit",
                     "clone and original hold separate option values")
        # "a clone can always be made": also of a client whose transport is the caller's own Transport subclass
        if plain_transport_clone(style):
            ctx.fail("a clone cannot be made of a client that uses a caller-written Transport subclass (or it shares "
                     "the transport's options with the original)", {"style": style, "scenario": "clone-plain-transport"},
                     plain_transport_clone(style), "a clone with its own options")
        ctx.case(("clone-plain-transport", style), True)
        hist = clone_histories(style)
        ctx.case(("clone-histories", style), True)
        if hist:
            ctx.fail("clones do not each keep their own message history", {"style": style, "scenario": "clone-histories"},
                     hist, "last_sent/last_received per client")
        # shared state: only memo cells may change during invocations
        fp0 = shared_fingerprint(client)
        for _ in range(3):
            call(client, "AAAA")()
            call(client, "BB")()
        fp1 = shared_fingerprint(client)
        ctx.case(("fingerprint", style), True)
        if fp0 != fp1:
            ctx.disagree("shared-write-set", {"style": style}, "shared WSDL objects changed during invocations",
                         "only resolved_cache / Factory.cache may be written (generated table)")
        # how many events does an invocation of A take?
        res, total, errs = run_schedule([call(client, "AAAA"), call(client, "BB")], {})
        npoints = ctx.pick(150, total)
        points = sorted(set(int(1 + i * (total / 2 - 1) / max(1, npoints - 1)) for i in range(npoints))) if npoints < total / 2 \
            else list(range(1, total // 2 + 2))
        scenarios = [("two-calls", lambda: [call(client, "AAAA"), call(client, "BB")], [ref["AAAA"], ref["BB"]]),
                     ("call+clone", lambda: [call(client, "AAAA"), clone_and_call(client, "BB")], [ref["AAAA"], refclone])]
        for sname, mk, expect in scenarios:
            pts = points if sname == "two-calls" else points[::3]
            for k in pts:
                del tr.sent[:]
                res, nev, errs = run_schedule(mk(), {k: 1})
                meta = {"style": style, "scenario": sname, "preempt_after_event": k}
                ctx.case(common.canon(meta), True)
                ctx.dist["schedule:" + style + "/" + sname] += 1
                if errs:
                    ctx.fail("scheduler problem (deadlock between paused threads)", meta, errs, "both calls finish")
                    continue
                got = [r[1] if r and r[0] == "ok" else r for r in res]
                if got != expect:
                    ctx.fail("a call failed or returned another call's data under this interleaving", meta, got, expect)
                sent = sorted(set(s["message"] for s in tr.sent))
                if len(tr.sent) != 2 or not any(b"AAAA" in m for m in sent) or not any(b">BB<" in m for m in sent):
                    ctx.fail("requests sent do not carry each call's own arguments", meta,
                             [m[-120:].decode("utf-8", "replace") for m in sent], "one request per call with its argument")
        # line by line inside the functions that write state shared by all calls (generated table): the second call runs
        # in the middle of every such write, then a third call runs alone and must still be right
        run_schedule([call(client, "AAAA"), call(client, "BB")], {}, granularity="line", watch=memo_writers())
        inside_lines = list(WATCHED)
        ctx.dist["line events inside shared-state writers:" + style] += len(inside_lines)
        lstep = max(1, len(inside_lines) // ctx.pick(100, 100000))
        if "CCC" not in ref:
            ref["CCC"] = call(client, "CCC")()
        for k in inside_lines[::lstep]:
            del tr.sent[:]
            res, nev, errs = run_schedule([call(client, "AAAA"), call(client, "BB")], {k: 1}, granularity="line")
            meta = {"style": style, "scenario": "two-calls/line-in-writer", "preempt_after_line_event": k}
            ctx.case(common.canon(meta), True)
            ctx.dist["schedule:" + style + "/writer-lines"] += 1
            if errs:
                ctx.fail("scheduler problem (deadlock between paused threads)", meta, errs, "both calls finish")
                continue
            got = [r[1] if r and r[0] == "ok" else r for r in res]
            try:
                after = call(client, "CCC")()
            except Exception as e:
                after = "%s: %s" % (type(e).__name__, str(e)[:120])
            if got != [ref["AAAA"], ref["BB"]] or after != ref["CCC"]:
                ctx.fail("a call failed or returned another call's data under this interleaving (or the call made "
                         "after it did)", meta, got + [after], [ref["AAAA"], ref["BB"], ref["CCC"]])
        # two calls that receive byte-identical replies, never seen before (a fresh argument per schedule): each call
        # decodes its own copy of the document
        import json as _json
        for k in points:
            arg = "Q%03d" % (k % 1000)
            want = _json.loads(_json.dumps(ref["AAAA"]).replace("AAAA", arg))
            del tr.sent[:]
            res, nev, errs = run_schedule([call(client, arg), call(client, arg)], {k: 1})
            meta = {"style": style, "scenario": "same-reply-bytes", "preempt_after_event": k, "argument": arg}
            ctx.case(common.canon(meta), True)
            ctx.dist["schedule:" + style + "/same-reply"] += 1
            if errs:
                ctx.fail("scheduler problem (deadlock between paused threads)", meta, errs, "both calls finish")
                continue
            got = [r[1] if r and r[0] == "ok" else r for r in res]
            if got != [want, want]:
                ctx.fail("a call failed or returned damaged data under this interleaving (identical replies)", meta, got,
                         [want, want])
        # cold start: a freshly loaded WSDL per interleaving, so the memo cells are filled *during* the race
        cold, ctr = make_client(style)
        run_schedule([call(cold, "AAAA"), call(cold, "BB")], {}, watch=memo_writers())
        inside = list(WATCHED)     # events at which a memo cell of the shared schema is being filled
        ctx.dist["cold memo-fill events:" + style] += len(inside)
        step = max(1, len(inside) // ctx.pick(80, 100000))
        for k in sorted(set(points[::ctx.pick(3, 1)]) | set(inside[::step])):
            cold, ctr = make_client(style)
            res, nev, errs = run_schedule([call(cold, "AAAA"), call(cold, "BB")], {k: 1})
            meta = {"style": style, "scenario": "cold-two-calls", "preempt_after_event": k}
            ctx.case(common.canon(meta), True)
            ctx.dist["schedule:" + style + "/cold"] += 1
            if errs:
                ctx.fail("scheduler problem (deadlock between paused threads)", meta, errs, "both calls finish")
                continue
            got = [r[1] if r and r[0] == "ok" else r for r in res]
            if got != [ref["AAAA"], ref["BB"]]:
                ctx.fail("a call failed or returned another call's data under this interleaving", meta, got,
                         [ref["AAAA"], ref["BB"]])
        # random multi-preemption schedules at line granularity, 2..4 threads
        for _ in range(ctx.pick(60, 3000)):
            n = rng.randint(2, 4)
            args = ["AAAA", "BB", "CCC", "D"][:n]
            for a in args:
                if a not in ref:
                    ref[a] = call(client, a)()
            switches = {}
            for _s in range(rng.randint(1, 3)):
                switches[rng.randint(1, 4000)] = rng.randrange(n)
            del tr.sent[:]
            res, nev, errs = run_schedule([call(client, a) for a in args], switches, granularity="line")
            meta = {"style": style, "scenario": "random-lines", "threads": n, "switches": sorted(switches.items())}
            ctx.case(common.canon(meta), True)
            ctx.dist["schedule:" + style + "/random"] += 1
            if errs:
                ctx.fail("scheduler problem (deadlock between paused threads)", meta, errs, "all calls finish")
                continue
            got = [r[1] if r and r[0] == "ok" else r for r in res]
            if got != [ref[a] for a in args]:
                ctx.fail("a call failed or returned another call's data under this interleaving", meta, got,
                         [ref[a] for a in args])
    two_operations(ctx)
    multi_part_replies(ctx)
    cold_first_calls(ctx)
    clone_with_helper_transport(ctx)
    mixed_style_port(ctx)
    header_entries_from_plugins(ctx)
    encoded_arrays_next_to_string_replies(ctx)
    clone_location_stays_with_clone(ctx)
    lookup_walk_two_preemptions(ctx)
    sys.setswitchinterval(old_switch)
    ctx.sample({"style": "encoded", "scenario": "two-calls", "preempt_after_event": 1234})
    ctx.sample({"style": "document", "scenario": "random-lines", "threads": 3, "switches": [[17, 1], [230, 2]]})


def lookup_walk_two_preemptions(ctx):
    """Two preemptions around the walk that finds which option set provides an option (Properties.provider, run for
    every option read of every call): thread A is stopped inside a walk, thread B runs up to just after one of its own
    walks, A continues. No call may fail or see the other's state."""
    client, tr = make_client("document")
    want = [call(client, "AAAA")(), call(client, "BB")()]
    run_schedule([call(client, "AAAA"), call(client, "BB")], {}, granularity="line", watch=("provider",))
    # the first thread is stopped while its walk is inside a callee of provider (comparing / following the links to
    # other option sets); every such point is tried in the thorough tier, a spread of them in the quick one
    first = [e for e in WATCHED if WATCHED_INNER.get(e) != "provider"]
    nsched = 0
    for k1 in first[::max(1, len(first) // ctx.pick(14, 400))]:
        run_schedule([call(client, "AAAA"), call(client, "BB")], {k1: 1}, granularity="line", watch=("provider",))
        later = [e for e in WATCHED if e > k1]
        ends = [e + 1 for e in later if e + 1 not in later]            # right after a walk of the second thread
        for k2 in ends[:ctx.pick(60, 400)]:
            res, nev, errs = run_schedule([call(client, "AAAA"), call(client, "BB")], {k1: 1, k2: 0}, granularity="line")
            nsched += 1
            meta = {"scenario": "lookup-walk/two-preemptions", "first": k1, "second": k2}
            ctx.case(common.canon(meta), True)
            got = [r[1] if r and r[0] == "ok" else r for r in res]
            if errs or got != want:
                ctx.fail("a call failed or returned another call's data under this interleaving", meta, errs or got, want)
                return
    ctx.dist["schedule:lookup-walk/two-preemptions"] += nsched


def two_operations(ctx):
    """Two DIFFERENT operations in flight on one client (and on a client and its clone), a caller-made header Element
    configured: every request goes out with the SOAPAction of its own operation, is namespace-well-formed, and the
    headers option is left as it was."""
    from harness.props import c15
    from suds.sax.element import Element
    hdr = Element("Token", ns=("auth", "urn:auth"))
    hdr.setText("ORIG")
    hdr2 = Element("Token", ns=("auth", "urn:auth"))
    hdr2.setText("CLONE")
    tr = wsdlkit.RecordingTransport(reply=None)
    client = wsdlkit.client(c15.wsdl_two_ops("http://h.invalid/two"), transport=tr, soapheaders=hdr)

    def op(c, name):
        return lambda: getattr(c.service, name)()
    for name in "fg":
        op(client, name)()
    res, total, errs = run_schedule([op(client, "f"), op(client, "g")], {})
    pts = sorted(set(int(1 + i * (total / 2 - 1) / 40.0) for i in range(41)))
    for who in ("same-client", "client+clone"):
        for k in pts[::1 if who == "same-client" else 3]:
            other = client if who == "same-client" else client.clone()
            if other is not client:
                other.set_options(soapheaders=hdr2)     # (what the clone's own requests carry is known finding D49)
            del tr.sent[:]
            res, nev, errs = run_schedule([op(client, "f"), op(other, "g")], {k: 1})
            meta = {"scenario": "two-operations/" + who, "preempt_after_event": k}
            ctx.case(common.canon(meta), True)
            ctx.dist["schedule:two-operations"] += 1
            if errs or any(r is None or r[0] != "ok" for r in res):
                ctx.fail("a call failed because another was in progress", meta, [errs, res], "both calls finish")
                continue
            bad = []
            for sent in tr.sent:
                try:
                    root = xmlread.parse(sent["message"])
                    opname = xmlread.find1(root, "Body")["children"][0]["name"][1]
                    toks = [n for n in xmlread.walk(root) if n["name"] == ("urn:auth", "Token")]
                except xmlread.XmlError as e:
                    bad.append("not namespace-well-formed: %s" % e)
                    continue
                act = sent["headers"].get("SOAPAction")
                act = act.decode() if isinstance(act, bytes) else act
                if act != '"urn:act:%s"' % opname:
                    bad.append("request for %s sent with SOAPAction %s" % (opname, act))
                if len(toks) != 1:
                    bad.append("request for %s carries %d configured header elements" % (opname, len(toks)))
                elif opname == "f" and toks[0].get("text") != "ORIG":
                    bad.append("the original client's request carries the header %r" % toks[0].get("text"))
            if len(tr.sent) != 2 or bad or client.options.headers != {}:
                ctx.fail("requests of concurrent calls do not each carry their own headers", meta,
                         bad or [len(tr.sent), client.options.headers], "one request per call, own SOAPAction")


def multi_part_replies(ctx):
    """Two operations whose replies have several parts and share a part name ("value": an int in the one, a string in
    the other), in flight on one client: each reply is decoded by the part types of its own operation."""
    ops = {"a": [("id", "int"), ("value", "int")], "b": [("name", "string"), ("value", "string")]}
    w = ['<?xml version="1.0"?><wsdl:definitions targetNamespace="%s" xmlns:wsdl="http://schemas.xmlsoap.org/wsdl/" '
         'xmlns:w="%s" xmlns:soap="http://schemas.xmlsoap.org/wsdl/soap/" xmlns:xsd="http://www.w3.org/2001/XMLSchema">'
         % (wsdlkit.WNS, wsdlkit.WNS)]
    for o, parts in ops.items():
        w.append('<wsdl:message name="%sIn"><wsdl:part name="x" type="xsd:string"/></wsdl:message><wsdl:message '
                 'name="%sOut">%s</wsdl:message>' % (o, o, "".join('<wsdl:part name="%s" type="xsd:%s"/>' % p for p in parts)))
    w.append('<wsdl:portType name="PT">%s</wsdl:portType>' % "".join(
        '<wsdl:operation name="%s"><wsdl:input message="w:%sIn"/><wsdl:output message="w:%sOut"/></wsdl:operation>'
        % (o, o, o) for o in ops))
    w.append('<wsdl:binding name="B" type="w:PT"><soap:binding style="rpc" transport="http://schemas.xmlsoap.org/soap/http"/>%s'
             '</wsdl:binding>' % "".join(
                 '<wsdl:operation name="%s"><soap:operation soapAction="urn:%s"/><wsdl:input><soap:body use="literal" '
                 'namespace="urn:rpc"/></wsdl:input><wsdl:output><soap:body use="literal" namespace="urn:rpc"/></wsdl:output>'
                 '</wsdl:operation>' % (o, o) for o in ops))
    w.append('<wsdl:service name="S"><wsdl:port name="P" binding="w:B"><soap:address location="http://h.invalid/mp"/>'
             '</wsdl:port></wsdl:service></wsdl:definitions>')

    def reply_for(request):
        o = "a" if b"urn:a" in (request.headers.get("SOAPAction") or b"") else "b"
        first = "<id>1</id>" if o == "a" else "<name>n</name>"
        return ('<e:Envelope xmlns:e="%s"><e:Body><r:%sResponse xmlns:r="urn:rpc">%s<value>007</value></r:%sResponse>'
                '</e:Body></e:Envelope>' % (xmlread.ENV11, o, first, o)).encode()
    tr = wsdlkit.RecordingTransport(reply=reply_for)
    client = wsdlkit.client("".join(w).encode(), transport=tr)

    def op(c, name):
        def fn():
            r = getattr(c.service, name)("x")
            return [[k, type(v).__name__, str(v)] for k, v in r]
        return fn
    want = {"a": [["id", "int", "1"], ["value", "int", "7"]], "b": [["name", "Text", "n"], ["value", "Text", "007"]]}
    seq = {o: op(client, o)() for o in ops}
    ctx.case(("multi-part-replies", "sequential"), True)
    if seq != want:
        ctx.fail("a reply with several parts is not decoded by the part types of its operation",
                 {"scenario": "multi-part-replies/sequential"}, seq, want)
        return
    res, total, errs = run_schedule([op(client, "a"), op(client, "b")], {})
    pts = sorted(set(int(1 + i * (total / 2 - 1) / 60.0) for i in range(61)))
    for who in ("same-client", "client+clone"):
        other = client if who == "same-client" else client.clone()
        for first, second in (("a", "b"), ("b", "a")):
            for k in pts[::1 if who == "same-client" else 3]:
                res, nev, errs = run_schedule([op(client, first), op(other, second)], {k: 1})
                meta = {"scenario": "multi-part-replies/" + who, "order": first + second, "preempt_after_event": k}
                ctx.case(common.canon(meta), True)
                ctx.dist["schedule:multi-part-replies"] += 1
                got = [r[1] if r and r[0] == "ok" else r for r in res]
                if errs or got != [want[first], want[second]]:
                    ctx.fail("a call failed or decoded its reply by another call's part types because that call was in "
                             "progress", meta, [errs, got], [want[first], want[second]])
                    return


def cold_first_calls(ctx):
    """Two threads make the FIRST calls of a freshly built client at the same time (nothing of its schema has been
    walked yet): both get the results the calls give one after the other."""
    schema = ('<xsd:complexType name="Person"><xsd:sequence><xsd:element name="name" type="xsd:string"/><xsd:element '
              'name="age" type="xsd:int"/><xsd:element name="tags" type="xsd:string" minOccurs="0" maxOccurs="unbounded"/>'
              '</xsd:sequence><xsd:attribute name="id" type="xsd:string"/></xsd:complexType>'
              '<xsd:element name="f"><xsd:complexType><xsd:sequence><xsd:element name="p" type="x:Person"/></xsd:sequence>'
              '</xsd:complexType></xsd:element><xsd:element name="fResponse"><xsd:complexType><xsd:sequence>'
              '<xsd:element name="r" type="x:Person"/></xsd:sequence></xsd:complexType></xsd:element>')
    w = wsdlkit.wsdl_doc(schema, "f", "fResponse")

    def reply(request):
        import re
        m = re.search(rb"<(?:\w+:)?name[^>]*>([^<]*)</", request.message)
        n = m.group(1).decode() if m else "?"
        return ('<e:Envelope xmlns:e="%s"><e:Body><fResponse xmlns="%s"><r id="i-%s"><name>echo-%s</name><age>%d</age>'
                '<tags>t</tags></r></fResponse></e:Body></e:Envelope>' % (xmlread.ENV11, wsdlkit.TNS, n, n, len(n))).encode()

    def fresh():
        return wsdlkit.client(w, transport=wsdlkit.RecordingTransport(reply=reply))

    def op(c, n):
        def fn():
            r = c.service.f({"name": n, "age": len(n), "tags": ["a", "b"], "_id": "x"})
            return [str(r.name), r.age, [str(t) for t in r.tags], str(r._id)]
        return fn
    want = {n: ["echo-" + n, len(n), ["t"], "i-" + n] for n in ("AAAA", "BB")}
    c0 = fresh()
    seq = {n: op(c0, n)() for n in ("AAAA", "BB")}
    ctx.case(("cold-first-calls", "sequential"), True)
    if seq != want:
        ctx.fail("a call failed because another was in progress", {"scenario": "cold-first-calls/sequential"}, seq, want)
        return
    c1 = fresh()
    res, total, errs = run_schedule([op(c1, "AAAA"), op(c1, "BB")], {})
    n_pts = ctx.pick(60, 600)
    pts = sorted(set(int(1 + i * (total / 2 - 1) / float(n_pts)) for i in range(n_pts + 1)))
    for k in pts:
        c = fresh()
        res, nev, errs = run_schedule([op(c, "AAAA"), op(c, "BB")], {k: 1})
        meta = {"scenario": "cold-first-calls", "preempt_after_event": k}
        ctx.case(common.canon(meta), True)
        ctx.dist["schedule:cold-first-calls"] += 1
        got = [r[1] if r and r[0] == "ok" else r for r in res]
        if errs or got != [want["AAAA"], want["BB"]]:
            ctx.fail("a call failed because another was in progress", meta, [errs, got], [want["AAAA"], want["BB"]])
            return


def clone_with_helper_transport(ctx):
    """A caller-written transport that keeps a helper object pointing back at it: the clone's transport is ONE
    consistent copy (its helper points at the copy), so a transport option set on the clone is what the clone's
    requests are sent under."""
    import suds.transport

    class Helper:
        def __init__(self, owner):
            self.owner = owner

        def credentials(self):
            return [self.owner.options.username, self.owner.options.password, self.owner.options.timeout]

    class Mine(suds.transport.Transport):
        def __init__(self):
            suds.transport.Transport.__init__(self)
            self.helper = Helper(self)
            self.sent = []

        def open(self, request):
            raise suds.transport.TransportError("no documents here", 404)

        def send(self, request):
            self.sent.append(self.helper.credentials())
            return suds.transport.Reply(200, {}, echo_reply("document")(request))
    client, _tr = make_client("document")
    client.set_options(transport=Mine())
    client.set_options(username="orig", password="po", timeout=11)
    ctx.case(("clone-helper-transport",), True)
    try:
        k = client.clone()
        k.set_options(username="clone", password="pc", timeout=22)
        k.service.f("x")
        client.service.f("y")
        kt, ct = k.options.transport, client.options.transport
        got = [kt.sent, ct.sent, kt.helper.owner is kt, ct.helper.owner is ct, kt is not ct]
    except Exception as e:
        got = "%s: %s" % (type(e).__name__, e)
    want = [[["clone", "pc", 22]], [["orig", "po", 11]], True, True, True]
    if got != want:
        ctx.fail("a clone's invocation does not run under the clone's own options (or the parent's changed)",
                 {"scenario": "clone-helper-transport"}, got, want)


def header_entries_from_plugins(ctx):
    """No header configured, a plugin adds an entry to the <Header/> of every request it sees (a message id): each
    request carries exactly the entry added for it - one after another, two in flight, on a client and its clone."""
    import itertools
    import suds.plugin
    from harness.props import c15
    from suds.sax.element import Element
    counter = itertools.count(1)

    class AddId(suds.plugin.MessagePlugin):
        def marshalled(self, context):
            hdr = context.envelope.getChild("Header")
            e = Element("MessageID", ns=("wsa", "urn:wsa"))
            e.setText("id-%d" % next(counter))
            hdr.append(e)
    tr = wsdlkit.RecordingTransport(reply=None)
    client = wsdlkit.client(c15.wsdl_two_ops("http://h.invalid/ids"), transport=tr, plugins=[AddId()])
    other = client.clone()

    def ids_of(sent):
        out = []
        for s_ in sent:
            try:
                root = xmlread.parse(s_["message"])
            except xmlread.XmlError as e:
                out.append(["not namespace-well-formed: %s" % e] * 2)
                continue
            out.append([n.get("text") for n in xmlread.walk(root) if n["name"] == ("urn:wsa", "MessageID")])
        return out
    for who, c2 in (("same-client", client), ("client+clone", other)):
        del tr.sent[:]
        for c_ in (client, c2, client):
            c_.service.f()
        meta = {"scenario": "plugin-header-entries/sequential/" + who}
        ctx.case(common.canon(meta), True)
        got = ids_of(tr.sent)
        if [len(x) for x in got] != [1, 1, 1] or len({x[0] for x in got if x}) != 3:
            ctx.fail("a request carries header entries that were added for another request", meta, got,
                     "one MessageID per request, each its own")
        calls = [lambda: client.service.f(), lambda c2=c2: c2.service.g()]
        res, total, errs = run_schedule(calls, {})
        for k in sorted(set(int(1 + i * (total / 2 - 1) / 10.0) for i in range(11))):
            del tr.sent[:]
            res, nev, errs = run_schedule(calls, {k: 1})
            meta = {"scenario": "plugin-header-entries/" + who, "preempt_after_event": k}
            ctx.case(common.canon(meta), True)
            ctx.dist["schedule:plugin-header-entries"] += 1
            if errs or any(r is None or r[0] != "ok" for r in res):
                ctx.fail("a call failed because another was in progress", meta, [errs, res], "both calls finish")
                continue
            got = ids_of(tr.sent)
            if [len(x) for x in got] != [1, 1] or got[0] == got[1]:
                ctx.fail("a request carries header entries that were added for another request", meta, got,
                         "one MessageID per request, each its own")


def encoded_arrays_next_to_string_replies(ctx):
    """Two kinds of call that make suds name a generated class 'string' - decoding a reply that holds an xsd:string
    value, and sending an rpc/encoded array of xsd:string given as a plain list - do not disturb one another, one
    after the other in either order or both in flight."""
    from harness.props import c09
    arr = ('<xsd:import namespace="http://schemas.xmlsoap.org/soap/encoding/"/><xsd:complexType name="Strings">'
           '<xsd:complexContent><xsd:restriction base="soapenc:Array"><xsd:attribute ref="soapenc:arrayType" '
           'wsdl:arrayType="xsd:string[]"/></xsd:restriction></xsd:complexContent></xsd:complexType>')
    w_enc = wsdlkit.wsdl_doc(arr, style="rpc", use="encoded", in_parts=[("a", "type", "x:Strings")])
    tr = wsdlkit.RecordingTransport(reply=None)
    enc = wsdlkit.client(w_enc, transport=tr)
    doc = wsdlkit.client(c09.make_wsdl("wrapped"))
    reply = c09.body_bytes("normal", "wrapped")

    def call_enc():
        enc.service.f(["x", "y"])
        return "sent"

    def call_doc():
        return str(doc.service.f("q", __inject={"reply": reply}))
    for order in ((call_enc, call_doc, call_enc), (call_doc, call_enc, call_doc)):
        meta = {"scenario": "encoded-array+string-reply/sequential", "first": order[0].__name__}
        ctx.case(common.canon(meta), True)
        try:
            got = [fn() for fn in order]
        except Exception as e:
            got = "%s: %s" % (type(e).__name__, e)
        want = [{"call_enc": "sent", "call_doc": "hello"}[fn.__name__] for fn in order]
        if got != want:
            ctx.fail("a call failed or changed because of another call made in the same process", meta, got, want)
    res, total, errs = run_schedule([call_enc, call_doc], {})
    for k in sorted(set(int(1 + i * (total / 2 - 1) / 8.0) for i in range(9))):
        res, nev, errs = run_schedule([call_enc, call_doc], {k: 1})
        meta = {"scenario": "encoded-array+string-reply", "preempt_after_event": k}
        ctx.case(common.canon(meta), True)
        ctx.dist["schedule:encoded-array+string-reply"] += 1
        if errs or [r if r is None else r[0] for r in res] != ["ok", "ok"]:
            ctx.fail("a call failed because another was in progress", meta, [errs, res], "both calls finish")


def clone_location_stays_with_clone(ctx):
    """An endpoint set on a clone is the clone's: calls through the original go to the declared endpoint before,
    between and after calls through the clone - one after another and with both in flight."""
    from harness.props import c15
    tr = wsdlkit.RecordingTransport(reply=None)
    client = wsdlkit.client(c15.wsdl_two_ops("http://h.invalid/declared"), transport=tr)
    clone = client.clone()
    clone.set_options(location="http://clone.invalid/elsewhere")
    ctx.case(("clone-location", "sequential"), True)
    del tr.sent[:]
    for c_ in (client, clone, client, clone, client):
        c_.service.f()
    urls = [s_["url"] for s_ in tr.sent]
    want = ["http://h.invalid/declared", "http://clone.invalid/elsewhere"] * 2 + ["http://h.invalid/declared"]
    if urls != want:
        ctx.fail("a call through the original went to the endpoint set on its clone (or the other way round)",
                 {"scenario": "clone-location/sequential"}, urls, want)
    calls = [lambda: client.service.f(), lambda: clone.service.g()]
    res, total, errs = run_schedule(calls, {})
    for k in sorted(set(int(1 + i * (total / 2 - 1) / 8.0) for i in range(9))):
        del tr.sent[:]
        res, nev, errs = run_schedule(calls, {k: 1})
        meta = {"scenario": "clone-location", "preempt_after_event": k}
        ctx.case(common.canon(meta), True)
        ctx.dist["schedule:clone-location"] += 1
        got = sorted([s_["url"], s_["headers"].get("SOAPAction") if not isinstance(s_["headers"].get("SOAPAction"), bytes)
                      else s_["headers"].get("SOAPAction").decode()] for s_ in tr.sent)
        want = sorted([["http://h.invalid/declared", '"urn:act:f"'], ["http://clone.invalid/elsewhere", '"urn:act:g"']])
        if errs or got != want:
            ctx.fail("a call through the original went to the endpoint set on its clone (or the other way round)", meta,
                     [errs, got], want)


def mixed_style_wsdl():
    W, T = wsdlkit.WNS, wsdlkit.TNS
    return ('<?xml version="1.0"?><wsdl:definitions targetNamespace="%(W)s" xmlns:wsdl="http://schemas.xmlsoap.org/wsdl/" '
            'xmlns:w="%(W)s" xmlns:x="%(T)s" xmlns:soap="http://schemas.xmlsoap.org/wsdl/soap/" '
            'xmlns:xsd="http://www.w3.org/2001/XMLSchema"><wsdl:types><xsd:schema targetNamespace="%(T)s" '
            'elementFormDefault="qualified"><xsd:element name="f"><xsd:complexType><xsd:sequence><xsd:element name="v" '
            'type="xsd:string"/></xsd:sequence></xsd:complexType></xsd:element></xsd:schema></wsdl:types>'
            '<wsdl:message name="fIn"><wsdl:part name="p" element="x:f"/></wsdl:message>'
            '<wsdl:message name="gIn"><wsdl:part name="a" type="xsd:string"/></wsdl:message>'
            '<wsdl:portType name="PT"><wsdl:operation name="f"><wsdl:input message="w:fIn"/></wsdl:operation>'
            '<wsdl:operation name="g"><wsdl:input message="w:gIn"/></wsdl:operation></wsdl:portType>'
            '<wsdl:binding name="B" type="w:PT"><soap:binding style="document" '
            'transport="http://schemas.xmlsoap.org/soap/http"/>'
            '<wsdl:operation name="f"><soap:operation soapAction="urn:act:f"/><wsdl:input><soap:body use="literal"/>'
            '</wsdl:input></wsdl:operation>'
            '<wsdl:operation name="g"><soap:operation soapAction="urn:act:g" style="rpc"/><wsdl:input>'
            '<soap:body use="literal" namespace="urn:rpcns"/></wsdl:input></wsdl:operation></wsdl:binding>'
            '<wsdl:service name="S"><wsdl:port name="P" binding="w:B"><soap:address location="http://h.invalid/mixed"/>'
            '</wsdl:port></wsdl:service></wsdl:definitions>' % {"W": W, "T": T}).encode()


def mixed_style_port(ctx):
    """One port holding a document/literal and an rpc/literal operation, both in flight: each request is built by the
    binding of its own operation (the element of the document operation; the operation wrapper in the soap:body
    namespace with the unqualified part for the rpc one)."""
    tr = wsdlkit.RecordingTransport(reply=None)
    client = wsdlkit.client(mixed_style_wsdl(), transport=tr)
    calls = [lambda: client.service.f("fv"), lambda: client.service.g("gv")]
    for c in calls:
        c()
    res, total, errs = run_schedule(calls, {})
    want = {"f": [[wsdlkit.TNS, "f"], [[[wsdlkit.TNS, "v"], "fv"]]], "g": [["urn:rpcns", "g"], [[[None, "a"], "gv"]]]}
    for k in [None] + sorted(set(int(1 + i * (total / 2 - 1) / 12.0) for i in range(13))):
        del tr.sent[:]
        res, nev, errs = run_schedule(calls, {} if k is None else {k: 1})
        meta = {"scenario": "mixed-style-port", "preempt_after_event": k}
        ctx.case(common.canon(meta), True)
        ctx.dist["schedule:mixed-style-port"] += 1
        if errs or any(r is None or r[0] != "ok" for r in res):
            ctx.fail("a call failed because another was in progress", meta, [errs, res], "both calls finish")
            continue
        got = {}
        for sent in tr.sent:
            try:
                b = xmlread.find1(xmlread.parse(sent["message"]), "Body")["children"][0]
                got[b["name"][1]] = [list(b["name"]), [[list(c["name"]), c.get("text")] for c in b["children"]]]
            except Exception as e:
                got["unreadable"] = repr(e)
        if got != want:
            ctx.fail("requests of concurrent calls are not each built by their own operation's binding", meta, got, want)


def witness(ctx, k):
    """D41 (fixed): Client.clone() over a caller-written Transport subclass."""
    w = k.get("witness") or {}
    if w.get("kind") == "clone-plain-transport":
        return plain_transport_clone("document") is not None
    return None


def widen(ctx):
    ctx.tier = "thorough"
    run(ctx)


def replay(ctx, payload):
    global SUDS_DIR
    import suds
    SUDS_DIR = os.path.dirname(os.path.abspath(suds.__file__))
    f = payload.get("failure") or {}
    m = f.get("input") or {}
    if "preempt_after_event" in m:
        client, tr = make_client(m["style"])
        ref = [call(client, "AAAA")(), call(client, "BB")()]
        if m["scenario"] == "call+clone":
            ref[1] = clone_and_call(client, "BB")()
            fns = [call(client, "AAAA"), clone_and_call(client, "BB")]
        elif m["scenario"] == "cold-two-calls":
            cold, _tr = make_client(m["style"])
            fns = [call(cold, "AAAA"), call(cold, "BB")]
        else:
            fns = [call(client, "AAAA"), call(client, "BB")]
        res, nev, errs = run_schedule(fns, {m["preempt_after_event"]: 1})
        got = [r[1] if r and r[0] == "ok" else r for r in res]
        return {"fails": got != ref or bool(errs), "got": got, "expected": ref, "errors": errs}
    return {"fails": bool(f), "recorded": f}
