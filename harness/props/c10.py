"""C10 - Service, port and method selection is deterministic and matches the WSDL."""
import itertools

from harness import common, wsdlkit, xmlread

ID = "C10"
LEAN_MODULES = ["SudsModel.Props.C10"]
RULE = ("WSDLs with 0..3 services x 0..3 ports over two SOAP bindings (document: f,g / rpc: g,h) and a non-SOAP "
        "binding interleaved x selector expressions of depth <= 3 over {present names, absent name, indexes -7..3 (negative ones in and out of range), "
        "method names} x service/port options {none, name, index, absent} ; small shapes systematically, the rest "
        "sampled; every selected method is invoked against a recording transport; non-trivial = more than one "
        "service or port, an option set, or an error outcome; distinct = distinct (wsdl, options, expression)"
        ' ; plus: a SOAP 1.2 binding with a per-operation style, clients reused with changed service/port options, per-direction binding kinds (input and output soap:body with different use=)'
        ' ; services binding their own prefix for binding references; the unsupported style/use pair'
        ' ; operation names with leading underscores'
        ' ; a port without an address')
ASSUMPTIONS = ["Python negative indexes select from the end (modelled; the documented rules speak of indexes >= 0)"]
PARTIAL = [{"theorem": "location_override_local", "missing": "proved through the options model (C14); checked here on real clients"}]
TRUSTED = []

TNS = wsdlkit.TNS
# "k" has no <soap:operation> child: empty SOAPAction, the binding's style
# "B3" is a SOAP 1.2 binding (wsdl/soap12 namespace) whose operation "h" overrides the binding's style
BINDINGS = {"B1": ("document", ["f", "g", "k"]), "B2": ("rpc", ["g", "h"]), "BH": (None, ["f"]),
            "B3": ("document", ["f", "h", "k"])}
SOAP12 = {"B3"}
OPSTYLE = {("B3", "h"): "rpc"}


def op_style(b, m):
    return OPSTYLE.get((b, m), BINDINGS[b][0])


def make_wsdl(services):
    """services: [(name, [(portname, bindingkey)])]"""
    w = ['<?xml version="1.0"?><wsdl:definitions targetNamespace="%s" xmlns:wsdl="http://schemas.xmlsoap.org/wsdl/" '
         'xmlns:w="%s" xmlns:x="%s" xmlns:sb="urn:verif:not-the-bindings" xmlns:soap="http://schemas.xmlsoap.org/wsdl/soap/" '
         'xmlns:soap12="http://schemas.xmlsoap.org/wsdl/soap12/" '
         'xmlns:http="http://schemas.xmlsoap.org/wsdl/http/" xmlns:xsd="http://www.w3.org/2001/XMLSchema">'
         % (wsdlkit.WNS, wsdlkit.WNS, TNS)]
    w.append('<wsdl:types><xsd:schema targetNamespace="%s" elementFormDefault="qualified">' % TNS)
    for m in ("f", "g", "h", "k"):
        w.append('<xsd:element name="%s"><xsd:complexType><xsd:sequence><xsd:element name="a" type="xsd:string" '
                 'minOccurs="0"/></xsd:sequence></xsd:complexType></xsd:element>' % m)
    w.append('</xsd:schema></wsdl:types>')
    for m in ("f", "g", "h", "k"):
        w.append('<wsdl:message name="%sDoc"><wsdl:part name="p" element="x:%s"/></wsdl:message>' % (m, m))
        w.append('<wsdl:message name="%sRpc"><wsdl:part name="a" type="xsd:string"/></wsdl:message>' % m)
    for b, (style, ops) in BINDINGS.items():
        w.append('<wsdl:portType name="PT%s">' % b)
        for m in ops:
            w.append('<wsdl:operation name="%s"><wsdl:input message="w:%s%s"/></wsdl:operation>'
                     % (m, m, "Rpc" if op_style(b, m) == "rpc" else "Doc"))
        w.append('</wsdl:portType>')
        w.append('<wsdl:binding name="%s" type="w:PT%s">' % (b, b))
        sp = "soap12" if b in SOAP12 else "soap"
        if style is None:
            w.append('<http:binding verb="GET"/>')
        else:
            w.append('<%s:binding style="%s" transport="http://schemas.xmlsoap.org/soap/http"/>' % (sp, style))
        for m in ops:
            w.append('<wsdl:operation name="%s">' % m)
            if style is not None:
                if m != "k":
                    w.append('<%s:operation soapAction="urn:act:%s:%s" style="%s"/>' % (sp, b, m, op_style(b, m)))
                ns = ' namespace="urn:rpcns"' if op_style(b, m) == "rpc" else ""
                w.append('<wsdl:input><%s:body use="literal"%s/></wsdl:input>' % (sp, ns))
            else:
                w.append('<http:operation location="/%s"/><wsdl:input/>' % m)
            w.append('</wsdl:operation>')
        w.append('</wsdl:binding>')
    for si, (sname, ports) in enumerate(services):
        # (every second service names its bindings through a prefix it binds itself - one the root binds to something else)
        own = si % 2 == 1
        w.append('<wsdl:service name="%s"%s>' % (sname, ' xmlns:sb="%s"' % wsdlkit.WNS if own else ""))
        for pname, b in ports:
            if BINDINGS[b][0] is None:
                addr = '<http:address location="http://h.invalid/%s/%s"/>' % (sname, pname)
            else:
                addr = '<%s:address location="http://h.invalid/%s/%s"/>' % ("soap12" if b in SOAP12 else "soap", sname, pname)
            w.append('<wsdl:port name="%s" binding="%s:%s">%s</wsdl:port>' % (pname, "sb" if own else "w", b, addr))
        w.append('</wsdl:service>')
    w.append('</wsdl:definitions>')
    return "".join(w).encode()


def model_services(services):
    out = []
    for sname, ports in services:
        out.append({"name": sname, "ports": [{"name": pn, "methods": BINDINGS[b][1]} for pn, b in ports
                                              if BINDINGS[b][0] is not None]})
    return out


def soap_ports(services, s):
    return [(pn, b) for pn, b in services[s][1] if BINDINGS[b][0] is not None]


def real_eval(client, tr, steps):
    import suds
    from suds.client import Method
    v = client.service
    try:
        for st in steps:
            if "attr" in st:
                v = getattr(v, st["attr"])
            else:
                v = v[st["item"]]
        if isinstance(v, Method):
            n0 = len(tr.sent)
            v("x")
            if len(tr.sent) != n0 + 1:
                return {"err": "nothing-sent"}
            s = tr.sent[-1]
            root = xmlread.parse(s["message"])
            body = xmlread.find1(root, "Body")
            first = body["children"][0]
            act = s["headers"].get("SOAPAction")
            if isinstance(act, bytes):
                act = act.decode()
            return {"sent": {"url": s["url"], "action": act, "wrapper": list(first["name"])}}
        return {"sel": type(v).__name__}
    except suds.ServiceNotFound:
        return {"err": "ServiceNotFound"}
    except suds.PortNotFound:
        return {"err": "PortNotFound"}
    except suds.MethodNotFound:
        return {"err": "MethodNotFound"}
    except (TypeError, AttributeError):
        return {"err": "badStep"}
    except Exception as e:
        m = str(e)
        if type(e) is Exception and m == "No services defined":
            return {"err": "noServices"}
        if type(e) is Exception and m.startswith("No ports defined"):
            return {"err": "noPorts"}
        return {"err": "other:%s:%s" % (type(e).__name__, m[:60])}


def expected_from_model(services, ans, location=None):
    if ans is None:
        return None
    if "err" in ans:
        return {"err": ans["err"]}
    if "sel" in ans:
        return {"sel": {"svc": "ServiceSelector", "port": "PortSelector", "meth": "MethodSelector"}[ans["sel"][0]]}
    s, p, m = ans["method"]
    pn, b = soap_ports(services, s)[p]
    style = op_style(b, m)
    url = location or "http://h.invalid/%s/%s" % (services[s][0], pn)
    wrapper = ["urn:rpcns", m] if style == "rpc" else [TNS, m]
    action = '""' if m == "k" else '"urn:act:%s:%s"' % (b, m)
    return {"sent": {"url": url, "action": action, "wrapper": wrapper}}


def shapes(ctx):
    rng = ctx.rng
    out = [[], [("S1", [])], [("S1", [("P1", "B1")])], [("S1", [("P1", "BH")])],
           [("S1", [("P1", "BH"), ("P2", "B2")])], [("S1", [("P1", "B1"), ("P2", "B2")])],
           [("S1", [("P1", "B1")]), ("S2", [("P1", "B2")])],
           [("S1", [("P1", "B1"), ("P2", "BH"), ("P3", "B2")]), ("S2", []), ("S3", [("Q", "B2"), ("P1", "B1")])],
           [("S1", [("P1", "BH")]), ("S2", [("P2", "B1"), ("P1", "B2")])],
           [("S1", [("P1", "B3")])], [("S1", [("P1", "B1"), ("P2", "B3")]), ("S2", [("P1", "B3"), ("P2", "B2")])]]
    for _ in range(ctx.pick(25, 400)):
        n = rng.randint(0, 3)
        svcs = []
        for i in range(n):
            k = rng.randint(0, 3)
            names = rng.sample(["P1", "P2", "P3", "Q"], k)
            svcs.append(("S%d" % (i + 1), [(pn, rng.choice(["B1", "B2", "BH", "B3"])) for pn in names]))
        out.append(svcs)
    return out


KEYS = ["S1", "S2", "S3", "P1", "P2", "P3", "Q", "zz", -1, 0, 1, 2, 3, -2, -4, -7]
METHODS = ["f", "g", "h", "k", "zz"]


def expressions(rng, n):
    steps_pool = [{"attr": m} for m in METHODS] + [{"item": k} for k in KEYS] + [{"item": m} for m in ("f", "g")]
    exprs = []
    for d in (1, 2):
        for t in itertools.product(steps_pool, repeat=d):
            exprs.append(list(t))
    for _ in range(n):
        exprs.append([rng.choice(steps_pool) for _ in range(3)])
    return exprs


def run(ctx):
    import suds
    rng = ctx.rng
    opt_vals_s = [None, "S1", "S2", 0, 1, "zz", 5, -1, -6]
    opt_vals_p = [None, "P1", "P2", 0, 1, "zz", 5, -1, -6]
    reqs, reals, metas = [], [], []
    per_shape = ctx.pick(1000, 5000)
    for services in shapes(ctx):
        w = make_wsdl(services)
        msvcs = model_services(services)
        all_exprs = expressions(rng, 300)
        live = live_tr = None
        for _ in range(ctx.pick(8, 16)):
            so, po = rng.choice(opt_vals_s), rng.choice(opt_vals_p)
            if rng.random() < 0.35:
                so, po = None, None
            kw = {}
            if so is not None:
                kw["service"] = so
            if po is not None:
                kw["port"] = po
            if live is not None and rng.random() < 0.5:
                # the same client, already used, with its options changed: the new settings decide
                c, tr = live, live_tr
                prior = live_opts
                c.set_options(service=so, port=po)
                ctx.dist["client=reused-with-changed-options"] += 1
            else:
                tr = wsdlkit.RecordingTransport(reply=None)
                if rng.random() < 0.4:
                    kw = dict(kw, headers={"X-K": "v"})     # a caller header: every request still names its own action
                try:
                    c = wsdlkit.client(w, transport=tr, **kw)
                except Exception as e:
                    ctx.fail("client construction failed", {"services": services, "opts": kw}, repr(e), "a client")
                    continue
                live, live_tr = c, tr
                prior = None
                ctx.dist["client=fresh"] += 1
            live_opts = [so, po]
            for steps in rng.sample(all_exprs, min(len(all_exprs), per_shape // 5)):
                real = real_eval(c, tr, steps)
                if c.options.headers not in ({}, {"X-K": "v"}):
                    ctx.fail("invoking a method changed the caller's headers option", {"services": services, "steps": steps},
                             repr(c.options.headers), "{} or {'X-K': 'v'}")
                    c.set_options(headers={"X-K": "v"})
                reqs.append({"op": "select.eval", "services": msvcs, "opts": {"service": so, "port": po},
                             "steps": steps})
                reals.append(real)
                metas.append((services, so, po, steps, prior))
    answers = ctx.driver.ask(reqs)
    for (services, so, po, steps, prior), real, ans in zip(metas, reals, answers):
        inp = {"services": services, "service_opt": so, "port_opt": po, "steps": steps}
        if prior is not None:
            inp["client_used_before_with_opts"] = prior
        nontrivial = len(services) > 1 or so is not None or po is not None or "err" in real or \
            any(len(p) > 1 for _n, p in services)
        ctx.case(common.digest(inp), nontrivial)
        ctx.dist["outcome=" + (real.get("err") or ("sent" if "sent" in real else "selector"))] += 1
        exp = expected_from_model(services, ans)
        if exp is None:
            continue
        ctx.compare("selectors", inp, real, exp)
        if real != exp:
            ctx.fail("selection differs from the documented rules", inp, real, exp)
    # location override: only for the client it is set on (and its clones keep it, the original does not get it)
    services = [("S1", [("P1", "B1"), ("P2", "B2")]), ("S2", [("P1", "B2")])]
    w = make_wsdl(services)
    for steps in ([{"attr": "f"}], [{"item": "S2"}, {"attr": "h"}], [{"item": 0}, {"item": "P2"}, {"attr": "g"}]):
        tr1, tr2 = wsdlkit.RecordingTransport(), wsdlkit.RecordingTransport()
        c1 = wsdlkit.client(w, transport=tr1)
        c2 = wsdlkit.client(w, transport=tr2, location="http://override.invalid/x")
        r1, r2 = real_eval(c1, tr1, steps), real_eval(c2, tr2, steps)
        ctx.case(("loc", common.canon(steps)), True)
        if r2.get("sent", {}).get("url") != "http://override.invalid/x":
            ctx.fail("location option not used", {"steps": steps}, r2, "http://override.invalid/x")
        if "override" in r1.get("sent", {}).get("url", ""):
            ctx.fail("location option leaked to another client", {"steps": steps}, r1, "declared endpoint")
        c1.set_options(location="http://second.invalid/y")
        r1b = real_eval(c1, tr1, steps)
        r2b = real_eval(c2, tr2, steps)
        if r1b.get("sent", {}).get("url") != "http://second.invalid/y" or \
                r2b.get("sent", {}).get("url") != "http://override.invalid/x":
            ctx.fail("location option not local to its client", {"steps": steps}, [r1b, r2b], "each its own")
        # the override does not outlive its option: clearing it, or a clone made before it was set, use the endpoint
        tr3 = wsdlkit.RecordingTransport()
        c3 = wsdlkit.client(w, transport=tr3)
        c3clone = c3.clone()
        c3.set_options(location="http://third.invalid/z")
        r3a = real_eval(c3, tr3, steps)
        r3c = real_eval(c3clone, c3clone.options.transport, steps)
        c3.set_options(location=None)
        r3b = real_eval(c3, tr3, steps)
        declared = r1.get("sent", {}).get("url")
        ctx.case(("loc-sticky", common.canon(steps)), True)
        if r3a.get("sent", {}).get("url") != "http://third.invalid/z" or "third" in str(r3c.get("sent", {}).get("url")) \
                or "third" in str(r3b.get("sent", {}).get("url")):
            ctx.fail("a location override outlives its option (clone / after clearing it)", {"steps": steps},
                     [r3a.get("sent", {}).get("url"), r3c.get("sent", {}).get("url"), r3b.get("sent", {}).get("url")],
                     ["http://third.invalid/z", "declared endpoint", "declared endpoint"])
        if "sent" not in r1 or "sent" not in r2:
            ctx.fail("a selector expression over declared names does not reach a method that sends", {"steps": steps},
                     [r1, r2], "a request")
            continue
        r1["sent"]["url"] = r2["sent"]["url"] = None
        if r1 != r2:
            ctx.fail("location override changed more than the URL", {"steps": steps}, r2, r1)
    binding_kinds(ctx)
    ctx.sample({"services": metas[-1][0], "service_opt": metas[-1][1], "port_opt": metas[-1][2], "steps": metas[-1][3]})
    ctx.sample({"services": metas[0][0], "steps": metas[0][3]})


def underscore_names(ctx):
    """An operation is selected by its name whatever the name looks like - a leading underscore, dunder shape, a Python
    keyword - by attribute access and by subscript alike, at every selector level; and a name the port does not have
    raises MethodNotFound also when it starts with an underscore."""
    import suds
    schema = '<xsd:element name="f"><xsd:complexType><xsd:sequence/></xsd:complexType></xsd:element>'
    for opname in ("_ping", "__reset__", "_", "class", "__len__x"):
        tr = wsdlkit.RecordingTransport(reply=None)
        c = wsdlkit.client(wsdlkit.wsdl_doc(schema, "f", None, op=opname, action="urn:act:" + opname), transport=tr)
        # (one service: the first subscript selects a port)
        for form, sel in (("service.attr", lambda: getattr(c.service, opname)),
                          ("port.attr", lambda: getattr(c.service["P"], opname)), ("port[item]", lambda: c.service["P"][opname]),
                          ("index.attr", lambda: getattr(c.service[0], opname)), ("index[item]", lambda: c.service[0][opname])):
            meta = {"stream": "underscore-names", "operation": opname, "selector": form}
            ctx.case(common.canon(meta), True)
            del tr.sent[:]
            try:
                m = sel()
                m()
                act = tr.sent[-1]["headers"].get("SOAPAction") if tr.sent else None
                got = [type(m).__name__, act.decode() if isinstance(act, bytes) else act]
            except Exception as e:
                got = "%s: %s" % (type(e).__name__, e)
            if got != ["Method", '"urn:act:%s"' % opname]:
                ctx.fail("a selector expression does not resolve to the operation the WSDL declares under that name", meta,
                         got, ["Method", '"urn:act:%s"' % opname])
        for missing in ("_nosuch", "__nosuch__", "nosuch"):
            for form, sel in (("service.attr", lambda: getattr(c.service, missing)), ("port[item]", lambda: c.service["P"][missing]),
                              ("port.attr", lambda: getattr(c.service["P"], missing))):
                meta = {"stream": "underscore-names", "operation": opname, "missing": missing, "selector": form}
                ctx.case(common.canon(meta), True)
                try:
                    got = "returned %s" % type(sel()).__name__
                except suds.MethodNotFound:
                    got = "MethodNotFound"
                except Exception as e:
                    got = "%s: %s" % (type(e).__name__, e)
                if got != "MethodNotFound":
                    ctx.fail("an unknown operation name does not raise MethodNotFound", meta, got, "MethodNotFound")


def port_without_address(ctx):
    """A port that declares no address has none: its operations never go to the endpoint of another port (the port
    before it, the first port), whichever selector reaches them; the ports around it keep their own."""
    schema = '<xsd:element name="f"><xsd:complexType><xsd:sequence/></xsd:complexType></xsd:element>'
    w = wsdlkit.wsdl_doc(schema, "f", None, location="http://h.invalid/first").decode()
    w = w.replace('</wsdl:port>', '</wsdl:port><wsdl:port name="P2" binding="w:B"></wsdl:port><wsdl:port name="P3" '
                  'binding="w:B"><soap:address location="http://h.invalid/third"/></wsdl:port>', 1)
    tr = wsdlkit.RecordingTransport(reply=None)
    c = wsdlkit.client(w.encode(), transport=tr)
    for sel_name, sel in (("name", lambda p_, i_: c.service[p_]), ("index", lambda p_, i_: c.service[i_])):
        got = {}
        for i_, p_ in enumerate(("P", "P2", "P3")):
            del tr.sent[:]
            try:
                sel(p_, i_).f()
                got[p_] = tr.sent[-1]["url"] if tr.sent else "nothing sent"
            except Exception as e:
                got[p_] = "no endpoint" if not tr.sent else "raised after sending to %s" % tr.sent[-1]["url"]
        meta = {"stream": "port-without-address", "selector": sel_name}
        ctx.case(common.canon(meta), True)
        want = {"P": "http://h.invalid/first", "P2": "no endpoint", "P3": "http://h.invalid/third"}
        if got != want:
            ctx.fail("a selector expression resolved to another endpoint than the WSDL declares for that port", meta, got, want)


def unsupported_pair(ctx):
    """document/encoded is a style/use pair suds has no binding for: a WSDL that declares it for a direction does not
    load, or the direction has no binding - it is never presented and sent as another pair."""
    for ui, uo in (("encoded", "literal"), ("literal", "encoded"), ("encoded", "encoded")):
        enc = ' encodingStyle="http://schemas.xmlsoap.org/soap/encoding/"'
        w = ('<?xml version="1.0"?><wsdl:definitions targetNamespace="%s" xmlns:wsdl="http://schemas.xmlsoap.org/wsdl/" '
             'xmlns:w="%s" xmlns:soap="http://schemas.xmlsoap.org/wsdl/soap/" xmlns:xsd="http://www.w3.org/2001/XMLSchema">'
             '<wsdl:message name="in"><wsdl:part name="a" type="xsd:string"/></wsdl:message>'
             '<wsdl:message name="out"><wsdl:part name="r" type="xsd:string"/></wsdl:message><wsdl:portType name="PT">'
             '<wsdl:operation name="o"><wsdl:input message="w:in"/><wsdl:output message="w:out"/></wsdl:operation>'
             '</wsdl:portType><wsdl:binding name="B" type="w:PT"><soap:binding style="document" '
             'transport="http://schemas.xmlsoap.org/soap/http"/><wsdl:operation name="o"><soap:operation soapAction="o" '
             'style="document"/><wsdl:input><soap:body use="%s"%s/></wsdl:input><wsdl:output><soap:body use="%s"%s/>'
             '</wsdl:output></wsdl:operation></wsdl:binding><wsdl:service name="S"><wsdl:port name="P" binding="w:B">'
             '<soap:address location="http://h.invalid/S/P"/></wsdl:port></wsdl:service></wsdl:definitions>'
             % (wsdlkit.WNS, wsdlkit.WNS, ui, enc if ui == "encoded" else "", uo, enc if uo == "encoded" else "")).encode()
        meta = {"stream": "unsupported-pair", "input_use": ui, "output_use": uo}
        ctx.case(common.canon(meta), True)
        try:
            c = wsdlkit.client(w, nosend=True)
            m = c.service.o.method
            got = [type(m.binding.input).__name__, type(m.binding.output).__name__]
        except Exception as e:
            continue                      # (does not load)
        want = [{"literal": "Document", "encoded": "NoneType"}[ui], {"literal": "Document", "encoded": "NoneType"}[uo]]
        if got != want:
            ctx.fail("the binding used for a direction is not the style/use the WSDL declares for it", meta, got, want)


def binding_kinds(ctx):
    """The binding style/use the WSDL declares, per direction: an operation whose input and output soap:body differ
    in use= is sent by the one and decoded by the other, through every selector form."""
    schema = ""
    ops = {"lit_enc": ("literal", "encoded"), "enc_lit": ("encoded", "literal"), "lit_lit": ("literal", "literal"),
           "enc_enc": ("encoded", "encoded")}
    unsupported_pair(ctx)
    underscore_names(ctx)
    port_without_address(ctx)
    w = ['<?xml version="1.0"?><wsdl:definitions targetNamespace="%s" xmlns:wsdl="http://schemas.xmlsoap.org/wsdl/" '
         'xmlns:w="%s" xmlns:soap="http://schemas.xmlsoap.org/wsdl/soap/" xmlns:xsd="http://www.w3.org/2001/XMLSchema">'
         '<wsdl:message name="in"><wsdl:part name="a" type="xsd:string"/></wsdl:message>'
         '<wsdl:message name="out"><wsdl:part name="r" type="xsd:string"/></wsdl:message><wsdl:portType name="PT">'
         % (wsdlkit.WNS, wsdlkit.WNS)]
    for o in ops:
        w.append('<wsdl:operation name="%s"><wsdl:input message="w:in"/><wsdl:output message="w:out"/></wsdl:operation>' % o)
    w.append('</wsdl:portType><wsdl:binding name="B" type="w:PT"><soap:binding style="rpc" '
             'transport="http://schemas.xmlsoap.org/soap/http"/>')
    for o, (ui, uo) in ops.items():
        enc = ' encodingStyle="http://schemas.xmlsoap.org/soap/encoding/"'
        w.append('<wsdl:operation name="%s"><soap:operation soapAction="%s"/><wsdl:input><soap:body use="%s" '
                 'namespace="urn:rpcns"%s/></wsdl:input><wsdl:output><soap:body use="%s" namespace="urn:rpcns"%s/>'
                 '</wsdl:output></wsdl:operation>' % (o, o, ui, enc if ui == "encoded" else "", uo,
                                                      enc if uo == "encoded" else ""))
    w.append('</wsdl:binding><wsdl:service name="S"><wsdl:port name="P" binding="w:B"><soap:address '
             'location="http://h.invalid/S/P"/></wsdl:port></wsdl:service></wsdl:definitions>')
    c = wsdlkit.client("".join(w).encode(), nosend=True)
    kind = {"literal": "RPC", "encoded": "Encoded"}
    for o, (ui, uo) in ops.items():
        for form, sel in (("attr", lambda: getattr(c.service, o)), ("port", lambda: getattr(c.service["P"], o)),
                          ("index", lambda: c.service[0][o])):
            meta = {"stream": "binding-kinds", "operation": o, "selector": form}
            ctx.case(common.canon(meta), True)
            try:
                m = sel().method
                got = [type(m.binding.input).__name__, type(m.binding.output).__name__]
            except Exception as e:
                got = repr(e)
            want = [kind[ui], kind[uo]]
            if got != want:
                ctx.fail("the binding used for a direction is not the style/use the WSDL declares for it", meta, got, want)


def widen(ctx):
    ctx.tier = "thorough"
    run(ctx)


def replay(ctx, payload):
    f = payload.get("failure") or {}
    inp = f.get("input") or {}
    if "services" not in inp:
        return {"fails": bool(f), "recorded": f}
    services = [(s[0], [tuple(p) for p in s[1]]) for s in inp["services"]]
    kw = {}
    if inp.get("service_opt") is not None:
        kw["service"] = inp["service_opt"]
    if inp.get("port_opt") is not None:
        kw["port"] = inp["port_opt"]
    tr = wsdlkit.RecordingTransport()
    prior = inp.get("client_used_before_with_opts")
    if prior is not None:
        kw0 = {k: v for k, v in (("service", prior[0]), ("port", prior[1])) if v is not None}
        c = wsdlkit.client(make_wsdl(services), transport=tr, **kw0)
        for warm in ([{"attr": "f"}], [{"item": 0}], inp["steps"]):
            real_eval(c, tr, warm)
        c.set_options(service=inp.get("service_opt"), port=inp.get("port_opt"))
    else:
        c = wsdlkit.client(make_wsdl(services), transport=tr, **kw)
    real = real_eval(c, tr, inp["steps"])
    ans = ctx.driver.ask([{"op": "select.eval", "services": model_services(services),
                           "opts": {"service": inp.get("service_opt"), "port": inp.get("port_opt")},
                           "steps": inp["steps"]}])[0]
    exp = expected_from_model(services, ans)
    return {"fails": exp is not None and real != exp, "real": real, "expected": exp}
