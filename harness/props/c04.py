"""C04 - Character data survives the wire unchanged in both directions."""
import itertools

from harness import common, wsdlkit, xmlread

ID = "C04"
LEAN_MODULES = ["SudsModel.Props.C04"]
RULE = ("strings over the markup alphabet (exhaustive up to a length, then sampled) plus random strings over the "
        "XML Char production built from entity fragments; a case is non-trivial when the string contains a "
        "markup-significant or whitespace character; distinct = distinct (string, path) pairs"
        ' ; plus: namespace-qualified attributes, percent signs, prefix-like strings (D44), Text.escape().unescape() as a path, reading the tree back after serializing, a Document serialized again after an edit'
        ' ; replies in UTF-8 / UTF-16 / ISO-8859-1 as declared; empty attribute values present in requests and trees'
        ' ; a Document whose root is a leaf; big-endian UTF-16 replies ending in a line end'
        ' ; elements that say they are not nil; an attribute of another W3C vocabulary; strings inside a ready-made Element argument'
        ' ; strings in no Unicode normal form; attributes sharing a local name'
        ' ; U+FEFF in text; markup-heavy text holding the end of CDATA; token-typed leaves'
        ' ; values assigned over earlier ones')
ASSUMPTIONS = [
    "pyexpat is the independent XML processor (trusted for XML 1.0 lexical rules)",
    "Python re.sub / str.replace behave as modelled (checked by the encode/decode correspondence)",
]
PARTIAL = [
    {"theorem": "text_roundtrip / attr_roundtrip",
     "missing": "hold for strings without a predefined-entity spelling (D10) and without CR (text) or TAB/LF/CR "
                "(attribute) (D11); the excluded points are proved to fail on the model (witness theorems) and "
                "are known findings on the implementation"},
    {"theorem": "parse_plain (stretch)", "missing": "no Lean model of a full XML parser; expat is trusted"},
]
TRUSTED = ["pyexpat as reference XML reader on the implementation side; the Lean reference reader (readRef) "
           "covers character data, predefined entities and character references only"]

ALPHA = ["&", "<", ">", '"', "'", ";", "#", "a", "m", "p", "l", "t", "g", "x", "1", "\t", "\n", "\r", " ",
         "\U0001d11e", "%"]
FRAGS = ["&amp;", "&lt;", "&gt;", "&quot;", "&apos;", "&#65;", "&#x41;", "&", ";", "<", ">", '"', "'", "amp;",
         "&am", "lt;", "]]>", "<![CDATA[", "\t", "\n", "\r", "\r\n", " ", "  ", "a", "b", "é", "€", "\U0001d11e",
         "퟿", "", "�", "--", "<!--", "?>", "&&", "&amp;amp;", "x", "%", "%s", "%%", "%d", "%(a)s"]
SPECIAL = set("&<>\"'\t\n\r")

ENT = {"&amp;": "&", "&lt;": "<", "&gt;": ">", "&quot;": '"', "&apos;": "'"}


def collapse(s):
    """What an XML reader recovers from suds' rendering when `s` contains entity spellings."""
    out = []
    i = 0
    while i < len(s):
        for k, v in ENT.items():
            if s.startswith(k, i):
                out.append(v)
                i += len(k)
                break
        else:
            out.append(s[i])
            i += 1
    return "".join(out)


def norm_text(s):
    return s.replace("\r\n", "\n").replace("\r", "\n")


def norm_attr(s):
    return norm_text(s).replace("\t", " ").replace("\n", " ")


def is_clean(s):
    return collapse(s) == s


def kf_d10(f, k):
    """D10: the string holds a predefined-entity spelling and exactly those spellings were collapsed."""
    if f.get("direction") != "request":
        return False
    s = f["input"]["s"]
    norm = norm_attr if f.get("position") == "attr" else norm_text
    if not is_clean(s) and "Text.escape().unescape()" in str(f.get("what")):
        # on that path a spelled entity can be taken for markup twice: once by unescape() (when escape() had other
        # characters to encode and flagged the text) and once more when the tree is written and read
        return f["observed"] in (norm(collapse(s)), norm(collapse(collapse(s))))
    return (not is_clean(s)) and f["observed"] == norm(collapse(s))


def kf_d11(f, k):
    """D11: the only change is XML line-end / attribute-value whitespace normalisation."""
    if f.get("direction") != "request":
        return False
    s = f["input"]["s"]
    norm = norm_attr if f.get("position") == "attr" else norm_text
    return is_clean(s) and norm(s) != s and f["observed"] == norm(s)


ENVELOPE_PREFIXES = ("SOAP-ENV", "ns0", "ns1", "ns2", "ns3")


def kf_d44(f, k):
    """D44: an attribute value of a request that starts with a prefix declared in the envelope ('SOAP-ENV:x',
    'ns0:x') has exactly that prefix replaced by the normaliser's prefix for the same namespace."""
    if f.get("direction") != "request" or f.get("position") != "attr" or not str(f.get("path", "")).startswith("envelope"):
        return False
    s, obs = f["input"]["s"], f["observed"]
    if not isinstance(obs, str) or ":" not in s or ":" not in obs:
        return False
    p, rest = s.split(":", 1)
    op, orest = obs.split(":", 1)
    return p in ENVELOPE_PREFIXES and op in ENVELOPE_PREFIXES and op != p and orest == norm_attr(collapse(rest))


CLASSIFIERS = {"c04_entity_spelling": kf_d10, "c04_whitespace_normalisation": kf_d11,
               "c04_prefix_like_attribute_value": kf_d44}

SCHEMA = '''<xsd:element name="f"><xsd:complexType><xsd:sequence>
<xsd:element name="s" type="xsd:string"/>
<xsd:element name="o"><xsd:complexType><xsd:attribute name="k" type="xsd:string"/></xsd:complexType></xsd:element>
</xsd:sequence></xsd:complexType></xsd:element>
<xsd:element name="fResponse"><xsd:complexType><xsd:sequence>
<xsd:element name="r" type="xsd:string"/>
<xsd:element name="o"><xsd:complexType><xsd:attribute name="k" type="xsd:string"/></xsd:complexType></xsd:element>
<xsd:element name="v" minOccurs="0"><xsd:complexType><xsd:simpleContent><xsd:extension base="xsd:string">
<xsd:attribute name="a" type="xsd:string"/></xsd:extension></xsd:simpleContent></xsd:complexType></xsd:element>
</xsd:sequence></xsd:complexType></xsd:element>'''


def gen_strings(ctx):
    exh = ctx.pick(3, 4)
    ctx.exhaustive_len = exh
    for n in range(0, exh + 1):
        for t in itertools.product(ALPHA, repeat=n):
            yield "".join(t)
    rng = ctx.rng
    for _ in range(ctx.pick(6000, 150000)):
        n = rng.choice((exh + 1, exh + 1, exh + 2, 6, 7))
        yield "".join(rng.choice(ALPHA) for _ in range(n))
    for _ in range(ctx.pick(6000, 150000)):
        yield "".join(rng.choice(FRAGS) for _ in range(rng.randint(1, 8)))
    for _ in range(ctx.pick(1000, 20000)):
        yield "".join(random_xml_char(rng) for _ in range(rng.randint(1, 12)))


def random_xml_char(rng):
    r = rng.random()
    if r < 0.3:
        return rng.choice("&<>\"';# \t\n\r")
    if r < 0.6:
        return chr(rng.randint(0x20, 0x7e))
    if r < 0.8:
        return chr(rng.choice([0x9, 0xa, 0xd, 0x85, 0xa0, 0x2028, 0xd7ff, 0xe000, 0xfffd, 0x10000, 0x10ffff]))
    while True:
        c = rng.randint(0x80, 0x10ffff)
        if not (0xd800 <= c <= 0xdfff) and c not in (0xfffe, 0xffff):
            return chr(c)


def write_encoded(rng, s, attr):
    """Independent writer: encode `s` with a random mix of literal text, predefined entities,
    decimal / hex character references and (element content only) CDATA sections."""
    out = []
    i = 0
    while i < len(s):
        c = s[i]
        r = rng.random()
        if not attr and r < 0.15:
            j = min(len(s), i + rng.randint(1, 4))
            seg = s[i:j]
            if "]]>" not in seg and "\r" not in seg and not (seg.endswith("]") or seg.endswith("]]")):
                out.append("<![CDATA[" + seg + "]]>")
                i = j
                continue
        must = c in "&<" or (c == ">" and "".join(out).endswith("]]")) or c == "\r" or \
            (attr and c in '"\t\n')
        if must or r < 0.35:
            k = rng.random()
            names = {"&": "amp", "<": "lt", ">": "gt", '"': "quot", "'": "apos"}
            if c in names and k < 0.5:
                out.append("&%s;" % names[c])
            elif k < 0.75:
                out.append("&#%d;" % ord(c))
            else:
                out.append("&#x%x;" % ord(c))
        else:
            out.append(c)
        i += 1
    return "".join(out)


def impl_encoder(s):
    from suds.sax.enc import Encoder
    from suds.sax.text import Text
    e = Encoder()
    t = Text(s).escape()
    t2 = Text(s, escaped=True).escape()
    t3 = Text(s, escaped=True).unescape()
    return {"enc": e.encode(s), "dec": e.decode(s),
            "esc": {"s": str(t), "escaped": bool(t.escaped)},
            "esc2": {"s": str(t2), "escaped": bool(t2.escaped)},
            "unesc": {"s": str(t3), "escaped": bool(t3.escaped)}}


def model_requests(s):
    return [{"op": "enc.encode", "s": s}, {"op": "enc.decode", "s": s},
            {"op": "text.escape", "s": s, "escaped": False},
            {"op": "text.escape", "s": s, "escaped": True},
            {"op": "text.unescape", "s": s, "escaped": True}]


def standalone(s, via_text_api=False):
    """Oracle: Element with text s and attribute k=s -> plain()/str() -> expat and suds' own parser.
    via_text_api: the value first goes through the public Text API, Text(s).escape().unescape() (a string again)."""
    from suds.sax.element import Element
    from suds.sax.parser import Parser
    res = {}
    e = Element("a")
    if via_text_api:
        from suds.sax.text import Text
        e.setText(Text(s).escape().unescape())
        e.set("k", Text(s).escape().unescape())
    else:
        e.setText(s)
        e.set("k", s)
    for name, out in (("plain", e.plain()), ("str", e.str())):
        try:
            root = xmlread.parse(out)
            res[name] = (root["text"], root["attrs"].get((None, "k")))
        except xmlread.XmlError as x:
            res[name] = ("!malformed: %s" % x, None)
        try:
            r2 = Parser().parse(string=out.encode("utf-8")).root()
            res[name + "/suds"] = (str(r2.getText() or ""), str(r2.get("k") or ""))
        except Exception as x:
            res[name + "/suds"] = ("!error: %r" % (x,), None)
    return res


def standalone_qualified(s):
    """The same for a namespace-qualified attribute p:q=s (prefix declared on the element)."""
    from suds.sax.element import Element
    from suds.sax.parser import Parser
    res = {}
    e = Element("a")
    e.addPrefix("p", "urn:p")
    e.set("p:q", s)
    for name, out in (("plain", e.plain()), ("str", e.str())):
        try:
            res[name] = xmlread.parse(out)["attrs"].get(("urn:p", "q"))
        except xmlread.XmlError as x:
            res[name] = "!malformed: %s" % x
        try:
            r2 = Parser().parse(string=out.encode("utf-8")).root()
            a = r2.getAttribute("q", ns=(None, "urn:p"))
            res[name + "/suds"] = None if a is None else str(a.getValue() or "")
        except Exception as x:
            res[name + "/suds"] = "!error: %r" % (x,)
    return res


def leaf_document(s):
    """A Document whose root is a leaf (text and an attribute, no child elements), through both serializers."""
    from suds.sax.document import Document
    from suds.sax.element import Element
    e = Element("a")
    e.setText(s)
    e.set("k", s)
    d = Document(e)
    out = {}
    for name in ("plain", "str"):
        try:
            root = xmlread.parse(getattr(d, name)())
            out[name] = (root["text"], root["attrs"].get((None, "k")))
        except xmlread.XmlError as x:
            out[name] = ("!malformed: %s" % x, None)
    return out


def read_after_write(s):
    """Serializing does not change the tree: text and attribute values read back from the objects after plain() /
    str() are still s, a second serialization is the same as the first, and a Document serialized again after an
    edit shows the edit."""
    from suds.sax.element import Element
    from suds.sax.document import Document
    out = []
    for first in ("plain", "str"):
        e = Element("a")
        c = Element("b")
        c.setText("an earlier text")
        c.setText(s)
        c.set("k", "an earlier value")        # (an attribute / a text assigned again holds the value assigned last)
        c.set("k", s)
        e.append(c)
        try:
            one = getattr(e, first)()
            back = xmlread.parse(one.encode("utf-8"))["children"][0]
            if not (back.get("text") in (s, norm_text(s)) or not is_clean(s)) or \
                    not (back["attrs"].get((None, "k")) in (s, norm_attr(s)) or not is_clean(s)):
                out.append("%s(): a value assigned over an earlier one is not what is written: %r / %r"
                           % (first, back.get("text"), back["attrs"].get((None, "k"))))
        except xmlread.XmlError:
            pass                                  # (strings suds cannot carry at all are judged by the other paths)
        except Exception as e_:
            out.append("%s() raised after an attribute was assigned twice: %r" % (first, e_))
            continue
        if str(c.getText() or "") != s or str(c.get("k") or "") != s:
            out.append("%s() changed the value held by the tree: %r / %r" % (first, c.getText(), c.get("k")))
        if e.plain() != Element.plain(e) or getattr(e, first)() != one:
            out.append("%s() twice gives different output" % first)
        d = Document(e)
        d.str(), d.plain()
        c.setText("edited")
        for form in ("str", "plain"):
            if "edited" not in getattr(d, form)():
                out.append("Document.%s() after an edit still shows the old tree" % form)
    return out


class Paths:
    def __init__(self):
        w = wsdlkit.wsdl_doc(SCHEMA, "f", "fResponse")
        self.req = wsdlkit.client(w, nosend=True)
        self.req_pretty = wsdlkit.client(w, nosend=True, prettyxml=True)
        self.rep = wsdlkit.client(w)
        w2 = wsdlkit.wsdl_doc('<xsd:element name="g"><xsd:complexType><xsd:sequence><xsd:any/></xsd:sequence>'
                              '</xsd:complexType></xsd:element>', "g", None, op="g")
        self.raw = wsdlkit.client(w2, nosend=True)
        self.raw_pretty = wsdlkit.client(w2, nosend=True, prettyxml=True)

    def request_raw(self, s, pretty=False):
        """The string inside a ready-made sax Element handed over as the argument (text and an attribute)."""
        from suds.sax.element import Element
        e = Element("x")
        e.setText(s)
        e.set("k", s)
        env = wsdlkit.envelope_bytes((self.raw_pretty if pretty else self.raw).service.g(e))
        try:
            root = xmlread.parse(env)
        except xmlread.XmlError as x:
            return ("!malformed: %s" % x, None)
        xs = [n for n in xmlread.walk(root) if n["name"][1] == "x"]
        return (xs[0]["text"], xs[0]["attrs"].get((None, "k"))) if xs else (None, None)

    def request(self, s, pretty=False):
        c = self.req_pretty if pretty else self.req
        env = wsdlkit.envelope_bytes(c.service.f(s, {"_k": s}))
        try:
            root = xmlread.parse(env)
        except xmlread.XmlError as x:
            return ("!malformed: %s" % x, None)
        body = xmlread.find1(root, "Body")
        f = xmlread.find1(body, "f")
        sn = xmlread.find1(f, "s")
        on = xmlread.find1(f, "o")
        return (sn["text"] if sn is not None else None,
                on["attrs"].get((None, "k")) if on is not None else None)

    def reply(self, rng, s, soap12=False, enc=None):
        envns = xmlread.ENV12 if soap12 else xmlread.ENV11
        # (an element that says it is NOT nil - xsi:nil false / 0 - holds its text like any other; an attribute of a
        # W3C vocabulary other than XML Schema - xlink:title - is an attribute like any other)
        notnil = rng.choice(["", "", ' xmlns:xsi="%s" xsi:nil="false"' % xmlread.XSI, ' xmlns:xsi="%s" xsi:nil="0"' % xmlread.XSI])
        body = "<r%s>%s</r><o k=\"%s\"/><v a=\"1\" xmlns:xlink=\"http://www.w3.org/1999/xlink\" xlink:title=\"%s\">%s</v>" % (
            notnil, write_encoded(rng, s, False), write_encoded(rng, s, True), write_encoded(rng, s, True),
            write_encoded(rng, s, False))
        doc = ('<e:Envelope xmlns:e="%s"><e:Body><fResponse xmlns="%s">%s</fResponse></e:Body></e:Envelope>'
               % (envns, wsdlkit.TNS, body))
        # the reply says which encoding it is in: UTF-8 (declared or not), UTF-16, ISO-8859-1 where it can hold the text
        enc = enc or rng.choice(["utf-8", "utf-8", "utf-8-declared", "utf-16", "iso-8859-1"])
        try:
            if enc == "utf-8":
                doc = doc.encode("utf-8")
            elif enc == "utf-16-be":
                # big-endian with a byte order mark, a line end after the root element
                import codecs
                doc = codecs.BOM_UTF16_BE + ('<?xml version="1.0" encoding="UTF-16"?>' + doc + "\n").encode("utf-16-be")
            else:
                label = {"utf-8-declared": "UTF-8", "utf-16": "UTF-16", "iso-8859-1": "ISO-8859-1"}[enc]
                doc = ('<?xml version="1.0" encoding="%s"?>' % label + doc).encode(label)
        except UnicodeEncodeError:
            doc = doc.encode("utf-8")
        # the writer itself must be right: expat is the judge of what the document contains
        root = xmlread.parse(doc)
        fr = xmlread.find1(xmlread.find1(root, "Body"), "fResponse")
        truth = (xmlread.find1(fr, "r")["text"], xmlread.find1(fr, "o")["attrs"][(None, "k")],
                 xmlread.find1(fr, "v")["text"])
        assert truth == (s, s, s), "writer bug: %r %r" % (truth, s)
        res = self.rep.service.f("x", {"_k": "y"}, __inject={"reply": doc})
        r = getattr(res, "r", None)
        k = getattr(getattr(res, "o", None), "_k", None)
        v = getattr(getattr(res, "v", None), "value", None)
        title = getattr(getattr(res, "v", None), "_title", None)
        self.last_title = None if title is None else str(title)
        return doc, (None if r is None else str(r), None if k is None else str(k), None if v is None else str(v))


def check_string(ctx, paths, s, model, deep):
    nontrivial = any(c in SPECIAL for c in s)
    inp = {"s": s}
    # 1. correspondence: encoder / Text
    impl = impl_encoder(s)
    if model is not None:
        mdl = {"enc": model[0], "dec": model[1], "esc": model[2], "esc2": model[3], "unesc": model[4]}
        for k in ("enc", "dec", "esc", "esc2", "unesc"):
            ctx.compare("encoder." + k, inp, impl[k], mdl[k])
    ctx.case(("enc", s), nontrivial)
    if not deep:
        return
    # 2. oracle: standalone trees through both serializers, read by expat and by suds' parser
    st = standalone(s)
    for path, (txt, att) in st.items():
        ctx.case(("tree", path, s), nontrivial)
        if txt != s:
            ctx.fail("element text not recovered (%s)" % path, inp, txt, s, direction="request", position="text",
                     path=path)
        if att != s and not (att is None and isinstance(txt, str) and txt.startswith("!")):
            # (an attribute set to the empty string is there, empty)
            ctx.fail("attribute value not recovered (%s)" % path, inp, att, s, direction="request",
                     position="attr", path=path)
    for path, (txt, att) in leaf_document(s).items():
        ctx.case(("leaf-document", path, s), nontrivial)
        if txt != s:
            ctx.fail("element text not recovered (Document.%s of a leaf root)" % path, inp, txt, s,
                     direction="request", position="text", path="document-" + path)
    ctx.case(("read-after-write", s), nontrivial)
    for problem in read_after_write(s):
        ctx.fail("serializing a tree changed it (or a later serialization)", inp, problem, "unchanged tree",
                 direction="tree", position="text", path="read-after-write")
    for path, (txt, att) in standalone(s, via_text_api=True).items():
        ctx.case(("tree-text-api", path, s), nontrivial)
        if txt != s:
            ctx.fail("element text not recovered after Text.escape().unescape() (%s)" % path, inp, txt, s,
                     direction="request", position="text", path=path)
        if att is not None and att != s:
            ctx.fail("attribute value not recovered after Text.escape().unescape() (%s)" % path, inp, att, s,
                     direction="request", position="attr", path=path)
    for path, att in standalone_qualified(s).items():
        ctx.case(("tree-qattr", path, s), nontrivial)
        if att != s and not (s == "" and att in (None, "")):
            ctx.fail("qualified attribute value not recovered (%s)" % path, inp, att, s, direction="request",
                     position="attr", path=path)
    # 3. oracle: real request
    for pretty in (False, True):
        txt, att = paths.request(s, pretty)
        ctx.case(("req", pretty, s), nontrivial)
        if txt != s:
            ctx.fail("request element text not recovered", inp, txt, s, direction="request", position="text",
                     path="envelope pretty=%s" % pretty)
        if att != s:
            ctx.fail("request attribute value not recovered", inp, att, s, direction="request", position="attr",
                     path="envelope pretty=%s" % pretty)
        txt, att = paths.request_raw(s, pretty)
        ctx.case(("req-raw", pretty, s), nontrivial)
        if txt != s:
            ctx.fail("request element text not recovered", inp, txt, s, direction="request", position="text",
                     path="envelope raw element pretty=%s" % pretty)
        if att != s:
            ctx.fail("request attribute value not recovered", inp, att, s, direction="request", position="attr",
                     path="envelope raw element pretty=%s" % pretty)
    # 4. oracle: reply written by an independent writer
    if s and s.strip(" \t\n\r") == s or True:
        for soap12 in (False, True):
            try:
                doc, (r, k, v) = paths.reply(ctx.rng, s, soap12)
            except AssertionError:
                raise
            except Exception as e:
                ctx.fail("reply element text not decoded to the document's string", {"s": s},
                         "%s: %s" % (type(e).__name__, e), s, direction="reply", position="text")
                continue
            if paths.last_title != s:
                ctx.fail("reply attribute value not decoded to the document's string",
                         {"s": s, "attribute": "xlink:title"}, paths.last_title, s, direction="reply", position="attr")
            if v != s and not (s == "" and v in (None, "")):
                ctx.fail("text of a reply element that also carries an attribute is not decoded to the document's string",
                         {"s": s, "doc": doc.decode("utf-8", "replace") if not doc.startswith((b"\xff\xfe", b"\xfe\xff")) else doc.decode("utf-16", "replace")}, v, s, direction="reply", position="text+attr")
            ctx.case(("rep", soap12, s), nontrivial)
            exp_r = s
            if r != exp_r and not (s == "" and r in (None, "")):
                ctx.fail("reply element text not decoded to the document's string",
                         {"s": s, "doc": doc.decode("utf-8", "replace") if not doc.startswith((b"\xff\xfe", b"\xfe\xff")) else doc.decode("utf-16", "replace")}, r, s, direction="reply", position="text")
            if k != s:       # (an attribute that is present and empty is the empty string, not None)
                ctx.fail("reply attribute value not decoded to the document's string",
                         {"s": s, "doc": doc.decode("utf-8", "replace") if not doc.startswith((b"\xff\xfe", b"\xfe\xff")) else doc.decode("utf-16", "replace")}, k, s, direction="reply", position="attr")


def token_typed(ctx):
    """Leaves typed xsd:token / xsd:normalizedString / xsd:NMTOKEN / xsd:language: a value of the type is sent and
    decoded as it is - spaces that are not XML white space (no-break, em, ideographic) are characters of the value."""
    types = ["token", "normalizedString", "Name", "string"]
    schema = ('<xsd:element name="f"><xsd:complexType><xsd:sequence>%s</xsd:sequence>%s</xsd:complexType></xsd:element>'
              '<xsd:element name="fResponse"><xsd:complexType><xsd:sequence>%s</xsd:sequence></xsd:complexType></xsd:element>'
              % ("".join('<xsd:element name="e_%s" type="xsd:%s"/>' % (t, t) for t in types),
                 "".join('<xsd:attribute name="a_%s" type="xsd:%s"/>' % (t, t) for t in types),
                 "".join('<xsd:element name="e_%s" type="xsd:%s"/>' % (t, t) for t in types)))
    w = wsdlkit.wsdl_doc(schema, "f", "fResponse")
    creq, crep = wsdlkit.client(w, nosend=True, unwrap=False), wsdlkit.client(w)
    for v in ("a\u00a0b", "x\u2003y", "\u3000z", "one two", "a\u2028b", "k\u00a0"):
        if v.startswith("\u3000") or " " in v or "\u2028" in v:
            vals = {t: (v if t != "Name" else "n1") for t in types}
        else:
            vals = {t: (v if t != "Name" else "n\u00b7x") for t in types}
        meta = {"stream": "token-typed", "value": v, "s": v}
        ctx.case(common.canon(meta), True)
        try:
            arg = {("e_" + t): vals[t] for t in types}
            arg.update({("_a_" + t): vals[t] for t in types})
            env = wsdlkit.envelope_bytes(creq.service.f(arg))
            fn = xmlread.find1(xmlread.find1(xmlread.parse(env), "Body"), "f")
            got = [{c["name"][1][2:]: c["text"] for c in fn["children"]}, {k[1][2:]: a for k, a in fn["attrs"].items()}]
        except Exception as e:
            got = "%s: %s" % (type(e).__name__, e)
        if got != [vals, vals]:
            ctx.fail("request element text not recovered", dict(meta, types=types), got, [vals, vals], direction="request",
                     position="text", path="typed leaves")
        reply = ('<e:Envelope xmlns:e="%s"><e:Body><fResponse xmlns="%s">%s</fResponse></e:Body></e:Envelope>'
                 % (xmlread.ENV11, wsdlkit.TNS, "".join("<e_%s>%s</e_%s>" % (t, vals[t], t) for t in types))).encode("utf-8")
        try:
            r = crep.service.f({}, __inject={"reply": reply})
            got = {t: str(getattr(r, "e_" + t)) for t in types}
        except Exception as e:
            got = "%s: %s" % (type(e).__name__, e)
        if got != vals:
            ctx.fail("reply element text not decoded to the document's string", dict(meta, types=types), got, vals,
                     direction="reply", position="text")


def same_local_names(ctx):
    """Attributes of one element that share a local name and differ in namespace are different attributes: the parser
    keeps each with its own value, whether the prefix is declared on the element, on an ancestor, or re-bound below."""
    from suds.sax.parser import Parser
    rng = ctx.rng
    for _ in range(ctx.pick(30, 600)):
        vals = ["".join(rng.choice(FRAGS[:12] + ["a", "b", " ", "é"]) for _ in range(rng.randint(0, 3))).replace("<", "")
                for _ in range(6)]
        vals = [v.replace("&", "&amp;").replace('"', "&quot;") for v in vals]
        orders = [rng.sample(['k="%s"' % vals[0], 'p:k="%s"' % vals[1], 'q:k="%s"' % vals[2]], 3) for _ in range(3)]
        decl_here = rng.random() < 0.3
        doc = ('<r xmlns:p="urn:p" xmlns:q="urn:q" k="%s" p:k="%s"><e %s%s/><m><e %s/></m><w xmlns:p="urn:other"><e %s/>'
               '<e type="plain" xsi:type="p:T" xmlns:xsi="%s"/></w><e type="%s" xsi:type="%s" nil="n" xsi:nil="false"/></r>'
               % (vals[3], vals[4], " ".join(orders[0]), ' xmlns:q="urn:q"' if decl_here else "", " ".join(orders[1]),
                  " ".join(orders[2]), xmlread.XSI, vals[5], vals[5]))
        doc = doc.replace("<r ", '<r xmlns:xsi="%s" ' % xmlread.XSI, 1).encode("utf-8")
        ctx.case(("same-local-names", common.digest(doc.decode())), True)
        try:
            truth = xmlread.parse(doc)
        except xmlread.XmlError:
            continue
        want = [sorted([k[0] or "", k[1], v] for k, v in n["attrs"].items()) for n in xmlread.walk(truth)]
        try:
            root = Parser().parse(string=doc).root()
            got = []
            root.walk(lambda n: got.append(sorted([a.namespace()[1] or "", a.name, str(a.value)] for a in n.attributes)))
        except Exception as e:
            got = "%s: %s" % (type(e).__name__, e)
        if got != want:
            ctx.fail("the parser does not keep the attributes the document has", {"doc": doc.decode()}, got, want,
                     direction="reply", position="attr")
            return


def text_ops(ctx):
    """Correspondence for Text.__add__ / trim with the escaped flag."""
    from suds.sax.text import Text
    rng = ctx.rng
    reqs, impls, inps = [], [], []
    for _ in range(ctx.pick(400, 5000)):
        a = "".join(rng.choice(ALPHA) for _ in range(rng.randint(0, 4)))
        b = "".join(rng.choice(ALPHA) for _ in range(rng.randint(0, 4)))
        ea, eb = rng.random() < 0.5, rng.choice([None, True, False])
        ta = Text(a, escaped=ea)
        other = b if eb is None else Text(b, escaped=eb)
        r = ta + other
        impls.append({"s": str(r), "escaped": bool(r.escaped)})
        reqs.append({"op": "text.add", "s": a, "escaped": ea, "other": b, "other_escaped": eb})
        inps.append({"a": a, "ea": ea, "b": b, "eb": eb})
        t = Text(a, escaped=ea).trim()
        impls.append({"s": str(t), "escaped": bool(t.escaped)})
        reqs.append({"op": "text.trim", "s": a, "escaped": ea})
        inps.append({"trim": a, "ea": ea})
    for inp, i, m in zip(inps, impls, ctx.driver.ask(reqs)):
        ctx.compare("text.ops", inp, i, m)
        ctx.case(("textop", common.canon(inp)), True)


def run(ctx, deep_budget=None):
    paths = Paths()
    strings = list(gen_strings(ctx))
    # corpus first
    corpus = ["&amp;", "a\nb", "a\rb", "&lt;tag&gt;", "&amp;amp;", "]]>", "&#13;", "'\"", "&", "&amp", "&quot;x&apos;"]
    strings = corpus + strings
    reqs = []
    for s in strings:
        reqs.extend(model_requests(s))
    answers = ctx.driver.ask(reqs)
    deep_every = ctx.pick(1, 1)
    deep_limit = deep_budget or ctx.pick(7000, 400000)
    n_deep = 0
    for i, s in enumerate(strings):
        if ctx.time_left() is not None and ctx.time_left() < 0:
            ctx.notes.append("search budget used up after %d of %d strings" % (i, len(strings)))
            break
        model = answers[5 * i: 5 * i + 5]
        if model and model[0] is None:
            model = None
        deep = n_deep < deep_limit and (i < len(corpus) + 9000 or i % deep_every == 0)
        if deep:
            n_deep += 1
        check_string(ctx, paths, s, model, deep)
        ctx.dist["len=%d" % min(len(s), 9)] += 1
        if not is_clean(s):
            ctx.dist["has_entity_spelling"] += 1
        if any(c in "\t\n\r" for c in s):
            ctx.dist["has_tab_lf_cr"] += 1
        if any(ord(c) > 0xffff for c in s):
            ctx.dist["has_astral"] += 1
    # strings that look like qualified names, with prefixes the request envelope itself declares
    for s in ("SOAP-ENV:x", "ns0:x", "ns1:a b", "xsi:z", "tns:q", "SOAP-ENV:", "ns0:ns1:x", "http://x/y", "urn:a:b",
              "xsd:int", "ns9:x", ":x", "a:"):
        ctx.dist["prefix-like"] += 1
        check_string(ctx, paths, s, None, True)
    # strings in no Unicode normal form (combining sequences, compatibility and singleton code points): the code points
    # given are the value
    for s in ("e\u0308", "\u212b", "\u2126x", "\u0958", "\uf900", "a\u0301\u0323", "\ufb01n", "\U0001d15e",
              "Zoe\u0308 & A\u030a", "\u1e9b\u0323", "\u00e9e\u0301"):
        ctx.dist["no-normal-form"] += 1
        check_string(ctx, paths, s, None, True)
    # a zero width no-break space (the code point of the byte order mark) at either end or alone; text that is mostly
    # markup characters and holds the end-of-CDATA sequence
    for s in ("\ufeffabc", "abc\ufeff", "\ufeff", "\ufeff\ufeff<a>", "if (a[b[0]]>1 && c<2 && d<3 && e<4) { }",
              "<<<<<]]>>>>>>&&&&&", "]]>" * 5 + "&" * 5, "<![CDATA[" + "<&" * 8 + "]]>"):
        ctx.dist["bom-and-markup-heavy"] += 1
        check_string(ctx, paths, s, None, True)
    token_typed(ctx)
    # replies in every encoding a document may declare (the value is the document's string, whatever bytes spell it)
    for s in ("\u00e9 x", "caf\u00e9 & cr\u00e8me", "\u20acuro", "\U0001d11e", "plain", "\u00fc<\u00df>"):
        for enc in ("utf-8-declared", "utf-16", "utf-16-be", "iso-8859-1"):
            for soap12 in (False, True):
                ctx.case(("reply-encoding", enc, soap12, s), True)
                ctx.dist["reply-encoding=" + enc] += 1
                try:
                    doc, (r, k, v) = paths.reply(ctx.rng, s, soap12, enc=enc)
                except Exception as e:
                    ctx.fail("reply element text not decoded to the document's string", {"s": s, "encoding": enc},
                             "%s: %s" % (type(e).__name__, e), s, direction="reply", position="text")
                    continue
                if (r, k, v) != (s, s, s):
                    ctx.fail("reply element text not decoded to the document's string", {"s": s, "encoding": enc},
                             [r, k, v], [s, s, s], direction="reply", position="text")
    text_ops(ctx)
    same_local_names(ctx)
    ctx.exhaustive = False
    ctx.sample({"string": "a<b&amp; \"q\"", "paths": ["Encoder.encode/decode vs model", "Element.plain/str -> expat + suds parser",
                                                       "request envelope (plain, pretty) -> expat",
                                                       "reply by independent writer (SOAP 1.1, 1.2) -> returned value"]})
    for s in strings[len(corpus) + 30:len(corpus) + 34]:
        ctx.sample({"string": s})
    ctx.notes.append("exhaustive over the %d-letter alphabet up to length %d" % (len(ALPHA), ctx.exhaustive_len))


def widen(ctx):
    was = ctx.tier
    ctx.tier = "thorough"
    if was == "quick" and ctx.deadline is None:
        import time
        ctx.deadline = time.time() + 300      # a quick run searches a few minutes, not the whole thorough space
    run(ctx)


def witness(ctx, k):
    w = k["witness"]
    s = w["s"]
    if w.get("kind") == "prefix-like-attribute":
        return Paths().request(s)[1] != s
    st = standalone(s)
    txt, att = st["plain"]
    return (att if w.get("position") == "attr" else txt) != s


def shrink(ctx, f):
    s = f["input"].get("s")
    if not isinstance(s, str) or f.get("direction") != "request":
        return f
    paths = Paths()

    def fails(t):
        c2 = common.Ctx(ctx.prop_id, "quick", 0, common.Driver(False), ctx.known)
        c2.classifiers = ctx.classifiers
        check_string(c2, paths, t, None, True)
        return c2.failures[0] if c2.failures else None
    best = f
    changed = True
    while changed and len(s) > 1:
        changed = False
        for i in range(len(s)):
            t = s[:i] + s[i + 1:]
            g = fails(t)
            if g:
                s, best, changed = t, g, True
                break
    return best


def replay(ctx, payload):
    f = payload.get("failure") or {}
    s = (f.get("input") or {}).get("s")
    if s is None:
        return {"fails": False, "note": "no failing input recorded (see no_longer_checks)", "payload": payload}
    paths = Paths()
    check_string(ctx, paths, s, None, True)
    return {"fails": bool(ctx.failures), "failures": ctx.failures[:3], "known_finding_hits": dict(ctx.kf_hits)}
