"""C19 - Editing or cloning the XML tree affects exactly the nodes named."""
import itertools

from harness import common, wsdlkit, xmlread

ID = "C19"
LEAN_MODULES = ["SudsModel.Props.C19"]
RULE = ("forests of real Element objects (depth <= 4, repeated sibling names, mixed prefixes/default namespaces, "
        "attributes incl. prefixed ones) x edit histories (append/insert/remove/detach/replaceChild by one or several "
        "nodes/detachChildren/prune/set/unset/setText/rename/setPrefix/clone) with lookups interleaved; every history "
        "of length <= 2 over a fixed 7-node tree exhaustively (3 thorough), random histories up to length 25; "
        "non-trivial = the history contains a structural edit on a node that has a same-named sibling; distinct = "
        "distinct (tree, history)"
        ' ; plus: childrenAtPath, qualified and unqualified attributes sharing a local name, element equality across prefixes, the schema doctor on schemas whose import is not the first child'
        ' ; every two-step set/unset/getAttribute history over nodes holding k, p:k, q:k in every order (p, q bound to one URI or two)'
        ' ; explicit empty default namespaces (xmlns="") in generated trees; a node listed by two parents, two attribute objects with one name (edits go by object identity)'
        ' ; lookups on a Document against the same lookups on an element holding its root; a schema tree attached by wsdl:import keeps its meaning'
        ' ; the referring node of a resolved reference stays itself; detach of a node its parent does not list'
        ' ; chains of references in any document order'
        ' ; attributes of the referenced element next to the referrer\'s own'
        ' ; text of its own that a referrer had')
ASSUMPTIONS = ["node identity is tracked by a harness-side map from Python objects to integers",
               "append/insert are exercised with detached nodes only (attaching an attached node aliases it in two "
               "child lists: outside the edit alphabet of the property)"]
PARTIAL = []
TRUSTED = []

U = {"p": "urn:p", "q": "urn:q", "r": "urn:r"}


class World:
    """Real Element objects with identities."""

    def __init__(self):
        self.obj = {}
        self.ident = {}
        self.next = 1

    def reg(self, e):
        i = self.next
        self.next += 1
        self.obj[i] = e
        self.ident[id(e)] = i
        return i

    def idof(self, e):
        return self.ident.get(id(e))

    def roots(self):
        return [e for i, e in sorted(self.obj.items()) if e.parent is None]

    def dump_node(self, e, problems, parent=None):
        i = self.idof(e)
        if i is None:
            problems.append("unknown node object %r in the tree" % (e,))
            i = -1
        if parent is not None and e.parent is not parent:
            problems.append("node %s: parent link does not point to the node that lists it as a child" % i)
        return {"id": i, "pfx": e.prefix, "name": e.name, "expns": e.expns,
                "nsp": [[k, v] for k, v in e.nsprefixes.items()],
                "attrs": [[a.prefix, a.name, None if a.value is None else str(a.value)] for a in e.attributes],
                "text": None if e.text is None else str(e.text),
                "kids": [self.dump_node(c, problems, e) for c in e.children]}

    def dump(self):
        problems = []
        seen = []
        out = []
        for r in self.roots():
            out.append(self.dump_node(r, problems))
        # every registered node appears exactly once
        def ids(n):
            yield n["id"]
            for k in n["kids"]:
                yield from ids(k)
        for n in out:
            seen.extend(ids(n))
        if sorted(seen) != sorted(self.obj):
            problems.append("nodes listed %s != nodes alive %s (a node is in two child lists or lost)"
                            % (sorted(seen), sorted(self.obj)))
        return out, problems


def sort_forest(f):
    return sorted(f, key=lambda n: n["id"])


def build(world, spec, parent=None):
    """spec: dict like the dump format (without ids)."""
    from suds.sax.element import Element
    qn = spec["name"] if spec.get("pfx") is None else "%s:%s" % (spec["pfx"], spec["name"])
    e = Element(qn)
    if spec.get("expns") is not None:
        e.expns = spec["expns"]
    for k, v in spec.get("nsp", []):
        e.addPrefix(k, v)
    for pfx, n, v in spec.get("attrs", []):
        if spec.get("rawattrs"):
            from suds.sax.attribute import Attribute
            e.append(Attribute(n if pfx is None else "%s:%s" % (pfx, n), v))
        else:
            e.set(n if pfx is None else "%s:%s" % (pfx, n), v)
    if spec.get("text") is not None:
        e.setText(spec["text"])
    world.reg(e)
    for k in spec.get("kids", []):
        e.append(build(world, k, e))
    return e


def rand_spec(rng, depth, names=("item", "item", "a", "b")):
    pfx = rng.choice([None, None, "p", "q"])
    s = {"name": rng.choice(names), "pfx": pfx,
         "expns": rng.choice([None, None, None, "urn:d1", "urn:d2", "urn:d1", ""]),
         "nsp": [], "attrs": [], "text": rng.choice([None, None, "t", "", " x "]), "kids": []}
    for k in rng.sample(["p", "q", "r"], rng.randint(0, 2)):
        s["nsp"].append([k, rng.choice([U[k], U[k], "urn:other"])])
    used = set()
    for _ in range(rng.randint(0, 3)):
        ap = rng.choice([None, None, "p", "xml", "a"])
        an = rng.choice(["k", "k", "id", "a", "lang"])
        if (ap, an) in used or (any(an == u[1] for u in used) and rng.random() < 0.5):
            continue        # (a qualified and an unqualified attribute may share their local name: p:k and k)
        used.add((ap, an))
        s["attrs"].append([ap, an, rng.choice(["v", "", "p:x"])])
    if depth > 0:
        for _ in range(rng.choice([0, 1, 2, 3])):
            s["kids"].append(rand_spec(rng, depth - 1, names))
    return s


FIXED = {"name": "root", "pfx": None, "expns": None, "nsp": [["p", "urn:p"]], "attrs": [], "text": None, "kids": [
    {"name": "item", "pfx": None, "expns": None, "nsp": [], "attrs": [["", "k", "1"]][:0], "text": None, "kids": []},
    {"name": "item", "pfx": None, "expns": None, "nsp": [], "attrs": [[None, "k", "v"]], "text": None, "kids": [
        {"name": "x", "pfx": "p", "expns": None, "nsp": [], "attrs": [], "text": "t", "kids": []}]},
    {"name": "item", "pfx": None, "expns": None, "nsp": [], "attrs": [], "text": "t3", "kids": []},
    {"name": "item", "pfx": "p", "expns": None, "nsp": [], "attrs": [], "text": None, "kids": [
        {"name": "item", "pfx": None, "expns": "urn:d1", "nsp": [], "attrs": [], "text": None, "kids": []}]},
]}


def contains(e, x):
    return e is x or any(contains(c, x) for c in e.children)


def candidate_ops(world, rng=None, lookups=True):
    """All operations of the alphabet applicable in the current state (bounded argument sets)."""
    ops = []
    nodes = sorted(world.obj)
    for n in nodes:
        e = world.obj[n]
        ops.append({"op": "detach", "n": n})
        ops.append({"op": "prune", "n": n})
        ops.append({"op": "detachChildren", "n": n})
        for c in nodes:
            ce = world.obj[c]
            if ce.parent is None and not contains(ce, e):
                ops.append({"op": "append", "n": n, "c": c})
                ops.append({"op": "insert", "n": n, "c": c, "idx": 0})
                ops.append({"op": "insert", "n": n, "c": c, "idx": 1})
        for ce in e.children:
            c = world.idof(ce)
            others = [m for m in nodes if m != n and not contains(world.obj[m], e)]
            ops.append({"op": "replaceChild", "n": n, "c": c, "content": []})
            for m in others[:6]:
                ops.append({"op": "replaceChild", "n": n, "c": c, "content": [m]})
            if len(others) >= 2:
                ops.append({"op": "replaceChild", "n": n, "c": c, "content": others[:2]})
                ops.append({"op": "replaceChild", "n": n, "c": c, "content": [others[-1], others[0]]})
        ops.append({"op": "set", "n": n, "name": "k", "value": "new"})
        ops.append({"op": "set", "n": n, "name": "p:k", "value": "pv"})
        ops.append({"op": "unset", "n": n, "name": "k"})
        ops.append({"op": "setText", "n": n, "value": "T"})
        ops.append({"op": "rename", "n": n, "name": "q:item"})
        ops.append({"op": "rename", "n": n, "name": "item"})
        ops.append({"op": "setPrefix", "n": n, "p": "q", "u": "urn:q"})
        ops.append({"op": "setPrefix", "n": n, "p": None, "u": None})
        ops.append({"op": "clone", "n": n})
        if lookups:
            ops.append({"op": "getChild", "n": n, "name": "item"})
            ops.append({"op": "getChild", "n": n, "name": "p:item"})
            ops.append({"op": "getChildren", "n": n, "name": "item"})
            ops.append({"op": "getChildren", "n": n, "name": None})
            ops.append({"op": "getChildren", "n": n, "name": "p:x"})
            ops.append({"op": "childAtPath", "n": n, "path": "item/x"})
            ops.append({"op": "childAtPath", "n": n, "path": "item/p:x"})
            ops.append({"op": "childAtPath", "n": n, "path": "/item//item/"})
            for cpath in ("item/x", "item/item", "/item/", "item/p:x", "q:item/x", "x/item", "nosuch/item", "item/nosuch/x",
                          "p:x", "item/item/item"):
                ops.append({"op": "childrenAtPath", "n": n, "path": cpath})
            for ce in e.children[:2]:
                for ge in ce.children[:2]:
                    for gp in {ge.prefix, "p", "q"}:
                        path = ce.name + "/" + (ge.name if gp is None else "%s:%s" % (gp, ge.name))
                        ops.append({"op": "childAtPath", "n": n, "path": path})
                        if ce.prefix is not None:
                            ops.append({"op": "childAtPath", "n": n, "path": "%s:%s" % (ce.prefix, path)})
            ops.append({"op": "getAttribute", "n": n, "name": "k"})
            ops.append({"op": "getAttribute", "n": n, "name": "p:k"})
    # a replaceChild on a node that is not a child
    if len(nodes) >= 2:
        ops.append({"op": "replaceChild", "n": nodes[0], "c": nodes[0], "content": []})
    return ops


def apply_real(world, op):
    """Apply one op to the real objects; returns the observation (ids) and updates `op` for clone."""
    e = world.obj[op["n"]]
    k = op["op"]
    if k == "detach":
        e.detach()
    elif k == "append":
        e.append(world.obj[op["c"]])
    elif k == "insert":
        e.insert(world.obj[op["c"]], op["idx"])
    elif k == "detachChildren":
        e.detachChildren()
    elif k == "prune":
        e.prune()
        # pruned nodes are discarded (their stale parent pointer is all that is left of them)
        alive = set()

        def walk(x):
            alive.add(id(x))
            for y in x.children:
                walk(y)
        for r in list(world.obj.values()):
            if r.parent is None:
                walk(r)
        for i in [i for i, x in world.obj.items() if id(x) not in alive]:
            del world.ident[id(world.obj[i])]
            del world.obj[i]
    elif k == "replaceChild":
        content = [world.obj[m] for m in op["content"]]
        try:
            e.replaceChild(world.obj[op["c"]], content if len(content) != 1 else content[0])
        except Exception as x:
            return str(x)
    elif k == "set":
        e.set(op["name"], op["value"])
    elif k == "unset":
        e.unset(op["name"])
    elif k == "setText":
        e.setText(op["value"])
    elif k == "rename":
        e.rename(op["name"])
    elif k == "setPrefix":
        e.setPrefix(op["p"], op["u"])
    elif k == "clone":
        op["next"] = world.next
        c = e.clone()

        def reg(x):
            world.reg(x)
            for y in x.children:
                reg(y)
        reg(c)
    elif k == "getChild":
        r = e.getChild(op["name"])
        return None if r is None else world.idof(r)
    elif k == "getChildren":
        return [world.idof(r) for r in e.getChildren(op["name"])]
    elif k == "childAtPath":
        r = e.childAtPath(op["path"])
        return None if r is None else world.idof(r)
    elif k == "childrenAtPath":
        return [world.idof(r) for r in e.childrenAtPath(op["path"])]
    elif k == "getAttribute":
        r = e.getAttribute(op["name"])
        if r is None:
            return None
        return [i for i, a in enumerate(e.attributes) if a is r][0]
    return None


def has_same_named_sibling(world, n):
    e = world.obj.get(n)
    if e is None or e.parent is None:
        return False
    return sum(1 for c in e.parent.children if c.name == e.name) > 1


def run_history(ctx, spec_roots, choose, length, label):
    """choose(world, step) -> op or None. Runs real + model, compares after every step."""
    world = World()
    for s in spec_roots:
        build(world, s)
    f0, problems = world.dump()
    ops, real_states, observations = [], [], []
    nontrivial = False
    for step in range(length):
        op = choose(world, step)
        if op is None:
            break
        op = dict(op)
        if op["op"] in ("detach", "replaceChild", "prune") and (
                has_same_named_sibling(world, op.get("c", op["n"])) or op["op"] == "prune"):
            nontrivial = True
        try:
            with watchdog(10):
                obs = apply_real(world, op)
                st, prob = world.dump()
        except NoTermination:
            # an edit (or reading the tree after it) loops forever: the links have become cyclic
            ctx.fail("a tree operation does not terminate (cyclic parent / children links)",
                     {"forest": f0, "ops": ops + [op]}, "no result within 10 s", "the operation's result")
            break
        ops.append(op)
        real_states.append((st, prob))
        observations.append(obs)
        ctx.dist["op=" + op["op"]] += 1
    return {"forest": f0, "ops": ops, "real": real_states, "obs": observations, "nontrivial": nontrivial,
            "label": label}


class NoTermination(Exception):
    pass


class watchdog:
    """Turn a non-terminating pure-Python operation into an exception (main thread, SIGALRM)."""

    def __init__(self, seconds):
        self.seconds = seconds

    def __enter__(self):
        import signal

        def onalarm(signum, frame):
            raise NoTermination()
        self.old = signal.signal(signal.SIGALRM, onalarm)
        signal.setitimer(signal.ITIMER_REAL, self.seconds)

    def __exit__(self, *a):
        import signal
        signal.setitimer(signal.ITIMER_REAL, 0)
        signal.signal(signal.SIGALRM, self.old)
        return False


def judge(ctx, runs):
    reqs = [{"op": "edit.run", "forest": r["forest"], "ops": r["ops"]} for r in runs]
    answers = ctx.driver.ask(reqs)
    for r, ans in zip(runs, answers):
        inp = {"forest": r["forest"], "ops": r["ops"]}
        ctx.case(common.digest(inp), r["nontrivial"])
        for k, ((st, prob), obs) in enumerate(zip(r["real"], r["obs"])):
            if prob:
                ctx.fail("tree links inconsistent after step %d" % k, inp, prob, "consistent parent/children links")
                break
            if ans is None:
                continue
            m = ans[k]
            ok = sort_forest(m["forest"]) == sort_forest(st) and m["obs"] == obs
            if ok:
                ctx.agree("element-edits")
            else:
                ctx.disagree("element-edits", {"forest": r["forest"], "ops": r["ops"][:k + 1]},
                             {"forest": sort_forest(st), "obs": obs},
                             {"forest": sort_forest(m["forest"]), "obs": m["obs"]})
                # the model *is* the by-identity reference tree of the property
                ctx.fail("edit result differs from the by-identity reference tree at step %d (%s)"
                         % (k, r["ops"][k]["op"]), {"forest": r["forest"], "ops": r["ops"][:k + 1]},
                         {"forest": sort_forest(st), "obs": obs},
                         {"forest": sort_forest(m["forest"]), "obs": m["obs"]})
                break


def clone_checks(ctx):
    """clone: equal and independent (same serialisation, no shared nodes, edits do not leak)."""
    rng = ctx.rng
    for _ in range(ctx.pick(150, 3000)):
        world = World()
        root = build(world, rand_spec(rng, 3))
        nodes = sorted(world.obj)
        if rng.random() < 0.4:
            # attributes without a value (None is not the empty string)
            from suds.sax.attribute import Attribute
            for m in rng.sample(nodes, min(len(nodes), 2)):
                world.obj[m].append(Attribute(rng.choice(["nv", "p:nv"])))
        n = rng.choice(nodes)
        e = world.obj[n]
        before = root.plain()
        c = e.clone()
        sub_before = e.plain()
        inp = {"tree": world.dump()[0], "clone": n}
        ctx.case(common.digest(inp), bool(e.children) or e.text is not None)

        def shape(x):
            return (x.name, x.namespace()[1], None if x.text is None else str(x.text),
                    sorted(((a.name, a.namespace()[1], None if a.value is None else str(a.value)) for a in x.attributes),
                           key=lambda t: (t[0], t[1] or "", t[2] or "")),
                    [shape(y) for y in x.children])
        if shape(c) != shape(e):
            def bound_inside(x, top, prefix):
                while x is not None:
                    if prefix in x.nsprefixes or prefix == "xml":
                        return True
                    if x is top:
                        return False
                    x = x.parent
                return False

            def masked(x, o, top):
                # o: the original node corresponding to x (same position); namespaces of attributes whose
                # prefix is bound only above the cloned node are masked
                return (x.name, x.namespace()[1], None if x.text is None else str(x.text),
                        sorted(((a.name, a.namespace()[1] if (oa.prefix is None or bound_inside(o, top, oa.prefix)) else "*",
                                 None if a.value is None else str(a.value)) for a, oa in zip(x.attributes, o.attributes)),
                               key=lambda t: (t[0], t[1] or "", t[2] or "")),
                        [masked(y, oy, top) for y, oy in zip(x.children, o.children)])
            same_shape = len(c.children) == len(e.children)
            ctx.fail("clone is not equal to the original (names, namespaces, attributes, text, children)", inp,
                     repr(shape(c)), repr(shape(e)),
                     masked_equal=bool(same_shape and masked(c, e, e) == masked(e, e, e)))
        orig_ids = set()

        def collect(x, acc):
            acc.add(id(x))
            for a in x.attributes:
                acc.add(id(a))
            for y in x.children:
                collect(y, acc)
        collect(e, orig_ids)
        cl = set()
        collect(c, cl)
        if orig_ids & cl:
            ctx.fail("clone shares nodes with the original", inp, len(orig_ids & cl), 0)
        # edit the clone everywhere: the original must not change
        def scribble(x):
            x.setText("ZZ")
            x.set("zz", "1")
            for a in x.attributes:
                a.setValue("Q")
            for y in list(x.children):
                scribble(y)
            if x.children:
                x.children[0].detach()
        scribble(c)
        if root.plain() != before or e.plain() != sub_before:
            ctx.fail("editing the clone changed the original", inp, root.plain(), before)


def equality_and_doctor(ctx):
    """(a) Element equality is by name and namespace URI, whatever prefix spells the namespace: a clone stays equal
    to its original after being re-prefixed for the same URI, and ==, in, index, count on child lists find such nodes.
    (b) the schema doctor (a plugin editing parsed trees) adds an import only when the schema has none for that
    namespace - wherever that import stands among the schema's children - and then leaves the tree as it was."""
    from suds.sax.element import Element
    from suds.sax.parser import Parser
    doc = ('<r xmlns:a="urn:n" xmlns:b="urn:n" xmlns:c="urn:other" xmlns="urn:n"><a:item/><b:item/><item/><c:item/>'
           '<x xmlns="">plain</x></r>')
    root = Parser().parse(string=doc.encode()).root()
    kids = root.children
    facts = {"a:item == b:item": kids[0] == kids[1], "a:item == default item": kids[0] == kids[2],
             "a:item != c:item": kids[0] != kids[3], "count": kids.count(kids[1]) == 3, "index": kids.index(kids[2]) == 0,
             "in": Element("item", ns=("z", "urn:n")) in kids, "not in": Element("item", ns=("z", "urn:zz")) not in kids}
    cl = kids[0].clone()
    facts["clone == original"] = cl == kids[0]
    cl.setPrefix("zz", "urn:n")
    facts["re-prefixed clone == original"] = cl == kids[0] and cl.namespace()[1] == "urn:n"
    ctx.case(("equality",), True)
    if not all(facts.values()):
        ctx.fail("element equality does not go by name and namespace URI", {"doc": doc},
                 sorted(k for k, v in facts.items() if not v), "all of: " + ", ".join(sorted(facts)))
    import suds.xsd.doctor as doctor
    XS = "http://www.w3.org/2001/XMLSchema"
    for lead in ("", "<xs:annotation/>", '<xs:include schemaLocation="i.xsd"/>',
                 '<xs:import namespace="urn:first"/><xs:annotation/>'):
        for present in (True, False):
            sch = ('<xs:schema xmlns:xs="%s" targetNamespace="urn:t">%s%s<xs:element name="e" type="xs:string"/></xs:schema>'
                   % (XS, lead, '<xs:import namespace="urn:want"/>' if present else ""))
            tree = Parser().parse(string=sch.encode()).root()
            before = tree.plain()
            imp = doctor.Import("urn:want")
            imp.apply(tree)
            meta = {"stream": "doctor", "before_import": lead, "import_present": present}
            ctx.case(common.canon(meta), True)
            n = len([c for c in tree.children if c.name == "import" and c.get("namespace") == "urn:want"])
            others = [c.plain() for c in tree.children if not (c.name == "import" and c.get("namespace") == "urn:want")]
            want_others = [c.plain() for c in Parser().parse(string=sch.encode()).root().children
                           if not (c.name == "import" and c.get("namespace") == "urn:want")]
            if n != 1 or others != want_others or (present and tree.plain() != before):
                ctx.fail("the schema doctor did not leave exactly one import for the namespace (tree otherwise "
                         "untouched)", meta, tree.plain(), before if present else "one added import")


def attribute_histories(ctx):
    """set / unset / getAttribute name exactly one attribute: nodes holding several attributes with one local name
    (k, p:k, q:k in every order; p and q bound to one URI or to two), every two-step history of set, unset and
    getAttribute over those names, compared after each step with the reference tree."""
    import itertools
    names = [None, "p", "q"]
    runs = []
    lists = [l for r in (2, 3) for l in itertools.permutations(names, r)]
    opsets = [(o, n) for o in ("set", "unset", "getAttribute") for n in ("k", "p:k", "q:k")]
    for attrs in lists:
        for quri in ("urn:p", "urn:q"):
            spec = {"name": "root", "pfx": None, "expns": None, "nsp": [["p", "urn:p"], ["q", quri]], "attrs": [],
                    "text": None, "kids": [
                        {"name": "n", "pfx": None, "expns": None, "nsp": [], "rawattrs": True,
                         "attrs": [[a, "k", "v%d" % i] for i, a in enumerate(attrs)] + [[None, "id", "1"]],
                         "text": None, "kids": []}]}
            seqs = list(itertools.product(opsets, repeat=2))
            if ctx.tier != "thorough":
                seqs = [x for x in seqs if x[0][0] != "getAttribute"]
            for seq in seqs:
                ops = [dict({"op": o, "n": 2, "name": n}, **({"value": "NEW"} if o == "set" else {})) for o, n in seq]
                it = iter(ops)
                runs.append(run_history(ctx, [spec], lambda world, step, it=it: next(it, None), 2, "attributes"))
    for r in runs:
        r["nontrivial"] = True
    judge(ctx, runs)


def doctor_rule_reused(ctx):
    """One ImportDoctor rule applied to several schemas (its normal use: a doctor sees every schema of a WSDL): every
    schema gets its own import element, and keeps it."""
    import suds.xsd.doctor as doctor
    from suds.sax.parser import Parser
    XS = "http://www.w3.org/2001/XMLSchema"
    trees = [Parser().parse(string=('<xs:schema xmlns:xs="%s" targetNamespace="urn:t%d"><xs:element name="e%d" '
                                    'type="xs:string"/></xs:schema>' % (XS, i, i)).encode()).root() for i in range(3)]
    for with_location in (False, True):
        rule = doctor.Import("urn:want", "http://x.invalid/want.xsd") if with_location else doctor.Import("urn:want")
        fresh = [t.clone() for t in trees]
        for t in fresh:
            rule.apply(t)
        meta = {"stream": "doctor-rule-reused", "location": with_location}
        ctx.case(common.canon(meta), True)
        facts = []
        for i, t in enumerate(fresh):
            imps = [c for c in t.children if c.name == "import"]
            facts.append([len(imps), all(c.parent is t for c in t.children), len(t.children),
                          imps[0].get("namespace") if imps else None])
        ids = [id(c) for t in fresh for c in t.children if c.name == "import"]
        if facts != [[1, True, 2, "urn:want"]] * 3 or len(set(ids)) != 3:
            ctx.fail("one doctor rule applied to several schemas does not give each its own import element", meta,
                     [facts, len(set(ids))], [[[1, True, 2, "urn:want"]] * 3, 3])


def imported_schema_tree(ctx):
    """wsdl.Import.import_schema attaches the imported schema document's tree to the importing WSDL's <types>: the
    tree arrives as it was parsed - a default namespace declared on the (prefixed) schema root still governs the
    unprefixed type references inside it."""
    xsd = ('<xs:schema xmlns:xs="http://www.w3.org/2001/XMLSchema" xmlns="urn:imp" targetNamespace="urn:imp" '
           'elementFormDefault="qualified"><xs:element name="f" type="T"/><xs:complexType name="T"><xs:sequence>'
           '<xs:element name="a" type="xs:string"/><xs:element name="u" type="U" minOccurs="0"/></xs:sequence>'
           '</xs:complexType><xs:complexType name="U"><xs:sequence><xs:element name="n" type="xs:int"/></xs:sequence>'
           '</xs:complexType></xs:schema>').encode()
    w = wsdlkit.wsdl_doc("", style="document", in_parts=[("p", "element", "i:f")]).decode()
    w = w.replace("<wsdl:types>", '<wsdl:import namespace="urn:imp" location="suds://imp.xsd"/><wsdl:types>', 1)
    # (the WSDL has a default namespace of its own: the one a reference without prefix falls to when the schema's goes)
    w = w.replace("<wsdl:definitions ", '<wsdl:definitions xmlns:i="urn:imp" xmlns="http://schemas.xmlsoap.org/wsdl/" ', 1)
    ctx.case(("import-schema-tree",), True)
    try:
        c = wsdlkit.client(w.encode(), extra_docs={"imp.xsd": xsd}, nosend=True)
        env = wsdlkit.envelope_bytes(c.service.f("va", {"n": 5}))
        fn = xmlread.find1(xmlread.find1(xmlread.parse(env), "Body"), "f")
        got = [list(fn["name"]), [[list(k["name"]), None if k["children"] else k.get("text"),
                                   [[list(g["name"]), g.get("text")] for g in k["children"]]]
                                  for k in fn["children"]]]
    except Exception as e:
        got = "%s: %s" % (type(e).__name__, str(e)[:200])
    want = [["urn:imp", "f"], [[["urn:imp", "a"], "va", []], [["urn:imp", "u"], None, [[["urn:imp", "n"], "5"]]]]]
    if got != want:
        ctx.fail("a schema document attached by wsdl:import does not mean what it meant as a document",
                 {"stream": "import-schema-tree"}, got, want)


def multiref_referrer_stays(ctx):
    """MultiRef.replace_references moves content into the referring node: the referring node itself stays the node it
    was - its name and namespace too, also when the independent element binds the referrer's prefix to something
    else for its own content."""
    from suds.bindings.multiref import MultiRef
    from suds.sax.parser import Parser
    doc = ('<e:Envelope xmlns:e="%s" xmlns:xsi="%s" xmlns:enc="%s"><e:Body><ns1:wrap xmlns:ns1="urn:a"><ns1:item href="#r"/>'
           '<ns1:item href="#r"/><plain href="#r"/></ns1:wrap><multiRef id="r" enc:root="0" xmlns:ns1="urn:b" '
           'xsi:type="ns1:T"><v>1</v></multiRef></e:Body></e:Envelope>' % (xmlread.ENV11, xmlread.XSI, xmlread.ENC)).encode()
    body = Parser().parse(string=doc).root().getChild("Body")
    ctx.case(("multiref-referrer",), True)
    MultiRef().process(body)
    wrap = body.children[0] if body.children else None
    got = None if wrap is None else [[c.name, c.namespace()[1], [k.name for k in c.children],
                                     (c.getAttribute("type").getValue() if c.getAttribute("type") is not None else None),
                                     c.resolvePrefix("ns1")[1]] for c in wrap.children]
    want = [["item", "urn:a", ["v"], "ns1:T", None], ["item", "urn:a", ["v"], "ns1:T", None], ["plain", None, ["v"], "ns1:T", "urn:b"]]
    # (a referrer that uses the prefix for its own name cannot also take the binding over: reported per node as found)
    if got is None or [g[:4] for g in got] != [w_[:4] for w_ in want] or got[2][4] != "urn:b":
        ctx.fail("resolving a reference changed the referring node itself (name / namespace) or lost its content",
                 {"stream": "multiref-referrer"}, got, want)


def multiref_attributes_side_by_side(ctx):
    """The attributes of the referenced element are ADDED to the referring node: an attribute the referrer already has
    stays, also when the one that arrives shares its local name (another namespace) or is bound by a prefix only the
    referenced element declares."""
    from suds.bindings.multiref import MultiRef
    from suds.sax.parser import Parser
    doc = ('<e:Envelope xmlns:e="%s" xmlns:enc="%s"><e:Body><w xmlns:k="urn:k"><a type="own" k:mark="m" href="#r"/>'
           '<b href="#r" type="own-b">stale text of the referrer</b></w><multiRef id="r" enc:root="0" xmlns:q="urn:q" '
           'q:type="arrived" q:other="o" plain="p"><v>1</v></multiRef></e:Body></e:Envelope>'
           % (xmlread.ENV11, xmlread.ENC)).encode()
    body = Parser().parse(string=doc).root().getChild("Body")
    ctx.case(("multiref-attributes",), True)
    MultiRef().process(body)
    w_ = body.children[0] if body.children else None
    got = None if w_ is None else [sorted([a.namespace()[1] or "", a.name, str(a.value)] for a in c.attributes
                                          if a.name not in ("root",)) for c in w_.children]
    want = [sorted([["", "type", "own"], ["urn:k", "mark", "m"], ["urn:q", "type", "arrived"], ["urn:q", "other", "o"],
                    ["", "plain", "p"]]),
            sorted([["", "type", "own-b"], ["urn:q", "type", "arrived"], ["urn:q", "other", "o"], ["", "plain", "p"]])]
    if got != want:
        ctx.fail("resolving a reference changed the referring node itself (name / namespace) or lost its content",
                 {"stream": "multiref-attributes", "doc": doc.decode()}, got, want)
    # the referrer's content IS the referenced element's afterwards: text of its own that the referrer had is gone
    texts = None if w_ is None else [[c.name, None if c.getText() is None else str(c.getText()), [k.name for k in c.children]]
                                     for c in w_.children]
    if texts != [["a", None, ["v"]], ["b", None, ["v"]]]:
        ctx.fail("resolving a reference changed the referring node itself (name / namespace) or lost its content",
                 {"stream": "multiref-attributes", "doc": doc.decode(), "aspect": "text"}, texts,
                 [["a", None, ["v"]], ["b", None, ["v"]]])


def multiref_forward_chains(ctx):
    """The replacement is applied to every referring node - also to the ones that arrive inside copied content: a
    referrer whose target comes later in the body and itself refers on (the usual Axis layout: result first, then
    id0, id1, ... each pointing forward), to any depth, in either document order."""
    from suds.bindings.multiref import MultiRef
    from suds.sax.parser import Parser
    rng = ctx.rng
    for variant in ("forward", "backward", "shuffled"):
        depth = rng.randint(2, 5)
        blocks = []
        for i in range(depth):
            inner = '<v%d>%d</v%d>' % (i, i, i) + ('<next href="#id%d"/>' % (i + 1) if i + 1 < depth else '')
            blocks.append('<multiRef id="id%d" enc:root="0">%s</multiRef>' % (i, inner))
        if variant == "backward":
            blocks.reverse()
        elif variant == "shuffled":
            rng.shuffle(blocks)
        doc = ('<e:Envelope xmlns:e="%s" xmlns:enc="%s"><e:Body><r:resp xmlns:r="urn:a"><first href="#id0"/>'
               '<second href="#id%d"/></r:resp>%s</e:Body></e:Envelope>'
               % (xmlread.ENV11, xmlread.ENC, depth - 1, "".join(blocks))).encode()
        body = Parser().parse(string=doc).root().getChild("Body")
        ctx.case(("multiref-chain", variant, depth), True)
        MultiRef().process(body)

        def shape(n):
            return [n.name, (n.getText() or "").strip() or None, [shape(c) for c in n.children],
                    sorted(a.name for a in n.attributes if a.name in ("href", "id"))]

        def want_from(i):
            kids = [["v%d" % i, str(i), [], []]]
            if i + 1 < depth:
                kids.append(["next", None, want_from(i + 1), []])
            return kids
        want = [["resp", None, [["first", None, want_from(0), []], ["second", None, want_from(depth - 1), []]], []]]
        got = [shape(c) for c in body.children]
        if got != want:
            ctx.fail("a chain of references was not resolved at every referring node",
                     {"stream": "multiref-chain", "variant": variant, "doc": doc.decode()}, got, want)
        else:
            bad = []
            for top in body.children:
                for n in top.branch()[1:]:
                    if not any(k is n for k in n.parent.children):
                        bad.append(n.name)
            if bad:
                ctx.fail("copied content has parent links that do not match the children lists",
                         {"stream": "multiref-chain", "variant": variant, "doc": doc.decode()}, bad, [])


def aliased_nodes(ctx):
    """Edits go by the object given, also in states the element API lets a caller build that are not trees: a node
    appended under two parents (append does not detach), two attribute objects with one qualified name."""
    from suds.sax.element import Element
    from suds.sax.attribute import Attribute
    a, b, x, y = Element("a"), Element("b"), Element("x"), Element("y")
    a.append(x)
    a.append(y)
    b.append(x)                       # x is now listed by a and by b; its parent link says b
    ctx.case(("aliased", "detachChildren"), True)
    got = a.detachChildren()
    facts = [[id(n) for n in got] == [id(x), id(y)], a.children == [], [id(n) for n in b.children] == [id(x)]]
    if facts != [True, True, True]:
        ctx.fail("detachChildren did not detach exactly the children of the node it was called on", {"stream": "aliased"},
                 facts, [True, True, True])
    # a node that names a parent without being among its children (made with Element(name, parent), or left over by
    # prune()) is on its own after detach(): no parent, no inherited namespace
    par = Element("par", ns=(None, "urn:d"))
    orphan = Element("o", par)
    kid = Element("empty")
    par.append(kid)
    par.prune()
    ctx.case(("aliased", "detach-unlisted"), True)
    facts = []
    for n in (orphan, kid):
        n.detach()
        facts.append([n.parent is None, n.namespace()[1]])
    if facts != [[True, None], [True, None]] or par.children != []:
        ctx.fail("detach left a node attached to a parent that does not list it", {"stream": "aliased"}, facts,
                 [[True, None], [True, None]])
    e = Element("e")
    first, second, other = Attribute("k", "1"), Attribute("k", "2"), Attribute("p:k", "3")
    for at in (first, other, second):
        e.append(at)
    ctx.case(("aliased", "remove-attribute"), True)
    e.remove(second)
    left = [id(t) for t in e.attributes]
    if left != [id(first), id(other)]:
        ctx.fail("removing an attribute object removed another attribute with the same name", {"stream": "aliased"},
                 [str(t) for t in e.attributes], 'k="1" p:k="3"')


def document_lookups(ctx):
    """Lookups on a Document (getChild, getChildren, childAtPath, childrenAtPath) find what the same lookups find on
    an element that holds the document's root as its only child - the Element lookups being the modelled ones."""
    from suds.sax.document import Document
    from suds.sax.element import Element
    rng = ctx.rng
    for _ in range(ctx.pick(120, 2500)):
        world = World()
        root = build(world, rand_spec(rng, 2))
        for pfx, uri in (("p", U["p"]), ("q", rng.choice([U["q"], U["p"]]))):
            if rng.random() < 0.6 and pfx not in root.nsprefixes:
                root.addPrefix(pfx, uri)
        names = []
        for rp in {root.prefix, None, "p", "q"}:
            rn = root.name if rp is None else "%s:%s" % (rp, root.name)
            names.append(rn)
            for ce in root.children[:3]:
                for cp in {ce.prefix, None, "p"}:
                    cn = ce.name if cp is None else "%s:%s" % (cp, ce.name)
                    names.append("%s/%s" % (rn, cn))
                    names.append("/%s/%s" % (rn, cn))
        names.append("nosuch")
        names.append("p:nosuch/item")
        doc = Document(root)
        tree = world.dump()[0]
        for path in names:
            meta = {"tree": tree, "path": path}
            ctx.case(common.digest(meta), "/" in path or ":" in path)
            try:
                got = [doc.childAtPath(path), list(doc.childrenAtPath(path))]
                if "/" not in path:
                    got += [doc.getChild(path), list(doc.getChildren(path))]
            except Exception as e:
                got = "%s: %s" % (type(e).__name__, e)
            wrapper = Element("verif-wrapper")
            wrapper.nsprefixes = dict(root.nsprefixes)     # (a Document resolves the prefixes of a path at its root)
            wrapper.children.append(root)
            saved = root.parent
            root.parent = wrapper
            try:
                want = [wrapper.childAtPath(path), list(wrapper.childrenAtPath(path))]
                if "/" not in path:
                    want += [wrapper.getChild(path), list(wrapper.getChildren(path))]
            except Exception as e:
                want = "%s: %s" % (type(e).__name__, e)
            finally:
                root.parent = saved

            def ids(x):
                if isinstance(x, list):
                    return [ids(y) for y in x]
                return None if x is None else (world.idof(x) if isinstance(x, Element) else repr(x))
            if ids(got) != ids(want):
                ctx.fail("a lookup on a Document differs from the same lookup on an element holding its root", meta,
                         ids(got), ids(want))


def kf_clone_attr_ns(f, k):
    """D21: the clone differs only in the namespace of attributes whose prefix is bound above the cloned node."""
    return f.get("what", "").startswith("clone is not equal") and f.get("masked_equal") is True


CLASSIFIERS = {"c19_clone_outer_attr_prefix": kf_clone_attr_ns}


def run(ctx):
    rng = ctx.rng
    runs = []
    # corpus: the D1 witnesses
    def scripted(ops):
        it = iter(ops)
        return lambda world, step: next(it, None)
    runs.append(run_history(ctx, [FIXED], scripted([{"op": "detach", "n": 3}, {"op": "prune", "n": 1}]), 2, "corpus"))
    runs.append(run_history(ctx, [FIXED], scripted([{"op": "replaceChild", "n": 1, "c": 5, "content": [2]}]), 1, "corpus"))
    # exhaustive short histories over the fixed tree
    depth = ctx.pick(2, 3)
    w0 = World()
    build(w0, FIXED)
    first = candidate_ops(w0, lookups=False)
    count = 0
    budget = ctx.pick(6000, 120000)
    for op1 in first:
        # enumerate second-level ops in the state after op1
        w1 = World()
        build(w1, FIXED)
        o1 = dict(op1)
        apply_real(w1, o1)
        second = candidate_ops(w1, lookups=True)
        if depth == 2 or count > budget:
            picks = second
        else:
            picks = second
        for op2 in picks:
            if count > budget:
                break
            seq = [op1, op2]
            if depth == 3:
                seq.append(None)   # third step chosen at random among all candidates
            def choose(world, step, seq=seq):
                if step < len(seq) and seq[step] is not None:
                    return seq[step]
                if step < len(seq):
                    c = candidate_ops(world)
                    return rng.choice(c)
                return None
            runs.append(run_history(ctx, [FIXED], choose, len(seq), "exhaustive"))
            count += 1
    ctx.notes.append("fixed 7-node tree: %d first-step ops, %d two-step histories" % (len(first), count))
    judge(ctx, runs)
    runs = []
    # random trees, random histories
    for _ in range(ctx.pick(250, 6000)):
        specs = [rand_spec(rng, 3) for _ in range(rng.randint(1, 2))]
        L = rng.choice([5, 10, 25])

        def choose(world, step):
            if len(world.obj) > 40:
                return None
            c = candidate_ops(world)
            # bias towards structural edits
            s = [o for o in c if o["op"] in ("detach", "append", "insert", "replaceChild", "prune", "detachChildren",
                                              "clone")]
            pool = s if s and rng.random() < 0.6 else c
            return rng.choice(pool) if pool else None
        runs.append(run_history(ctx, specs, choose, L, "random"))
    judge(ctx, runs)
    clone_checks(ctx)
    equality_and_doctor(ctx)
    attribute_histories(ctx)
    doctor_rule_reused(ctx)
    aliased_nodes(ctx)
    imported_schema_tree(ctx)
    multiref_referrer_stays(ctx)
    multiref_forward_chains(ctx)
    multiref_attributes_side_by_side(ctx)
    document_lookups(ctx)
    if runs:
        ctx.sample({"forest": runs[0]["forest"], "ops": runs[0]["ops"][:4]})
    ctx.sample({"forest": [FIXED], "ops": [{"op": "detach", "n": 3}, {"op": "prune", "n": 1}]})


def widen(ctx):
    ctx.tier = "thorough"
    run(ctx)


def witness(ctx, k):
    w = k["witness"]
    if w.get("kind") == "children-at-path":
        from suds.sax.parser import Parser
        root = Parser().parse(string=b'<r xmlns:p="urn:p" xmlns:q="urn:q"><a><p:x/><q:x/><x/></a></r>').root()
        got = [[str(c.qname()) for c in root.childrenAtPath(pth)] for pth in ("a/p:x", "/a/", "zz/x")]
        return got != [["p:x"], ["a"], []]
    if w.get("kind") == "clone-text":
        from suds.sax.element import Element
        return Element("x").setText("hello").clone().getText() != "hello"
    if "clone_xml" in w:
        from suds.sax.parser import Parser
        root = Parser().parse(string=w["clone_xml"].encode()).root()
        e = root.children[0]
        c = e.clone()
        return c.attributes[0].namespace()[1] != e.attributes[0].namespace()[1]
    r = run_history(ctx, w["forest"], (lambda it: (lambda world, step: next(it, None)))(iter(w["ops"])),
                    len(w["ops"]), "witness")
    c2 = common.Ctx(ctx.prop_id, "quick", 0, ctx.driver, [])
    judge(c2, [r])
    return bool(c2.failures)


def replay(ctx, payload):
    f = payload.get("failure") or {}
    inp = f.get("input") or {}
    if "forest" in inp and "ops" in inp:
        it = iter(inp["ops"])
        r = run_history(ctx, inp["forest"], lambda world, step: next(it, None), len(inp["ops"]), "replay")
        judge(ctx, [r])
        return {"fails": bool(ctx.failures), "failures": ctx.failures[:2]}
    return {"fails": bool(f), "recorded": f}
