"""C14 - Options hold what was set, reject invalid values, and stay private to a client."""
import itertools

from harness import common, wsdlkit, xmlread

ID = "C14"
LEAN_MODULES = ["SudsModel.Props.C14"]
RULE = ("histories over {constructor kwargs, set valid / wrong type / None / unknown name through client.options, "
        "set_options and transport.options, replace transport, transport=None, clone, set on clone, set on transport} "
        "over EVERY option of both domains; after every step every option is read through every client's options "
        "and every transport's options and compared with the model; exhaustive to length 2 over a representative "
        "option per definition class (3 thorough), random to length 30; non-trivial = the history contains a "
        "rejected assignment, a transport replacement or a clone; distinct = distinct histories"
        ' ; plus: option names that look internal, transports attached again, several options in one set_options call, what the transport does with the proxy option (loopback servers)'
        " ; option sets built directly: suds.options.Options(**kw) and the transport's, value / None / wrong type / unknown name, transport given to the constructor"
        ' ; the credentials set on the client are the ones sent (empty strings included)'
        ' ; tuples among the wrong-typed values; a proxy named only by the environment; clone over a custom transport'
        ' ; values after real sends; the opener\'s time limit; private defaults'
        ' ; invocations through a clone; challenge credentials follow the client; documents fetched under the timeout option')
ASSUMPTIONS = ["object-valued options (cache, store, plugins...) are compared by class, transports by identity",
               "mutating a default container in place (shared mutable defaults) is outside the operation alphabet"]
PARTIAL = []
TRUSTED = []

WSDL = None


def wsdl():
    global WSDL
    if WSDL is None:
        WSDL = wsdlkit.wsdl_doc('<xsd:element name="f" type="xsd:string"/>', "f", None)
    return WSDL


class Sys:
    """Real clients/transports and the mirror list of model operations."""

    def __init__(self):
        self.nodes = []          # real Properties objects; index = model node id
        self.ops = []            # model ops
        self.clients = []        # (client, node id)
        self.transports = {}     # id(obj) -> (name, node id, obj)
        self.tcount = 0

    def reg_node(self, props, domain):
        self.nodes.append(props)
        self.ops.append({"op": "newnode", "domain": domain})
        return len(self.nodes) - 1

    def reg_transport(self, tr, emit=True):
        from suds.properties import Unskin
        self.tcount += 1
        name = "T%d" % self.tcount
        if emit:
            n = self.reg_node(Unskin(tr.options), "transport")
        else:
            self.nodes.append(Unskin(tr.options))
            n = len(self.nodes) - 1
        self.transports[id(tr)] = (name, n, tr)
        return name, n

    def canon(self, v):
        import suds.store
        if v is None:
            return "None"
        if isinstance(v, (bool, int, float, str, dict, list, tuple)):
            return repr(v)
        if id(v) in self.transports:
            return self.transports[id(v)][0]
        if v is suds.store.defaultDocumentStore:
            return "DocumentStore"
        if type(v).__name__ == "NoCache":
            return "NoCache()"
        return type(v).__name__

    def val(self, v):
        if v is None:
            return {"isNone": True, "isa": [], "repr": "None", "tnode": None}
        isa = [c.__name__ for c in type(v).__mro__]
        t = self.transports.get(id(v))
        return {"isNone": False, "isa": isa, "repr": self.canon(v), "tnode": t[1] if t else None}

    def new_client(self, kwargs):
        """Client(url, **kwargs) mirrored as the sequence of sets its constructor performs."""
        import suds.client
        import suds.cache
        from suds.properties import Unskin
        kw = dict(kwargs)
        kw.setdefault("documentStore", None)
        # mirror: Options(); options.transport = HttpAuthenticated(); set_options(**kwargs incl. cache)
        store = suds.store.DocumentStore()
        store.update({"main.wsdl": wsdl()})
        kw["documentStore"] = store
        if "cache" not in kw:
            kw["cache"] = None
        err = None
        try:
            c = suds.client.Client("suds://main.wsdl", **kw)
        except AttributeError as e:
            c, err = None, "AttributeError"
        return c, kw, err


def all_defs():
    import suds.options
    import suds.transport.options
    from suds.properties import Unskin
    co = Unskin(suds.options.Options()).definitions
    to = Unskin(suds.transport.options.Options()).definitions
    return list(co), list(to)


VALID = {
    "bool": [True, False], "service": [0, 1, "S1", True], "location": ["http://x.invalid/a"], "int": [0, 1, 7, True],
    "plugins": [[], ()], "soapheaders": ["h", 5, ("a", "b"), {"k": 1}], "timeout": [5, 2.5, True],
    "dict": [{"a": "b"}, {}], "str": ["u", ""],
}
INVALID = {
    "bool": ["yes", 5, 0, (), (True, False)], "service": [1.5, [], (0, 1)], "location": [5, b"x", ()], "int": ["1", 2.5, ()],
    "plugins": ["p", {}], "timeout": ["5", [], (1, 2)], "dict": [[], "d", ()], "str": [5, True, ("a", "b")],
    "obj": [5, "x", [], ()],
}


def value_pool(name):
    """(valid values, invalid values) for option `name`."""
    import suds.cache
    import suds.store
    import suds.wsse
    import suds.xsd.doctor
    boolean = ("extraArgumentErrors", "allowUnknownMessageParts", "faults", "xstq", "prefixes", "retxml", "prettyxml",
               "autoblend", "nosend", "unwrap", "sortNamespaces")
    if name in boolean:
        return VALID["bool"], INVALID["bool"]
    if name in ("service", "port"):
        return VALID["service"], INVALID["service"]
    if name == "location":
        return VALID["location"], INVALID["location"]
    if name == "cachingpolicy":
        return VALID["int"], INVALID["int"]
    if name == "plugins":
        return VALID["plugins"], INVALID["plugins"]
    if name == "soapheaders":
        return VALID["soapheaders"], []
    if name == "timeout":
        return VALID["timeout"], INVALID["timeout"]
    if name in ("proxy", "headers"):
        return VALID["dict"], INVALID["dict"]
    if name in ("username", "password"):
        return VALID["str"], INVALID["str"]
    if name == "cache":
        return [suds.cache.NoCache()], INVALID["obj"]
    if name == "documentStore":
        return [suds.store.DocumentStore()], INVALID["obj"]
    if name == "wsse":
        return [suds.wsse.Security()], INVALID["obj"]
    if name == "doctor":
        return [suds.xsd.doctor.Doctor()], INVALID["obj"]
    return [], []


def run_history(ctx, script):
    """script: list of abstract steps; executes on real objects and builds the model op list."""
    import suds.client
    import suds.store
    import suds.transport.http
    from suds.properties import Unskin
    S = Sys()
    cnames, tnames = all_defs()
    observed = []           # per step: result + full read-back

    def readback():
        out = {}
        for node, props in enumerate(S.nodes):
            vals = {}
            for nm in cnames + tnames + ["nosuch"]:
                try:
                    vals[nm] = S.canon(props.get(nm))
                except AttributeError:
                    vals[nm] = "AttributeError"
            out[str(node)] = vals
        return out

    def model_reads():
        return [{"op": "get", "node": n, "name": nm} for n in range(len(S.nodes))
                for nm in cnames + tnames + ["nosuch"]]

    steps_meta = []
    for st in script:
        kind = st["k"]
        res = "ok"
        start = len(S.ops)
        if kind == "client":
            # constructor: mirror the exact sequence of sets
            c, kw, err = S.new_client(st.get("kw", {}))
            cn = len(S.nodes)
            S.ops.append({"op": "newnode", "domain": "client"})
            S.nodes.append(None)
            tn = len(S.nodes)
            S.ops.append({"op": "newnode", "domain": "transport"})
            S.nodes.append(None)
            if c is not None:
                S.nodes[cn] = Unskin(c.options)
                S.clients.append((c, cn))
            # the default transport
            S.tcount += 1
            tname = "T%d" % S.tcount
            S.ops.append({"op": "set", "node": cn, "name": "transport",
                          "value": {"isNone": False, "isa": ["HttpAuthenticated", "HttpTransport", "Transport", "object"],
                                    "repr": tname, "tnode": tn}})
            ctor_transport = None
            for k, v in kw.items():
                S.ops.append({"op": "set", "node": cn, "name": k, "value": S.val(v)})
            if c is None:
                # construction failed: drop the placeholder nodes from comparison by filling dummies
                dummy = suds.client.Options() if hasattr(suds.client, "Options") else None
                from suds.options import Options
                o = Options()
                S.nodes[cn] = Unskin(o)
                S.nodes[tn] = Unskin(suds.transport.http.HttpTransport().options)
                res = err
                steps_meta.append((st, start, res, False))
                observed.append(None)     # states are not comparable after a failed constructor
                continue
            # which transport does the client hold now?
            cur = c.options.transport
            if "transport" in kw and kw["transport"] is not None and id(kw["transport"]) in S.transports:
                # default transport was replaced by a registered one; the default's node is orphaned
                S.nodes[tn] = Unskin(suds.transport.http.HttpTransport().options)
                steps_meta.append((st, start, res, False))
                observed.append(None)
                continue
            S.nodes[tn] = Unskin(cur.options) if cur is not None else Unskin(suds.transport.http.HttpTransport().options)
            if cur is not None:
                S.transports[id(cur)] = (tname, tn, cur)
        elif not S.clients:
            steps_meta.append((st, start, "skipped", True))
            observed.append("skip")
            continue
        elif kind in ("set", "set_options", "tset"):
            ci = st["c"] % max(1, len(S.clients))
            c, cn = S.clients[ci]
            name, v = st["name"], st["value"]
            if kind == "tset":
                tr = c.options.transport
                if tr is None:
                    steps_meta.append((st, start, "skipped", True))
                    observed.append("skip")
                    continue
                node = S.transports[id(tr)][1]
                target = tr.options
            else:
                node = cn
                target = c.options
            try:
                if kind == "set_options":
                    c.set_options(**{name: v})
                else:
                    setattr(target, name, v)
            except AttributeError:
                res = "AttributeError"
            except Exception as e:
                res = "LinkError" if "Duplicate" in str(e) or "Already linked" in str(e) else "other:" + repr(e)
            S.ops.append({"op": "set", "node": node, "name": name, "value": S.val(v)})
        elif kind == "newtransport":
            ci = st["c"] % max(1, len(S.clients))
            c, cn = S.clients[ci]
            tr = suds.transport.http.HttpTransport()
            tname, tn = S.reg_transport(tr)
            try:
                if st.get("via") == "set_options":
                    c.set_options(transport=tr)
                else:
                    c.options.transport = tr
            except Exception as e:
                res = "LinkError" if "Duplicate" in str(e) else "other:" + repr(e)
            S.ops.append({"op": "set", "node": cn, "name": "transport", "value": S.val(tr)})
        elif kind == "multi":
            # several options in ONE set_options call, a new transport among them: applied in the order given
            ci = st["c"] % max(1, len(S.clients))
            c, cn = S.clients[ci]
            tr = suds.transport.http.HttpTransport()
            tname, tn = S.reg_transport(tr)
            pairs = [("transport", tr), (st["name"], st["value"])]
            if st.get("transport_last") and c.options.transport is not None:
                # (without a transport attached the transport options are unknown names and the call stops there)
                pairs.reverse()
            try:
                c.set_options(**dict(pairs))
            except AttributeError:
                res = "AttributeError"
            except Exception as e:
                res = "LinkError" if "Duplicate" in str(e) or "Already linked" in str(e) else "other:" + repr(e)
            # one call applies its options in the order given and stops at the first one that fails
            applied = pairs
            if res != "ok":
                if pairs[0][0] == "transport":
                    applied = pairs[:1] if res == "LinkError" else pairs
                else:
                    applied = pairs if c.options.transport is tr else pairs[:1]
            for nm, v in applied:
                S.ops.append({"op": "set", "node": cn, "name": nm, "value": S.val(v)})
        elif kind == "oldtransport":
            # a transport object that exists already: detached earlier, attached to this or to another client
            ci = st["c"] % max(1, len(S.clients))
            c, cn = S.clients[ci]
            known = sorted(S.transports.values(), key=lambda x: x[1])
            if not known:
                steps_meta.append((st, start, "skipped", True))
                observed.append("skip")
                continue
            tr = known[st.get("which", 0) % len(known)][2]
            try:
                if st.get("via") == "set_options":
                    c.set_options(transport=tr)
                else:
                    c.options.transport = tr
            except Exception as e:
                res = "LinkError" if "Duplicate" in str(e) or "Already linked" in str(e) else "other:" + repr(e)
            S.ops.append({"op": "set", "node": cn, "name": "transport", "value": S.val(tr)})
        elif kind == "clone":
            ci = st["c"] % max(1, len(S.clients))
            c, cn = S.clients[ci]
            c2 = c.clone()
            new_cn = len(S.nodes)
            S.nodes.append(Unskin(c2.options))
            S.clients.append((c2, new_cn))
            tr2 = c2.options.transport
            fresh = "None"
            if tr2 is not None:
                S.tcount += 1
                fresh = "T%d" % S.tcount
                tn = len(S.nodes)
                S.nodes.append(Unskin(tr2.options))
                S.transports[id(tr2)] = (fresh, tn, tr2)
            S.ops.append({"op": "clone", "node": cn, "fresh": fresh})
            if tr2 is c.options.transport and tr2 is not None:
                res = "clone shares the transport object"
        steps_meta.append((st, start, res, True))
        observed.append(readback())
        S.ops.extend(model_reads())
    return S, steps_meta, observed, cnames + tnames + ["nosuch"]


PENDING = []


def judge(ctx, script, S, steps_meta, observed, names):
    PENDING.append((script, S, steps_meta, observed, names))
    if len(PENDING) >= 200:
        flush(ctx)


def flush(ctx):
    global PENDING
    batch, PENDING = PENDING, []
    answers = ctx.driver.ask([{"op": "opts.run", "ops": b[1].ops} for b in batch])
    for (script, S, steps_meta, observed, names), ans in zip(batch, answers):
        judge1(ctx, script, S, steps_meta, observed, names, ans)


def judge1(ctx, script, S, steps_meta, observed, names, ans):
    inp = {"script": [dict(s, value=repr(s.get("value")), kw=repr(s.get("kw"))) for s in script]}
    nontrivial = any(m[2] != "ok" or m[0]["k"] in ("clone", "newtransport") for m in steps_meta)
    ctx.case(common.digest(inp), nontrivial)
    if ans is None:
        return
    # walk the op list: results of mutating ops and the reads after each step
    pos = 0
    idx = 0
    for (st, start, res, comparable), obs in zip(steps_meta, observed):
        # find the model results of this step's ops: from `start` up to the reads
        if not comparable:
            return    # failed constructor: remaining states diverge by construction
        if obs == "skip":
            continue
        end = start
        while end < len(S.ops) and S.ops[end]["op"] != "get":
            end += 1
        mres = "ok"
        for r in ans[start:end]:
            if isinstance(r, str) and r not in ("ok",):
                mres = r
        nreads = len(obs) * len(names)
        reads = ans[end:end + nreads]
        k = 0
        mobs = {}
        for node in range(len(obs)):
            vals = {}
            for nm in names:
                r = reads[k]
                k += 1
                vals[nm] = r["value"] if isinstance(r, dict) else r
                if vals[nm] == "defaultDocumentStore":
                    vals[nm] = "DocumentStore"      # objects are compared by class (a deep copy is a new object)
            mobs[str(node)] = vals
        ctx.dist["step=" + st["k"]] += 1
        ctx.dist["result=" + res.split(":")[0]] += 1
        if res != mres or obs != mobs:
            diff = {n: {k2: (obs[n][k2], mobs[n][k2]) for k2 in obs[n] if obs[n][k2] != mobs.get(n, {}).get(k2)}
                    for n in obs if obs[n] != mobs.get(n)}
            ctx.disagree("options", dict(inp, upto=st), {"result": res, "diff(impl,model)": diff}, {"result": mres})
            ctx.fail("options differ from the map-based reference after step %r" % (dict(st, value=repr(st.get("value"))),),
                     inp, {"result": res, "diff(impl,reference)": diff}, {"result": mres})
            return
        ctx.agree("options")


# names no option has: ordinary ones and ones that look internal (leading underscores, other letter case)
UNKNOWN = ["nosuch", "_timeout", "__proxy", "_", "Timeout", "timeout_", "__faults"]


def gen_steps(rng, cnames, tnames, nclients):
    r = rng.random()
    c = rng.randrange(max(1, nclients))
    if r < 0.08:
        return {"k": "clone", "c": c}
    if r < 0.16:
        return {"k": "newtransport", "c": c, "via": rng.choice(["attr", "set_options"])}
    if r < 0.19:
        return {"k": "set", "c": c, "name": "transport", "value": None}
    if r < 0.27:
        return {"k": "oldtransport", "c": c, "which": rng.randrange(6), "via": rng.choice(["attr", "set_options"])}
    if r < 0.33:
        nm = rng.choice(["timeout", "proxy", "headers", "username", "faults", "location"])
        valid, _invalid = value_pool(nm)
        return {"k": "multi", "c": c, "name": nm, "value": rng.choice(valid + [None]), "transport_last": rng.random() < 0.5}
    name = rng.choice(cnames + tnames + tnames + ["nosuch"])
    if name == "transport":
        return {"k": "newtransport", "c": c}
    valid, invalid = value_pool(name)
    q = rng.random()
    if name == "nosuch":
        name = rng.choice(UNKNOWN)
        v = 1
    elif q < 0.55 and valid:
        v = rng.choice(valid)
    elif q < 0.75:
        v = None
    elif invalid:
        v = rng.choice(invalid)
    else:
        v = None
    kind = rng.choice(["set", "set_options", "tset"]) if name != "documentStore" else "set"
    return {"k": kind, "c": c, "name": name, "value": v}


def run(ctx):
    rng = ctx.rng
    cnames, tnames = all_defs()
    cnames = [n for n in cnames]
    # exhaustive short histories over representative options
    reps = [("faults", True), ("faults", "yes"), ("faults", None), ("timeout", 5), ("timeout", "5"),
            ("timeout", None), ("service", "S1"), ("headers", {"a": "b"}), ("nosuch", 1), ("plugins", ()), ("_timeout", 1),
            ("__proxy", {})]
    atoms = []
    for name, v in reps:
        for kind in ("set", "set_options", "tset"):
            atoms.append({"k": kind, "c": 0, "name": name, "value": v})
            atoms.append({"k": kind, "c": 1, "name": name, "value": v})
    atoms += [{"k": "clone", "c": 0}, {"k": "newtransport", "c": 0}, {"k": "newtransport", "c": 1},
              {"k": "oldtransport", "c": 0, "which": 0}, {"k": "oldtransport", "c": 1, "which": 0},
              {"k": "oldtransport", "c": 0, "which": 1},
              {"k": "multi", "c": 0, "name": "timeout", "value": 5, "transport_last": False},
              {"k": "multi", "c": 0, "name": "timeout", "value": 5, "transport_last": True},
              {"k": "multi", "c": 1, "name": "proxy", "value": {"http": "h:1"}, "transport_last": False},
              {"k": "set", "c": 0, "name": "transport", "value": None}]
    depth = ctx.pick(2, 3)
    count = 0
    budget = ctx.pick(4200, 20000)
    seqs = itertools.product(atoms, repeat=depth)
    for seq in seqs:
        if count >= budget:
            break
        if depth == 3 and rng.random() > budget / float(len(atoms) ** 3):
            continue
        script = [{"k": "client", "kw": {}}, {"k": "clone", "c": 0}] + [dict(s) for s in seq]
        S, meta, obs, names = run_history(ctx, script)
        judge(ctx, script, S, meta, obs, names)
        count += 1
    ctx.notes.append("%d short histories over %d atoms (depth %d)" % (count, len(atoms), depth))
    # constructor kwargs
    for _ in range(ctx.pick(40, 1000)):
        kw = {}
        for name in rng.sample(cnames + tnames, rng.randint(0, 4)):
            if name in ("documentStore", "transport", "cache"):
                continue
            valid, invalid = value_pool(name)
            pool = valid + [None] + (invalid if rng.random() < 0.15 else [])
            kw[name] = rng.choice(pool)
        script = [{"k": "client", "kw": kw}] + [gen_steps(rng, cnames, tnames, 1) for _ in range(3)]
        S, meta, obs, names = run_history(ctx, script)
        judge(ctx, script, S, meta, obs, names)
    # random long histories
    for _ in range(ctx.pick(150, 2000)):
        script = [{"k": "client", "kw": {}}]
        n = 1
        for _i in range(rng.choice([5, 12, 30])):
            st = gen_steps(rng, cnames, tnames, n)
            if st["k"] == "clone":
                n += 1
            if rng.random() < 0.04 and n < 4:
                st = {"k": "client", "kw": {}}
                n += 1
            script.append(st)
        S, meta, obs, names = run_history(ctx, script)
        judge(ctx, script, S, meta, obs, names)
    flush(ctx)
    transport_follows_options(ctx)
    values_after_sends_and_private_defaults(ctx)
    constructor_order(ctx)
    clone_behaviour(ctx)
    direct_options_objects(ctx)
    clone_over_custom_transport(ctx)
    clone_invocations_use_clone_options(ctx)
    ctx.sample({"script": [{"k": "client"}, {"k": "clone", "c": 0}, {"k": "tset", "c": 1, "name": "timeout", "value": 5},
                           {"k": "set", "c": 0, "name": "faults", "value": "yes"}]})


def direct_options_objects(ctx):
    """The option sets built directly - suds.options.Options(**kw), suds.transport.options.Options(**kw) - follow the
    same rules as the ones a client builds: a value reads back, None reads back as the default, a value of the wrong
    type or an unknown name raises AttributeError, and a transport given to the constructor is linked (its options
    are the ones the option set reads and writes)."""
    import suds.options
    import suds.transport.http
    import suds.transport.options
    from suds.properties import Unskin
    for label, cls in (("client", suds.options.Options), ("transport", suds.transport.options.Options)):
        defs = Unskin(cls()).definitions
        for name, d in defs.items():
            if name == "transport":
                continue
            valid, invalid = value_pool(name)
            cases = [("none", None, d.default)] + [("valid", v, v) for v in valid] + [("invalid", v, None) for v in invalid]
            for kind, v, want in cases:
                meta = {"stream": "direct-options", "domain": label, "option": name, "kind": kind, "value": repr(v)[:40]}
                ctx.case(common.canon(meta), True)
                try:
                    o = cls(**{name: v})
                    got = ["ok", getattr(o, name)]
                except AttributeError:
                    got = ["AttributeError"]
                except Exception as e:
                    got = ["other", repr(e)]
                if kind == "invalid":
                    if got != ["AttributeError"]:
                        ctx.fail("an option set built with a value of the wrong type does not raise AttributeError", meta,
                                 repr(got)[:200], "AttributeError")
                elif got[0] != "ok" or not (got[1] is want or got[1] == want or (
                        kind == "none" and type(got[1]) is type(want) and
                        not isinstance(want, (bool, int, float, str, tuple, list, dict, type(None))))):
                    ctx.fail("an option given to the option set's constructor does not read back (default after None)",
                             meta, repr(got)[:200], repr(want)[:200])
        try:
            cls(no_such_option=1)
            ctx.fail("an unknown option name given to the constructor is accepted", {"domain": label}, "accepted",
                     "AttributeError")
        except AttributeError:
            pass
    t = suds.transport.http.HttpTransport()
    o = suds.options.Options(transport=t)
    ctx.case(("direct-options", "transport-linked"), True)
    try:
        o.timeout = 7
        t.options.proxy = {"http": "p:1"}
        got = [t.options.timeout, o.proxy, o.transport is t]
    except Exception as e:
        got = repr(e)
    if got != [7, {"http": "p:1"}, True]:
        ctx.fail("a transport given to the option set's constructor is not linked to it", {"stream": "direct-options"},
                 repr(got), repr([7, {"http": "p:1"}, True]))


def kf_clone_binding_options(f, k):
    """D49: an option that acts inside the shared bindings (soapheaders, prefixes, xstq, wsse), set on a CLONE,
    is not used by the clone's requests - they are built with the ORIGINAL's value."""
    i = f.get("input") or {}
    return i.get("stream") == "clone-behaviour" and i.get("option") in ("soapheaders", "prefixes", "xstq", "wsse") and \
        f.get("observed") == "the original's value"


CLASSIFIERS = {"c14_clone_binding_options": kf_clone_binding_options}


def clone_uses_originals_binding_options():
    """D49 witness: True when a clone's request carries the original's soapheaders."""
    from harness.props import c15
    from suds.sax.element import Element

    def tok(t):
        e = Element("Token", ns=("auth", "urn:auth"))
        e.setText(t)
        return e
    c = wsdlkit.client(c15.wsdl_two_ops("http://h.invalid/x"), nosend=True, soapheaders=tok("ORIGINAL"))
    k = c.clone()
    k.set_options(soapheaders=tok("CLONE"))
    return b"CLONE" not in k.service.f().envelope


def clone_behaviour(ctx):
    """'Options of a clone and of its original are independent in both directions' - also in what the requests look
    like: every option set on one of the two decides that client's requests and leaves the other's alone."""
    from harness.props import c15
    from suds.sax.element import Element

    def tok(t):
        e = Element("Token", ns=("auth", "urn:auth"))
        e.setText(t)
        return e

    def shape(client):
        env = client.service.f().envelope
        root = xmlread.parse(env)
        toks = [n.get("text") for n in xmlread.walk(root) if n["name"] == ("urn:auth", "Token")]
        return {"soapheaders": toks[0] if toks else None, "prefixes": b"<ns" in env or b":f" in env,
                "prettyxml": b"\n" in env.split(b"?>", 1)[-1]}
    w = c15.wsdl_two_ops("http://h.invalid/x")
    settings = {"soapheaders": (tok("ORIGINAL"), tok("CLONE"), "ORIGINAL", "CLONE"), "prefixes": (True, False, True, False),
                "prettyxml": (False, True, False, True)}
    for name, (orig_v, clone_v, orig_shape, clone_shape) in settings.items():
        for who in ("clone", "original"):
            c = wsdlkit.client(w, nosend=True, **{name: orig_v})
            k = c.clone()
            (k if who == "clone" else c).set_options(**{name: clone_v})
            meta = {"stream": "clone-behaviour", "option": name, "changed_on": who}
            ctx.case(common.canon(meta), True)
            got_c, got_k = shape(c)[name], shape(k)[name]
            want_c, want_k = (orig_shape, clone_shape) if who == "clone" else (clone_shape, orig_shape)
            if got_k != want_k:
                ctx.fail("an option set on one of a client and its clone does not decide that client's requests",
                         dict(meta, request_of="clone"), "the original's value" if got_k == got_c else repr(got_k),
                         repr(want_k))
            if got_c != want_c:
                ctx.fail("an option set on one of a client and its clone does not decide that client's requests",
                         dict(meta, request_of="original"), "the clone's value" if got_c == got_k else repr(got_c),
                         repr(want_c))


def clone_invocations_use_clone_options(ctx):
    """What an invocation THROUGH the clone uses is the clone's: its endpoint, its headers, its nosend, its transport
    - and the original's invocations keep using the original's, whichever of the two was changed."""
    from harness.props import c15
    w = c15.wsdl_two_ops("http://wsdl.invalid/address")
    for who in ("clone", "original"):
        tr_o = wsdlkit.RecordingTransport(reply=None)
        c = wsdlkit.client(w, transport=tr_o, headers={"X-Who": "first"})
        k = c.clone()
        target = k if who == "clone" else c
        tr_n = wsdlkit.RecordingTransport(reply=None)
        target.set_options(transport=tr_n)         # (a replacement transport brings its own option values:
        target.set_options(location="http://changed.invalid/x", headers={"X-Who": "changed"})   # set afterwards)
        meta = {"stream": "clone-invocations", "changed_on": who}
        ctx.case(common.canon(meta), True)
        try:
            del tr_o.sent[:]
            c.service.f()
            k.service.g()
            seen = {}
            for label, tr in (("old-transport", tr_o), ("new-transport", tr_n)):
                seen[label] = [[s_["url"], s_["headers"].get("X-Who"), (s_["headers"].get("SOAPAction") or b"").decode()
                                if isinstance(s_["headers"].get("SOAPAction"), bytes) else s_["headers"].get("SOAPAction")]
                               for s_ in tr.sent]
        except Exception as e:
            seen = "%s: %s" % (type(e).__name__, e)
        changed = ["http://changed.invalid/x", "changed"]
        kept = ["http://wsdl.invalid/address", "first"]
        want = {"old-transport": [(kept if who == "clone" else None), (kept if who == "original" else None)],
                "new-transport": [(changed if who == "original" else None), (changed if who == "clone" else None)]}
        want = {"old-transport": [x + ['"urn:act:%s"' % op] for x, op in zip(want["old-transport"], "fg") if x],
                "new-transport": [x + ['"urn:act:%s"' % op] for x, op in zip(want["new-transport"], "fg") if x]}
        if seen != want:
            ctx.fail("an option set on one of a client and its clone does not decide that client's requests",
                     dict(meta, option="location/headers/transport"), seen, want)
        # nosend set on one of the two
        c2 = wsdlkit.client(w, transport=wsdlkit.RecordingTransport(reply=None))
        k2 = c2.clone()
        (k2 if who == "clone" else c2).set_options(nosend=True)
        ctx.case(common.canon(dict(meta, option="nosend")), True)
        try:
            got = [type(c2.service.f()).__name__, type(k2.service.f()).__name__]
        except Exception as e:
            got = "%s: %s" % (type(e).__name__, e)
        want2 = ["NoneType", "RequestContext"] if who == "clone" else ["RequestContext", "NoneType"]
        if got != want2:
            ctx.fail("an option set on one of a client and its clone does not decide that client's requests",
                     dict(meta, option="nosend"), got, want2)


def clone_over_custom_transport(ctx):
    """A client over a caller-written Transport subclass: the clone starts with the original's transport option
    values, the original keeps them, and afterwards each follows its own assignments."""
    import suds.transport
    from harness.props import c15

    class Mine(suds.transport.Transport):
        def open(self, request):
            raise AssertionError("no open")

        def send(self, request):
            return None
    w = c15.wsdl_two_ops("http://h.invalid/x")
    c = wsdlkit.client(w, transport=Mine())
    c.set_options(timeout=33, headers={"X-A": "1"})
    ctx.case(("clone-custom-transport",), True)
    try:
        k = c.clone()
        first = [c.options.timeout, k.options.timeout, c.options.headers, k.options.headers]
        k.set_options(timeout=44)
        c.options.transport.options.headers = {"X-B": "2"}
        second = [c.options.timeout, k.options.timeout, c.options.headers, k.options.headers]
    except Exception as e:
        first, second = repr(e), None
    want1 = [33, 33, {"X-A": "1"}, {"X-A": "1"}]
    want2 = [33, 44, {"X-B": "2"}, {"X-A": "1"}]
    if first != want1 or second != want2:
        ctx.fail("options of a clone and its original over a custom transport are not the original's values, "
                 "independent afterwards", {"stream": "clone-custom-transport"}, [first, second], [want1, want2])


def constructor_order(ctx):
    """The constructor applies its keyword options in the order given, exactly as the same sequence of set_options
    calls on a plain client would - a transport among them included, wherever it stands."""
    import suds.transport.http
    rng = ctx.rng
    pool = [("timeout", 7), ("username", "bob"), ("proxy", {"http": "h:1"}), ("faults", False), ("location", "http://l.invalid/")]
    for _ in range(ctx.pick(12, 120)):
        opts = rng.sample(pool, rng.randint(1, 3))
        pos = rng.randint(0, len(opts))
        names = [n for n, _v in opts]

        def build(how):
            tr = suds.transport.http.HttpTransport()
            seq = opts[:pos] + [("transport", tr)] + opts[pos:]
            if how == "constructor":
                c = wsdlkit.client(wsdl(), **dict(seq))
            else:
                c = wsdlkit.client(wsdl())
                for n, v in seq:
                    c.set_options(**{n: v})
            return [c.options.transport is tr] + [getattr(c.options, n) for n in names]
        meta = {"stream": "constructor-order", "options": names, "transport_at": pos}
        ctx.case(common.canon(meta), True)
        try:
            a = build("constructor")
        except Exception as e:
            a = "%s: %s" % (type(e).__name__, e)
        b = build("set_options")
        if a != b:
            ctx.fail("the constructor does not apply its options like the same sequence of set_options calls", meta,
                     repr(a), repr(b))


def values_after_sends_and_private_defaults(ctx):
    """Reading an option returns the last value assigned - also after requests were really sent under it; the timeout
    option is the time limit the transport's opener is given, to the fraction; and an option nobody assigned is a
    client's own too: content put into one client's (or transport's) default headers / proxy / plugins value is not
    seen by another client or transport."""
    import urllib.request
    import suds.transport.http
    from harness.props import c15
    rng = ctx.rng
    srv = c15.Server()
    try:
        srv.httpd.plan = lambda h: {"status": 200, "body": b""}
        w = wsdlkit.wsdl_doc('<xsd:element name="f"><xsd:complexType><xsd:sequence/></xsd:complexType></xsd:element>',
                             "f", None, location=srv.url("/svc"), action="urn:act")

        class Spy:
            def __init__(self):
                self.real = urllib.request.build_opener()
                self.timeouts = []

            def open(self, req, data=None, timeout=None):
                self.timeouts.append(timeout)
                return self.real.open(req, data, 5)

        # ---- headers / timeout read back as assigned after real sends, and the opener gets the timeout assigned
        for _ in range(ctx.pick(4, 40)):
            t = suds.transport.http.HttpTransport() if rng.random() < 0.5 else suds.transport.http.HttpAuthenticated(
                username="u", password="p")
            spy = t.urlopener = Spy()
            c = wsdlkit.client(w, transport=t)
            hist = []
            for step in range(rng.randint(2, 5)):
                hv = rng.choice([None, {}, {"X-A": "1"}, {"X-A": "2", "X-B": "b"}, {"SOAPAction": '"urn:mine"'},
                                 {"Content-Type": "application/soap+xml"}])
                tv = rng.choice([None, 2.5, 0.25, 7, 90.5, 1.999])
                given = None if hv is None else dict(hv)
                via = rng.choice(["set_options", "options", "transport.options"])
                if via == "set_options":
                    c.set_options(headers=given, timeout=tv)
                elif via == "options":
                    c.options.headers, c.options.timeout = given, tv
                else:
                    c.options.transport.options.headers, c.options.transport.options.timeout = given, tv
                hist.append([via, hv, tv])
                del spy.timeouts[:]
                del srv.httpd.seen[:]
                ctx.case(("after-sends", common.canon(hist)), True)
                try:
                    for _n in range(rng.randint(1, 2)):
                        c.service.f()
                    sent = srv.httpd.seen[-1] if srv.httpd.seen else None
                    # (documents are fetched under the same time limit as messages are sent)
                    c.options.transport.open(suds.transport.Request(srv.url("/doc.xsd"))).read()
                except Exception as e:
                    ctx.fail("a request under the configured options failed", {"stream": "after-sends", "history": hist},
                             repr(e), "a request")
                    break
                want_h, want_t = ({} if hv is None else hv), (90 if tv is None else tv)
                got = [c.options.headers, c.options.timeout, t.options.headers, t.options.timeout,
                       sorted(set(spy.timeouts), key=repr), given]
                want = [want_h, want_t, want_h, want_t, [want_t], hv]
                if got != want:
                    ctx.fail("an option does not read back as assigned after requests were sent, or the opener was "
                             "given another time limit than the timeout option", {"stream": "after-sends", "history": hist},
                             got, want)
                    break
                for k_, v_ in want_h.items():
                    if sent is None or c15.hdr(sent, k_) != [v_]:
                        ctx.fail("the headers option set on the client is not what its transport sends",
                                 {"stream": "after-sends", "history": hist, "header": k_},
                                 None if sent is None else c15.hdr(sent, k_), [v_])
        # ---- nobody's assignment: defaults are private
        for name, put in (("headers", lambda d: d.__setitem__("X-Leak", "1")), ("proxy", lambda d: d.__setitem__("ftp", "127.0.0.1:1")),
                          ("plugins", lambda d: d.append(object()))):
            for kind in ("client", "transport", "client-after-None"):
                def make():
                    if kind == "transport":
                        return suds.transport.http.HttpAuthenticated()
                    return wsdlkit.client(w, transport=suds.transport.http.HttpAuthenticated(username="u", password="p"))
                if kind == "transport" and name == "plugins":
                    continue
                a = make()
                if kind == "client-after-None":
                    setattr(a.options, name, None)
                ctx.case(("private-default", name, kind), True)
                put(getattr(a.options, name))
                if kind != "transport":
                    a.service.f()                 # (the library's own use of the value)
                b = make()
                got = [len(getattr(b.options, name)), len(getattr(a.options, name))]
                if kind != "transport":
                    del srv.httpd.seen[:]
                    b.service.f()
                    got.append(c15.hdr(srv.httpd.seen[-1], "X-Leak"))
                    want = [0, 1, []]
                else:
                    want = [0, 1]
                if got != want:
                    ctx.fail("content one client put into an option nobody assigned shows in another client's options",
                             {"stream": "private-default", "option": name, "kind": kind}, got, want)
        # the library's own sends leave an unassigned headers value empty, for this client and the next
        a = wsdlkit.client(w, transport=suds.transport.http.HttpAuthenticated(username="u", password="p"))
        a.service.f()
        a.options.transport.open(suds.transport.Request(srv.url("/doc")))
        b = wsdlkit.client(w, transport=suds.transport.http.HttpAuthenticated())
        ctx.case(("private-default", "library"), True)
        got = [a.options.headers, b.options.headers, b.options.transport.options.headers,
               suds.transport.http.HttpTransport().options.headers]
        if got != [{}, {}, {}, {}]:
            ctx.fail("an option does not read back as assigned after requests were sent, or the opener was "
                     "given another time limit than the timeout option", {"stream": "private-default", "kind": "library"}, got, [{}] * 4)
    finally:
        srv.close()


def transport_follows_options(ctx):
    """'transport options set on the client are the ones its transport uses': the proxy option, set through the
    client, the options object or the transport's own options, decides where each request goes - also when it is
    changed after requests were already sent, and for a transport that replaced the first one."""
    import suds.transport.http
    from harness.props import c15
    rng = ctx.rng
    origin, proxy_a, proxy_b = c15.Server(), c15.Server(), c15.Server()
    try:
        for srv in (origin, proxy_a, proxy_b):
            srv.httpd.plan = lambda h: {"status": 200, "body": b""}
        w = wsdlkit.wsdl_doc('<xsd:element name="f"><xsd:complexType><xsd:sequence/></xsd:complexType></xsd:element>',
                             "f", None, location=origin.url("/svc"))
        # (the process environment names a proxy too - proxy_b -: only the option counts)
        import os
        saved_env = {k_: os.environ.get(k_) for k_ in ("http_proxy", "HTTP_PROXY", "no_proxy", "NO_PROXY")}
        for k_ in saved_env:
            os.environ.pop(k_, None)
        os.environ["http_proxy"] = os.environ["HTTP_PROXY"] = "http://127.0.0.1:%d" % proxy_b.port
        for _ in range(ctx.pick(6, 60)):
            c = wsdlkit.client(w, transport=suds.transport.http.HttpTransport())
            hist = []
            for step in range(rng.randint(2, 5)):
                where = rng.choice(["origin", "a", "b"])
                value = {} if where == "origin" else {"http": "127.0.0.1:%d" % (proxy_a if where == "a" else proxy_b).port}
                via = rng.choice(["set_options", "options", "transport.options", "new-transport"])
                if via == "set_options":
                    c.set_options(proxy=value)
                elif via == "options":
                    c.options.proxy = value
                elif via == "transport.options":
                    c.options.transport.options.proxy = value
                else:
                    # a replacement transport brings its own option values; what is set on the client from then on
                    # is what the new transport uses
                    c.set_options(transport=suds.transport.http.HttpTransport())
                    c.set_options(proxy=value)
                hist.append([via, where])
                for srv in (origin, proxy_a, proxy_b):
                    del srv.httpd.seen[:]
                ctx.case(("proxy-follow", common.canon(hist)), True)
                try:
                    c.service.f()
                except Exception as e:
                    ctx.fail("a request under the configured proxy option failed", {"history": hist}, repr(e), "a request")
                    break
                got = "".join(n for n, srv in (("origin", origin), ("a", proxy_a), ("b", proxy_b)) if srv.httpd.seen)
                if got != where:
                    ctx.fail("the transport does not use the proxy option currently set on the client", {"history": hist},
                             got, where)
                    break
        for k_, v_ in saved_env.items():
            if v_ is None:
                os.environ.pop(k_, None)
            else:
                os.environ[k_] = v_
        # credentials: the username / password options set on the client are the ones its transport sends - the empty
        # string is a string (an account without password), not "unset"
        import base64
        for user, pw in (("u", "p"), ("", "p"), ("u", ""), ("", "")):
            c = wsdlkit.client(w, transport=suds.transport.http.HttpAuthenticated())      # (sends Basic credentials)
            c.set_options(username=user, password=pw)
            del origin.httpd.seen[:]
            meta = {"stream": "credentials-follow", "username": user, "password": pw}
            ctx.case(common.canon(meta), True)
            try:
                c.service.f()
                seen = origin.httpd.seen[-1] if origin.httpd.seen else None
                got = None if seen is None else c15.hdr(seen, "Authorization")
            except Exception as e:
                got = repr(e)
            want = ["Basic " + base64.b64encode(("%s:%s" % (user, pw)).encode()).decode()]
            if got != want:
                ctx.fail("the transport does not use the credentials currently set on the client", meta, got, want)
        # ... also for the transport that answers a server's challenge (transport.https), request after request
        import suds.transport.https

        def challenge(h):
            if h.headers.get("Authorization"):
                return {"status": 200, "body": b""}
            return {"status": 401, "body": b"<denied/>", "headers": [("WWW-Authenticate", 'Basic realm="r"')]}
        origin.httpd.plan = challenge
        c = wsdlkit.client(w, transport=suds.transport.https.HttpAuthenticated())
        hist = []
        for user, pw, via in (("u1", "p1", "set_options"), ("u2", "p2", "options"), ("u2", "p3", "transport.options"),
                              ("u4", "", "set_options")):
            if via == "set_options":
                c.set_options(username=user, password=pw)
            elif via == "options":
                c.options.username, c.options.password = user, pw
            else:
                c.options.transport.options.username, c.options.transport.options.password = user, pw
            hist.append([user, pw, via])
            del origin.httpd.seen[:]
            meta = {"stream": "credentials-follow/challenge", "history": list(hist)}
            ctx.case(common.canon(meta), True)
            try:
                c.service.f()
                got = c15.hdr(origin.httpd.seen[-1], "Authorization") if origin.httpd.seen else None
            except Exception as e:
                got = repr(e)
            want = ["Basic " + base64.b64encode(("%s:%s" % (user, pw)).encode()).decode()]
            if got != want:
                ctx.fail("the transport does not use the credentials currently set on the client", meta, got, want)
                break
        origin.httpd.plan = lambda h: {"status": 200, "body": b""}
    finally:
        for srv in (origin, proxy_a, proxy_b):
            srv.close()


def witness(ctx, k):
    if (k.get("witness") or {}).get("kind") == "clone-binding-options":
        return clone_uses_originals_binding_options()
    return None


def widen(ctx):
    ctx.tier = "thorough"
    run(ctx)


def replay(ctx, payload):
    return {"fails": bool(payload.get("failure")), "recorded": payload.get("failure"),
            "note": "histories hold live objects; re-run ./check C14 with the recorded seed to reproduce"}
