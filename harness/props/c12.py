"""C12 - Document graphs load completely, once, or not at all."""
import collections
import os
import random
import shutil
import tempfile

from harness import common, wsdlkit, xmlread
from harness import iface as IF, ifacecheck as K, schemamodel as SM, docgraph as DG

ID = "C12"
LEAN_MODULES = ["SudsModel.Props.C12"]
RULE = ("generated interfaces x one random rendering x a random partition into 1..8 documents (root WSDL; interface "
        "WSDL imported by wsdl:import; one or two schema documents per namespace reached by xsd:import with "
        "schemaLocation, by wsdl:import of the XSD, or by xsd:include incl. chameleon includes; import cycles between "
        "namespaces, diamonds, self-imports / self-includes, absolute and relative locations) x a random placement of "
        "each document in the document store (suds:// name or its http location) or behind the transport, plus "
        "unreachable decoy documents in both; every load is compared with the single-document form of the same "
        "rendering (operations, requests, decoded replies, factory objects) and its fetch log with the Lean loader "
        "model; then every transport fetch k of the clean load is made to fail (TransportError / ill-formed bytes) "
        "with cachingpolicy 0 and 1 over a fresh file cache, followed by a healthy retry on the same cache and a "
        "warm third load; non-trivial = partitions with > 1 document and every fault point; distinct = distinct "
        "(interface, partition, placement[, fault])"
        ' ; plus: documents held by the store under locations with query strings / fragments, one namespace split by an own-namespace import, a WSDL import followed by an XSD import (D47), a cap on repeated fetches'
        ' ; schema documents wsdl:imported by two WSDLs, a graph bringing its own copy of the SOAP encoding schema under an explicit schemaLocation'
        ' ; wsdl:import chains whose middle document has no types, wsdl:import cycles of two with the types in the document that is still loading, a global element and its type sharing one name across an include / same-namespace import'
        ' ; a global attribute sharing its name with an included global element'
        ' ; server-root-relative locations'
        ' ; one document store kept across loads; locations differing in case; one namespace in an inline block and a wsdl:import-ed document'
        ' ; imports that resolve to nothing; what an earlier load fetched'
        ' ; doctor imports; an inherited prefix across documents'
        ' ; a doctor filter naming the imported namespace')
ASSUMPTIONS = ["an out-of-line schema document refers only to out-of-line schema documents (it can name them by "
               "schemaLocation); an included part does not need declarations of its includer and namespaces on an "
               "import cycle are not split by includes (known finding D35 covers the excluded shape)",
               "relative references are not written inside suds:// documents (urljoin does not know that scheme)",
               "fetching one schema document once per Definitions that needs it (not once per load) is what the "
               "loader model says and is reported in the distribution, not judged"]
PARTIAL = [{"theorem": "partitioned load = single-document load", "missing": "schema construction from XML is not "
            "modelled; equivalence is decided by the differential comparison; the Lean part covers the traversal: "
            "termination on every graph, at-most-once per memo, only reachable documents, build order"}]
TRUSTED = ["iface.render_partitioned: that the partition describes the same interface as the single document"]
CLASSIFIERS = {}


def c12_included_needs_includer(f, k):
    """D35: the dedicated stream builds exactly the include shape; in the generated partitions only a missing type
    (TypeNotFound / BuildError) under an import cycle of three or more namespaces (each schema importing only what
    it uses) counts."""
    inp = f.get("input") or {}
    if inp.get("stream") == "included-needs-includer":
        return True
    if not inp.get("import_cycle3"):
        return False
    obs = repr(f.get("observed"))
    return "TypeNotFound" in obs or "BuildError" in obs


CLASSIFIERS["c12_included_needs_includer"] = c12_included_needs_includer


def build_case(ident):
    I = K.iface_of(ident)
    r = K.rendering_of("r:" + ident)
    schemas = IF.render_schemas(r, I)
    single = IF.render(r, I, schemas=schemas)
    rng = random.Random("part:" + ident)
    docs, root, plan, decoys = IF.render_partitioned(r, I, rng, schemas=schemas)
    bare = ('<xsd:import namespace="%s"/>' % IF.ENC).encode()
    if any(bare in d for d in docs.values()) and rng.random() < 0.5:
        # the graph brings its own copy of the SOAP encoding schema: an explicit schemaLocation names the document
        # to load, whatever suds has built in for that namespace
        import suds.store
        url = rng.choice(["http://docs.invalid/schemas/soapenc.xsd", "suds://soapenc.xsd", "http://docs.invalid/a/enc.xsd"])
        for u in list(docs):
            docs[u] = docs[u].replace(bare, ('<xsd:import namespace="%s" schemaLocation="%s"/>'
                                             % (IF.ENC, IF.relative_to(u, url, rng))).encode())
        docs[url] = suds.store.soap5_encoding_schema
        plan["own_soapenc"] = url
        plan["documents"] = sorted(docs)
    st, net = DG.place(docs, decoys, rng)
    return I, single, docs, root, plan, decoys, st, net


def load(root, st, net, fault_at=None, fault_kind=None, cache=None, policy=0, store=None):
    import suds.client
    # (a caller may keep one document store for all its clients: `store` is the one an earlier load used)
    store = store if store is not None else DG.RecordingStore(st)
    tr = DG.GraphTransport(net, fault_at, fault_kind)
    kw = {"documentStore": store, "transport": tr, "nosend": True, "cache": cache}
    if cache is not None:
        kw["cachingpolicy"] = policy
    try:
        client = suds.client.Client(root, **kw)
        err = None
    except RecursionError as e:
        client, err = None, "RecursionError: %s" % e
    except Exception as e:
        client, err = None, "%s: %s" % (type(e).__name__, str(e)[:200])
    return client, err, store, tr


def fingerprint(client, I, ident):
    """Observable behaviour of a client for interface I."""
    from harness.props import c07, c03
    fp = {"sd": sorted(c07.sd_fingerprint(client))}
    for op in I["ops"]:
        args = K.args_of(ident, I, op, 0)
        try:
            mism, env = K.check_request(client, I, op, args, "dict")
            root, kids = K.body_children(env)
            fp["req:" + op["name"]] = [SM.canon_node(k) for k in kids]
            if mism:
                fp["req-mismatch:" + op["name"]] = mism[:4]
        except Exception as e:
            fp["req:" + op["name"]] = "%s: %s" % (type(e).__name__, str(e)[:200])
        client.set_options(nosend=False)
        try:
            outvals = K.outvals_of(ident, I, op, 0)
            reply = IF.write_envelope(IF.plain_presentation(random.Random(0)), IF.spec_reply_nodes(I, op, outvals))
            fp["reply:" + op["name"]] = repr(K.decode_reply(client, op, reply))[:3000]
        except Exception as e:
            fp["reply:" + op["name"]] = "%s: %s" % (type(e).__name__, str(e)[:200])
        client.set_options(nosend=True)
    if not I.get("encoded"):
        for key in I["type_order"]:
            try:
                fp["type:" + key[1]] = repr(c03.reorder_attrs(K.normal(client.factory.create(K.type_name(I, key)))))[:2000]
            except Exception as e:
                fp["type:" + key[1]] = "%s: %s" % (type(e).__name__, str(e)[:200])
    return fp


# ------------------------------------------------------------------ the loader model's input

def web_of(docs, root):
    """Document graph as the loader model reads it (ids = index in sorted URL list)."""
    from urllib.parse import urljoin
    urls = sorted(docs)
    idx = {u: i for i, u in enumerate(urls)}

    def join(base, loc):
        return loc if "://" in loc else urljoin(base, loc)

    parsed = {u: xmlread.parse(docs[u]) for u in urls}
    xsd_edges, wsdl_edges, inline = {}, {}, {}

    def schema_refs(node, base):
        out = []
        for c in node["children"]:
            if c["name"][0] != xmlread.XSD:
                continue
            if c["name"][1] == "import" or c["name"][1] == "include":
                loc = c["attrs"].get((None, "schemaLocation"))
                tgt = idx.get(join(base, loc)) if loc else None
                out.append({"import": c["name"][1] == "import", "ns": c["attrs"].get((None, "namespace")) or "",
                            "target": tgt, "loc": loc})
        return out

    for u in urls:
        rootn = parsed[u]
        if rootn["name"][1] == "schema":
            xsd_edges[idx[u]] = [r["target"] for r in schema_refs(rootn, u) if r["target"] is not None]
    for u in urls:
        rootn = parsed[u]
        if rootn["name"][1] != "definitions":
            # a schema document pulled in by wsdl:import is loaded as a Definitions without content
            wsdl_edges.setdefault(idx[u], [])
            continue
        edges, blocks = [], []
        for c in rootn["children"]:
            if c["name"] == (IF.WSDLNS, "import"):
                t = join(u, c["attrs"][(None, "location")])
                if t in idx:
                    edges.append(idx[t])
        wsdl_edges[idx[u]] = edges
    # schema nodes each Definitions builds: the Types it holds when its imports are done whose owner has no schema
    # yet (Types.local()) - its own <types> content, the schema documents it wsdl:imports (attached to its own
    # <types>), and, in a wsdl:import cycle, the Types of documents that are still loading. The walk below is the
    # order of Definitions.__init__: children in document order, then the imports opened one by one with the memo.
    held, built, memo = {}, set(), set()

    def own_entries(u):
        rootn = parsed[u]
        out = []
        for c in rootn["children"]:
            if c["name"] == (IF.WSDLNS, "types"):
                for sn in c["children"]:
                    if sn["name"] == (xmlread.XSD, "schema"):
                        out.append((u, {"tns": sn["attrs"].get((None, "targetNamespace")) or "",
                                        "refs": schema_refs(sn, u)}))
        return out

    def load(u):
        memo.add(u)
        held[u] = own_entries(u)
        for c in parsed[u]["children"]:
            if c["name"] != (IF.WSDLNS, "import"):
                continue
            t = join(u, c["attrs"][(None, "location")])
            if t not in parsed:
                continue
            if parsed[t]["name"][1] == "schema":
                sn = parsed[t]
                held[u].append((u, {"tns": sn["attrs"].get((None, "targetNamespace")) or "", "refs": schema_refs(sn, t)}))
            else:
                if t not in memo:
                    load(t)
                held[u].extend(held.get(t, []))
        seen_blocks, blocks = [], []
        for owner, blk in held[u]:
            if owner not in built and not any(blk is x for x in seen_blocks):
                seen_blocks.append(blk)
                blocks.append(blk)
        inline[idx[u]] = blocks
        built.add(u)
    if parsed[root]["name"][1] == "definitions":
        load(root)
    for u in urls:
        if parsed[u]["name"][1] == "definitions":
            inline.setdefault(idx[u], [])
    return {"wsdl": [{"k": k, "deps": v} for k, v in sorted(wsdl_edges.items())],
            "xsd": [{"k": k, "deps": v} for k, v in sorted(xsd_edges.items())],
            "inline": [{"k": k, "blocks": [{"tns": b["tns"], "refs": [{"import": r["import"], "ns": r["ns"],
                                                                      "target": r["target"]} for r in b["refs"]]}
                                           for b in v]} for k, v in sorted(inline.items())],
            "root": idx[root]}, urls


def run(ctx):
    import suds.cache
    n_ifaces = ctx.pick(60, 2500)
    reqs, metas = [], []
    for i in range(n_ifaces):
        ident = "C12/%s/%d" % (ctx.seed, i) + ("/enc" if i % 6 == 5 else "")
        try:
            I, single, docs, root, plan, decoys, st, net = build_case(ident)
        except Exception as e:
            ctx.notes.append("generator failed for %s: %r" % (ident, e))
            continue
        meta = {"iface": ident, "documents": len(docs)}
        if plan.get("import_cycle3"):
            meta["import_cycle3"] = True
            ctx.dist["import cycle of >= 3 namespaces (minimal imports)"] += 1
        ctx.case(common.canon(meta), len(docs) > 1)
        ctx.dist["documents=%d" % len(docs)] += 1
        for b, pl in plan["blocks"].items():
            ctx.dist["block:" + (pl[0] if pl[0] == "inline" else pl[2])] += 1
        if plan["split_wsdl"]:
            ctx.dist["wsdl split by wsdl:import"] += 1
        if plan["self_import"]:
            ctx.dist["self import / include"] += 1
        base = K.make_client(single)
        ref_fp = fingerprint(base, I, ident)
        client, err, store, tr = load(root, st, net)
        if err is not None:
            ctx.fail("a partitioned WSDL does not load although its single-document form does", meta, err,
                     "the same client as the single document", plan=plan)
            continue
        # store before transport; only reachable documents
        for u in tr.opened:
            if u.split("://", 1)[1] in st:
                ctx.fail("the transport was asked for a document the store holds", meta, u, "store first")
            if u in decoys:
                ctx.fail("an unreachable document was fetched", meta, u, "only documents reachable from the root")
        for u in store.served:
            if u in decoys:
                ctx.fail("an unreachable document was fetched", meta, u, "only documents reachable from the root")
        counts = collections.Counter(store.asked)
        ctx.dist["max fetches of one document=%d" % max(counts.values(), default=0)] += 1
        if plan.get("wsdl_diamond"):
            ctx.dist["wsdl:import diamond"] += 1
        if plan.get("wsdl_chain"):
            ctx.dist["wsdl:import chain (middle document without types)"] += 1
        if plan.get("own_soapenc"):
            ctx.dist["graph brings its own SOAP encoding schema"] += 1
        # each Definitions document is fetched once, and builds its schema once with its own memo: no document
        # can be needed more often than once per Definitions (+ once as a Definitions itself)
        n_defs = sum(1 for u, dd in docs.items() if b"<wsdl:definitions" in dd[:400]) + \
            sum(1 for b_, pl in plan["blocks"].items() if pl[0] == "doc" and pl[2] == "wimport")
        for u, cnt in counts.items():
            if "schemas.xmlsoap.org/soap/encoding" in u:
                continue
            if cnt > n_defs + 1 or (n_defs == 1 and cnt > 1):
                ctx.fail("a document was fetched more often than once per schema build", meta, {u: cnt},
                         "at most %d" % (n_defs + 1), plan=plan)
        fp = fingerprint(client, I, ident)
        if fp != ref_fp:
            diff = sorted(k for k in set(fp) | set(ref_fp) if fp.get(k) != ref_fp.get(k))
            ctx.fail("the partitioned WSDL yields a different client than the single document", meta,
                     {k: fp.get(k) for k in diff[:3]}, {k: ref_fp.get(k) for k in diff[:3]}, plan=plan)
        try:
            web, urls = web_of(docs, root)
            reqs.append(dict(web, op="loader.fetches"))
            # the SOAP encoding schema is built into the document store (Import.bind): not a document of the graph
            metas.append((meta, sorted(u for u in store.asked if "schemas.xmlsoap.org/soap/encoding" not in u), urls))
        except Exception as e:
            ctx.notes.append("web_of failed for %s: %r" % (ident, e))
        faults(ctx, ident, I, root, st, net, tr, ref_fp, meta)
    for ans, (meta, asked, urls) in zip(ctx.driver.ask(reqs), metas):
        model = sorted(urls[i] for i in ans["all"]) if isinstance(ans, dict) and "all" in ans else ans
        ctx.compare("loader-fetches-model-vs-suds", meta, asked, model)
    for ans, (meta, cached, policy) in zip(ctx.driver.ask(model_reqs), model_metas):
        if policy != 0:
            continue        # with cachingpolicy 1 parsed documents are not cached at all (checked above: no WSDL either)
        model = sorted(e[0] for e in ans["cache"]) if isinstance(ans, dict) else ans
        ctx.compare("reader-cache-after-failure-model-vs-suds", meta, cached, model)
    del model_reqs[:], model_metas[:]
    included_needs_includer(ctx)
    store_and_split_namespace(ctx)
    locations_differing_in_case(ctx)
    unresolved_imports_and_earlier_loads(ctx)
    doctor_imports_and_inherited_prefixes(ctx)
    same_namespace_two_documents(ctx)
    wsdl_then_xsd_imports(ctx)
    same_name_element_and_type(ctx)
    relative_include_shapes(ctx)
    if metas:
        ctx.sample({"input": metas[0][0], "fetched": metas[0][1]})


def cached_documents(directory, urls):
    """Which of `urls` have a parsed-document entry in the cache directory."""
    import hashlib
    names = set(os.listdir(directory))
    out = []
    for u in dict.fromkeys(urls):
        try:
            h = hashlib.md5(u.encode(), usedforsecurity=False).hexdigest()
        except TypeError:
            h = hashlib.md5(u.encode()).hexdigest()
        if any(n.startswith("suds-%s-document" % h) for n in names):
            out.append(u)
    return out


model_reqs, model_metas = [], []


def faults(ctx, ident, I, root, st, net, clean_tr, ref_fp, meta0):
    import suds.cache
    n = len(clean_tr.opened)
    if n == 0:
        return
    points = list(range(1, n + 1))
    if ctx.quick and len(points) > 3:
        points = sorted(ctx.rng.sample(points, 3))
    for k in points:
        for kind in ("transport-error", "ill-formed"):
            for policy in (0, 1):
                if ctx.quick and ctx.rng.random() < 0.5:
                    continue
                meta = dict(meta0, fault_at=k, fault_kind=kind, cachingpolicy=policy)
                ctx.case(common.canon(meta), True)
                ctx.dist["fault:%s/policy%d" % (kind, policy)] += 1
                d = tempfile.mkdtemp(prefix="verif-c12-")
                try:
                    cache = suds.cache.ObjectCache(d)
                    client, err, store, tr = load(root, st, net, k, kind, cache, policy)
                    if tr.faulted is None:
                        # with a cache, repeated fetches of one document do not reach the transport: no k-th fetch
                        ctx.dist["fault point not reached (served from cache)"] += 1
                        continue
                    if err is None:
                        ctx.fail("construction succeeded although a document could not be fetched", meta,
                                 "client built", "an exception")
                        continue
                    failed = tr.faulted
                    # what the cache holds after the failed load, against the reader model
                    cached = cached_documents(d, store.asked)
                    cached_wsdl = [f_ for f_ in os.listdir(d) if f_.endswith("-wsdl.px")]
                    if cached_wsdl:
                        ctx.fail("a WSDL object was cached although its construction failed", meta, cached_wsdl, [])
                    order = []
                    for u in store.asked:
                        if u not in order:
                            order.append(u)
                    model_reqs.append({"op": "reader.openall", "cache": [], "urls": [order.index(u) for u in store.asked],
                                       "src": [{"u": i, "o": ("unreachable" if kind == "transport-error" else "illFormed")
                                                if u == failed else "doc", "d": i + 100} for i, u in enumerate(order)]})
                    model_metas.append((meta, sorted(order.index(u) for u in cached) if policy == 0 else [],
                                        policy))
                    # nothing incomplete cached: a later healthy load must behave like a clean first load
                    # (the caller's document store is the caller's: a load - failed or not - leaves in it what was in it)
                    if len(store) != len(DG.RecordingStore(st)):
                        ctx.fail("a load changed the content of the document store it was given", meta, len(store),
                                 len(DG.RecordingStore(st)))
                    client2, err2, store2, tr2 = load(root, st, net, None, None, suds.cache.ObjectCache(d), policy,
                                                      store=store if k % 2 else None)
                    if err2 is not None:
                        ctx.fail("a healthy retry after a failed load fails", meta, err2, "the clean client")
                        continue
                    if failed not in tr2.opened:
                        ctx.fail("the document whose fetch failed was not fetched again on retry (something was "
                                 "cached for it)", meta, tr2.opened, failed)
                    fp = fingerprint(client2, I, ident)
                    if fp != ref_fp:
                        diff = sorted(x for x in set(fp) | set(ref_fp) if fp.get(x) != ref_fp.get(x))
                        ctx.fail("the retry after a failed load yields a different client", meta,
                                 {x: fp.get(x) for x in diff[:3]}, {x: ref_fp.get(x) for x in diff[:3]})
                    # warm third load: served from the cache, same client again
                    client3, err3, store3, tr3 = load(root, st, net, None, None, suds.cache.ObjectCache(d), policy)
                    if err3 is not None:
                        ctx.fail("a load from the warm cache fails", meta, err3, "the clean client")
                        continue
                    if tr3.opened:
                        ctx.fail("a warm cache still goes to the transport", meta, tr3.opened, [])
                    fp3 = fingerprint(client3, I, ident)
                    if fp3 != ref_fp:
                        diff = sorted(x for x in set(fp3) | set(ref_fp) if fp3.get(x) != ref_fp.get(x))
                        ctx.fail("the client loaded from the warm cache differs", meta,
                                 {x: fp3.get(x) for x in diff[:3]}, {x: ref_fp.get(x) for x in diff[:3]})
                finally:
                    shutil.rmtree(d, ignore_errors=True)


D35_SCHEMA_MAIN = ('<xsd:schema xmlns:xsd="http://www.w3.org/2001/XMLSchema" xmlns:t="urn:t" targetNamespace="urn:t" '
                   'elementFormDefault="qualified"><xsd:include schemaLocation="http://docs.invalid/part.xsd"/>'
                   '<xsd:complexType name="Base"><xsd:sequence><xsd:element name="a" type="xsd:int"/></xsd:sequence>'
                   '</xsd:complexType><xsd:element name="f" type="t:Derived"/></xsd:schema>')
D35_PART = (b'<xsd:schema xmlns:xsd="http://www.w3.org/2001/XMLSchema" xmlns:t="urn:t" targetNamespace="urn:t" '
            b'elementFormDefault="qualified"><xsd:complexType name="Derived"><xsd:complexContent>'
            b'<xsd:extension base="t:Base"><xsd:sequence><xsd:element name="b" type="xsd:int"/></xsd:sequence>'
            b'</xsd:extension></xsd:complexContent></xsd:complexType></xsd:schema>')


def d35_load():
    w = ('<?xml version="1.0"?><wsdl:definitions targetNamespace="urn:w" xmlns:wsdl="%s" xmlns:w="urn:w" '
         'xmlns:t="urn:t" xmlns:soap="%s"><wsdl:types>%s</wsdl:types><wsdl:message name="fIn"><wsdl:part name="p" '
         'element="t:f"/></wsdl:message><wsdl:portType name="PT"><wsdl:operation name="f"><wsdl:input '
         'message="w:fIn"/></wsdl:operation></wsdl:portType><wsdl:binding name="B" type="w:PT"><soap:binding '
         'style="document" transport="http://schemas.xmlsoap.org/soap/http"/><wsdl:operation name="f">'
         '<soap:operation soapAction="f"/><wsdl:input><soap:body use="literal"/></wsdl:input></wsdl:operation>'
         '</wsdl:binding><wsdl:service name="S"><wsdl:port name="P" binding="w:B"><soap:address '
         'location="http://x.invalid/"/></wsdl:port></wsdl:service></wsdl:definitions>'
         % (IF.WSDLNS, IF.SOAPNS, D35_SCHEMA_MAIN)).encode()
    return load("http://docs.invalid/root.wsdl", {}, {"http://docs.invalid/root.wsdl": w,
                                                       "http://docs.invalid/part.xsd": D35_PART})


def relative_include_shapes(ctx):
    """One Definitions, schema documents linked by RELATIVE includes in a diamond and in a cycle: every
    document is fetched exactly once (schema_build_fetches_at_most_once) and the load terminates."""
    xs = 'xmlns:xsd="http://www.w3.org/2001/XMLSchema" xmlns:t="urn:t" targetNamespace="urn:t" elementFormDefault="qualified"'
    def doc(includes, body):
        return ('<xsd:schema %s>%s%s</xsd:schema>' % (xs, "".join('<xsd:include schemaLocation="%s"/>' % i
                                                                    for i in includes), body)).encode()
    base = "http://docs.invalid/s/"
    shapes = {
        "diamond": {"main.xsd": doc(["sub/a.xsd", "sub/b.xsd"], '<xsd:element name="f" type="t:C"/>'),
                    "sub/a.xsd": doc(["../common/c.xsd"], '<xsd:element name="a" type="t:C"/>'),
                    "sub/b.xsd": doc(["../common/c.xsd"], '<xsd:element name="b" type="t:C"/>'),
                    "common/c.xsd": doc([], '<xsd:complexType name="C"><xsd:sequence><xsd:element name="v" '
                                            'type="xsd:int"/></xsd:sequence></xsd:complexType>')},
        "cycle": {"main.xsd": doc(["sub/a.xsd"], '<xsd:element name="f" type="xsd:int"/>'),
                  "sub/a.xsd": doc(["b.xsd"], '<xsd:element name="a" type="xsd:int"/>'),
                  "sub/b.xsd": doc(["a.xsd", "../main.xsd"], '<xsd:element name="b" type="xsd:int"/>')},
    }
    for name, files in shapes.items():
        w = ('<?xml version="1.0"?><wsdl:definitions targetNamespace="urn:w" xmlns:wsdl="%s" xmlns:w="urn:w" '
             'xmlns:t="urn:t" xmlns:soap="%s"><wsdl:types><xsd:schema xmlns:xsd="http://www.w3.org/2001/XMLSchema" '
             'targetNamespace="urn:stub"><xsd:import namespace="urn:t" schemaLocation="s/main.xsd"/></xsd:schema>'
             '</wsdl:types><wsdl:message name="fIn"><wsdl:part name="p" element="t:f"/></wsdl:message>'
             '<wsdl:portType name="PT"><wsdl:operation name="f"><wsdl:input message="w:fIn"/></wsdl:operation>'
             '</wsdl:portType><wsdl:binding name="B" type="w:PT"><soap:binding style="document" '
             'transport="http://schemas.xmlsoap.org/soap/http"/><wsdl:operation name="f"><soap:operation '
             'soapAction="f"/><wsdl:input><soap:body use="literal"/></wsdl:input></wsdl:operation></wsdl:binding>'
             '<wsdl:service name="S"><wsdl:port name="P" binding="w:B"><soap:address location="http://x.invalid/"/>'
             '</wsdl:port></wsdl:service></wsdl:definitions>' % (IF.WSDLNS, IF.SOAPNS)).encode()
        net = {"http://docs.invalid/root.wsdl": w}
        net.update({base + k: v for k, v in files.items()})
        meta = {"stream": "relative-includes", "shape": name}
        ctx.case(common.canon(meta), True)
        client, err, store, tr = load("http://docs.invalid/root.wsdl", {}, net)
        if err is not None:
            ctx.fail("a graph of relative includes does not load", meta, err, "a client")
            continue
        counts = collections.Counter(tr.opened)
        if sorted(counts) != sorted(net) or any(c != 1 for c in counts.values()):
            ctx.fail("documents linked by relative includes are not fetched exactly once each", meta,
                     dict(counts), {u: 1 for u in net})


def store_and_split_namespace(ctx):
    """(a) documents the document store holds are served from it before the transport is asked - also under
    locations that carry a query string or a fragment (`...svc?wsdl`, `...svc?xsd=1`); (b) one namespace split over
    an embedded schema and a file it pulls in by an own-namespace xsd:import with a schemaLocation (some toolkits
    write that instead of xsd:include) still loads completely."""
    XS = "http://www.w3.org/2001/XMLSchema"
    part2 = ('<xsd:schema xmlns:xsd="%s" xmlns:t="urn:t" targetNamespace="urn:t" elementFormDefault="qualified">'
             '<xsd:complexType name="C"><xsd:sequence><xsd:element name="v" type="xsd:int"/></xsd:sequence>'
             '</xsd:complexType></xsd:schema>' % XS).encode()

    def wsdl(loc, how):
        link = '<xsd:%s %sschemaLocation="%s"/>' % (how, 'namespace="urn:t" ' if how == "import" else "", loc)
        return ('<?xml version="1.0"?><wsdl:definitions targetNamespace="urn:w" xmlns:wsdl="%s" xmlns:w="urn:w" '
                'xmlns:t="urn:t" xmlns:soap="%s"><wsdl:types><xsd:schema xmlns:xsd="%s" targetNamespace="urn:t" '
                'elementFormDefault="qualified">%s<xsd:element name="f" type="t:C"/></xsd:schema></wsdl:types>'
                '<wsdl:message name="fIn"><wsdl:part name="p" element="t:f"/></wsdl:message><wsdl:portType name="PT">'
                '<wsdl:operation name="f"><wsdl:input message="w:fIn"/></wsdl:operation></wsdl:portType>'
                '<wsdl:binding name="B" type="w:PT"><soap:binding style="document" '
                'transport="http://schemas.xmlsoap.org/soap/http"/><wsdl:operation name="f"><soap:operation '
                'soapAction="f"/><wsdl:input><soap:body use="literal"/></wsdl:input></wsdl:operation></wsdl:binding>'
                '<wsdl:service name="S"><wsdl:port name="P" binding="w:B"><soap:address location="http://x.invalid/"/>'
                '</wsdl:port></wsdl:service></wsdl:definitions>' % (IF.WSDLNS, IF.SOAPNS, XS, link)).encode()
    for how in ("include", "import"):
        for root_url, part_url in (("http://svc.invalid/a/svc?wsdl", "http://svc.invalid/a/svc?xsd=1"),
                                   ("http://svc.invalid/a/svc?wsdl=1", "http://svc.invalid/a/part2.xsd#frag"),
                                   ("http://svc.invalid/a/root.wsdl", "http://svc.invalid/a/part2.xsd")):
            for where in ("store", "transport"):
                docs = {root_url: wsdl(part_url, how), part_url: part2,
                        # decoys under the query-less locations: never the right documents
                        "http://svc.invalid/a/svc": b"<not-a-wsdl/>"}
                st = {u.split("://", 1)[1]: d for u, d in docs.items()} if where == "store" else {}
                net = {} if where == "store" else docs
                meta = {"stream": "store-and-split-namespace", "link": how, "root": root_url, "part": part_url,
                        "held_by": where}
                ctx.case(common.canon(meta), True)
                client, err, store, tr = load(root_url, st, net)
                if err is not None:
                    ctx.fail("a namespace split over two documents does not load", meta, err, "a client")
                    continue
                try:
                    obj = client.factory.create("{urn:t}C")
                    members = [k for k, _v in obj]
                except Exception as e:
                    members = repr(e)
                if members != ["v"]:
                    ctx.fail("the part of the namespace kept in the second document is missing", meta, members, ["v"])
                if where == "store" and tr.opened:
                    ctx.fail("documents held by the document store were asked of the transport", meta, tr.opened, [])
                if where == "transport" and sorted(tr.opened) != sorted([root_url, part_url]):
                    ctx.fail("the documents were not fetched exactly once each", meta, tr.opened, [root_url, part_url])


def locations_differing_in_case(ctx):
    """Two documents whose locations differ only in letter case (paths are case-sensitive) are two documents: each is
    fetched, cached and served as itself - cold, and again from the warm document cache."""
    import suds.cache
    XS = "http://www.w3.org/2001/XMLSchema"

    def xsd(ns, tname):
        return ('<xsd:schema xmlns:xsd="%s" targetNamespace="%s" elementFormDefault="qualified"><xsd:complexType name="%s">'
                '<xsd:sequence><xsd:element name="m%s" type="xsd:int"/></xsd:sequence></xsd:complexType></xsd:schema>'
                % (XS, ns, tname, tname)).encode()
    for u1, u2 in (("http://docs.invalid/s/Types.xsd", "http://docs.invalid/s/types.xsd"),
                   ("http://docs.invalid/S/t.xsd", "http://docs.invalid/s/t.xsd"),
                   ("http://docs.invalid/t.xsd?V=1", "http://docs.invalid/t.xsd?v=1")):
        root_url = "http://docs.invalid/root.wsdl"
        w = ('<?xml version="1.0"?><wsdl:definitions targetNamespace="urn:w" xmlns:wsdl="%s" xmlns:w="urn:w" '
             'xmlns:t="urn:t" xmlns:soap="%s"><wsdl:types><xsd:schema xmlns:xsd="%s" targetNamespace="urn:t" '
             'elementFormDefault="qualified"><xsd:import namespace="urn:one" schemaLocation="%s"/><xsd:import '
             'namespace="urn:two" schemaLocation="%s"/><xsd:element name="f" type="xsd:string"/></xsd:schema></wsdl:types>'
             '<wsdl:message name="fIn"><wsdl:part name="p" element="t:f"/></wsdl:message><wsdl:portType name="PT">'
             '<wsdl:operation name="f"><wsdl:input message="w:fIn"/></wsdl:operation></wsdl:portType>'
             '<wsdl:binding name="B" type="w:PT"><soap:binding style="document" '
             'transport="http://schemas.xmlsoap.org/soap/http"/><wsdl:operation name="f"><soap:operation '
             'soapAction="f"/><wsdl:input><soap:body use="literal"/></wsdl:input></wsdl:operation></wsdl:binding>'
             '<wsdl:service name="S"><wsdl:port name="P" binding="w:B"><soap:address location="http://x.invalid/"/>'
             '</wsdl:port></wsdl:service></wsdl:definitions>' % (IF.WSDLNS, IF.SOAPNS, XS, u1.replace("&", "&amp;"),
                                                                  u2.replace("&", "&amp;"))).encode()
        net = {root_url: w, u1: xsd("urn:one", "One"), u2: xsd("urn:two", "Two")}
        d = tempfile.mkdtemp(prefix="verif-c12-")
        try:
            for phase in ("cold", "warm"):
                meta = {"stream": "locations-differing-in-case", "first": u1, "second": u2, "phase": phase}
                ctx.case(common.canon(meta), True)
                client, err, store, tr = load(root_url, {}, net, None, None, suds.cache.DocumentCache(d), 0)
                if err is not None:
                    ctx.fail("two documents at locations differing in case do not load", meta, err, "a client")
                    break
                try:
                    got = [[k for k, _v in client.factory.create("{urn:one}One")],
                           [k for k, _v in client.factory.create("{urn:two}Two")]]
                except Exception as e:
                    got = "%s: %s" % (type(e).__name__, e)
                if got != [["mOne"], ["mTwo"]]:
                    ctx.fail("a document was served as another one whose location differs in case", meta, got,
                             [["mOne"], ["mTwo"]])
                if phase == "cold" and sorted(tr.opened) != sorted(net):
                    ctx.fail("documents at locations differing in case are not each fetched", meta, sorted(tr.opened), sorted(net))
                if phase == "warm" and tr.opened:
                    ctx.fail("a warm cache still goes to the transport", meta, tr.opened, [])
        finally:
            shutil.rmtree(d, ignore_errors=True)


def unresolved_imports_and_earlier_loads(ctx):
    """(a) an xsd:import that names only a namespace nobody supplies a document for resolves to nothing - the imports
    written after it are processed all the same; (b) what one load fetched for a namespace is that load's business: a
    later load (another WSDL, another transport) whose schema imports the namespace without a location fetches only
    what its own documents name."""
    XS = "http://www.w3.org/2001/XMLSchema"

    def wsdl(imports, ftype="y:T"):
        return ('<?xml version="1.0"?><wsdl:definitions targetNamespace="urn:w" xmlns:wsdl="%s" xmlns:w="urn:w" '
                'xmlns:t="urn:t" xmlns:y="urn:y" xmlns:soap="%s"><wsdl:types><xsd:schema xmlns:xsd="%s" targetNamespace="urn:t" '
                'elementFormDefault="qualified">%s<xsd:element name="f" type="%s"/></xsd:schema></wsdl:types>'
                '<wsdl:message name="fIn"><wsdl:part name="p" element="t:f"/></wsdl:message><wsdl:portType name="PT">'
                '<wsdl:operation name="f"><wsdl:input message="w:fIn"/></wsdl:operation></wsdl:portType>'
                '<wsdl:binding name="B" type="w:PT"><soap:binding style="document" '
                'transport="http://schemas.xmlsoap.org/soap/http"/><wsdl:operation name="f"><soap:operation '
                'soapAction="f"/><wsdl:input><soap:body use="literal"/></wsdl:input></wsdl:operation></wsdl:binding>'
                '<wsdl:service name="S"><wsdl:port name="P" binding="w:B"><soap:address location="http://x.invalid/"/>'
                '</wsdl:port></wsdl:service></wsdl:definitions>' % (IF.WSDLNS, IF.SOAPNS, XS, imports, ftype)).encode()

    def xsd(ns, tname, extra=""):
        return ('<xsd:schema xmlns:xsd="%s" targetNamespace="%s" elementFormDefault="qualified">%s<xsd:complexType name="%s">'
                '<xsd:sequence><xsd:element name="v" type="xsd:int"/></xsd:sequence></xsd:complexType></xsd:schema>'
                % (XS, ns, extra, tname)).encode()
    nothing = '<xsd:import namespace="urn:ext:nobody"/>'
    located = '<xsd:import namespace="urn:y" schemaLocation="http://docs.invalid/g/y.xsd"/>'
    for label, imports in (("unresolved-first", nothing + located), ("unresolved-last", located + nothing),
                           ("unresolved-between", nothing + located + nothing)):
        net = {"http://docs.invalid/g/root.wsdl": wsdl(imports), "http://docs.invalid/g/y.xsd": xsd("urn:y", "T")}
        meta = {"stream": "unresolved-imports", "order": label}
        ctx.case(common.canon(meta), True)
        client, err, store, tr = load("http://docs.invalid/g/root.wsdl", {}, net)
        try:
            got = [err, sorted(set(tr.opened)), [k for k, _v in client.factory.create("{urn:y}T")] if client else None]
        except Exception as e:
            got = [err, sorted(set(tr.opened)), "%s: %s" % (type(e).__name__, e)]
        if got != [None, sorted(net), ["v"]]:
            ctx.fail("an import that resolves to nothing kept the imports after it from being processed", meta, got,
                     [None, sorted(net), ["v"]])
    # (b) two loads, one after the other, in this process
    net1 = {"http://docs.invalid/one/root.wsdl": wsdl('<xsd:import namespace="urn:y" schemaLocation="http://docs.invalid/one/y.xsd"/>'),
            "http://docs.invalid/one/y.xsd": xsd("urn:y", "T")}
    net2 = {"http://docs.invalid/two/root.wsdl": wsdl('<xsd:import namespace="urn:z" schemaLocation="http://docs.invalid/two/z.xsd"/>',
                                                       "z:Z").replace(b'xmlns:y="urn:y"', b'xmlns:z="urn:z"'),
            "http://docs.invalid/two/z.xsd": xsd("urn:z", "Z", '<xsd:import namespace="urn:y"/>')}
    meta = {"stream": "earlier-loads"}
    ctx.case(common.canon(meta), True)
    c1, err1, _s1, tr1 = load("http://docs.invalid/one/root.wsdl", {}, net1)
    c2, err2, _s2, tr2 = load("http://docs.invalid/two/root.wsdl", {}, net2)
    types2 = None
    if c2 is not None:
        try:
            c2.factory.create("{urn:y}T")
            types2 = "urn:y types present"
        except Exception as e:
            types2 = type(e).__name__
    got = [err1, err2, sorted(set(tr2.opened)), types2]
    want = [None, None, sorted(net2), "TypeNotFound"]
    if got != want:
        ctx.fail("a load fetched (or used) a document that only an earlier load of this process had named", meta, got, want)


def doctor_imports_and_inherited_prefixes(ctx):
    """(a) an ImportDoctor import for a namespace the schema already imports from its own location adds no second
    place to fetch from, one without a location names no document; (b) a schema document pulled in by wsdl:import with
    the namespace of an inline block binds a prefix that wsdl:definitions binds to another namespace and the inline
    block uses: every document is fetched once and each QName keeps its meaning (D54 across documents)."""
    import suds.client
    import suds.xsd.doctor
    XS = "http://www.w3.org/2001/XMLSchema"
    own = ('<xsd:schema xmlns:xsd="%s" targetNamespace="urn:own" elementFormDefault="qualified"><xsd:element name="o" '
           'type="xsd:string"/></xsd:schema>' % XS).encode()

    def wsdl(defs_attrs, wimport, inline):
        return ('<?xml version="1.0"?><wsdl:definitions targetNamespace="urn:w" xmlns:wsdl="%s" xmlns:w="urn:w" xmlns:t="urn:t" '
                'xmlns:soap="%s"%s>%s<wsdl:types>%s</wsdl:types><wsdl:message name="fIn"><wsdl:part name="p" element="t:f"/>'
                '</wsdl:message><wsdl:portType name="PT"><wsdl:operation name="f"><wsdl:input message="w:fIn"/></wsdl:operation>'
                '</wsdl:portType><wsdl:binding name="B" type="w:PT"><soap:binding style="document" '
                'transport="http://schemas.xmlsoap.org/soap/http"/><wsdl:operation name="f"><soap:operation soapAction="f"/>'
                '<wsdl:input><soap:body use="literal"/></wsdl:input></wsdl:operation></wsdl:binding><wsdl:service name="S">'
                '<wsdl:port name="P" binding="w:B"><soap:address location="http://x.invalid/"/></wsdl:port></wsdl:service>'
                '</wsdl:definitions>' % (IF.WSDLNS, IF.SOAPNS, defs_attrs, wimport, inline)).encode()
    inline1 = ('<xsd:schema xmlns:xsd="%s" xmlns:o="urn:own" targetNamespace="urn:t" elementFormDefault="qualified">%%s'
               '<xsd:element name="f"><xsd:complexType><xsd:sequence><xsd:element ref="o:o"/></xsd:sequence></xsd:complexType>'
               '</xsd:element></xsd:schema>' % XS)
    filtered = suds.xsd.doctor.Import("urn:own", "http://docs.invalid/elsewhere/own-by-doctor.xsd")
    filtered.filter.add("urn:own")
    filtered.filter.add("urn:t")
    for label, decl, imp, want_urls in (
            # (a filter that lists the imported namespace itself: a schema never gets an import of its own namespace)
            ("doctor-filter-names-own-namespace", '<xsd:import namespace="urn:own" schemaLocation="http://docs.invalid/d/own.xsd"/>',
             filtered, ["http://docs.invalid/d/own.xsd", "http://docs.invalid/d/root.wsdl"]),
            ("doctor-next-to-own-import", '<xsd:import namespace="urn:own" schemaLocation="http://docs.invalid/d/own.xsd"/>',
             suds.xsd.doctor.Import("urn:own", "http://docs.invalid/elsewhere/own-by-doctor.xsd"),
             ["http://docs.invalid/d/own.xsd", "http://docs.invalid/d/root.wsdl"]),
            ("doctor-without-location", '<xsd:import namespace="urn:own" schemaLocation="http://docs.invalid/d/own.xsd"/>',
             suds.xsd.doctor.Import("http://docs.invalid/ns-only"),
             ["http://docs.invalid/d/own.xsd", "http://docs.invalid/d/root.wsdl"])):
        net = {"http://docs.invalid/d/root.wsdl": wsdl("", "", inline1 % decl), "http://docs.invalid/d/own.xsd": own,
               "http://docs.invalid/elsewhere/own-by-doctor.xsd": own.replace(b'name="o"', b'name="other"')}
        meta = {"stream": "doctor-imports", "case": label}
        ctx.case(common.canon(meta), True)
        tr = DG.GraphTransport(net)
        try:
            c = suds.client.Client("http://docs.invalid/d/root.wsdl", transport=tr, cache=None, nosend=True,
                                   doctor=suds.xsd.doctor.ImportDoctor(imp))
            body = xmlread.find1(xmlread.parse(wsdlkit.envelope_bytes(c.service.f("v"))), "Body")
            got = [None, sorted(set(str(u) for u in tr.opened)), [list(k["name"]) for k in body["children"][0]["children"]]]
        except Exception as e:
            got = ["%s: %s" % (type(e).__name__, e), sorted(set(str(u) for u in tr.opened)), None]
        if got != [None, want_urls, [["urn:own", "o"]]]:
            ctx.fail("a doctor's import made the load fetch a document the graph does not name (or changed what loads)", meta,
                     got, [None, want_urls, [["urn:own", "o"]]])
    # (b)
    types = ('<xsd:schema xmlns:xsd="%s" xmlns:pa="urn:t" targetNamespace="urn:t" elementFormDefault="qualified">'
             '<xsd:complexType name="T"><xsd:sequence><xsd:element name="v" type="xsd:int"/></xsd:sequence></xsd:complexType>'
             '<xsd:element name="g" type="pa:T"/></xsd:schema>' % XS).encode()
    inline2 = ('<xsd:schema xmlns:xsd="%s" targetNamespace="urn:t" elementFormDefault="qualified"><xsd:import namespace="urn:own" '
               'schemaLocation="http://docs.invalid/d/own.xsd"/><xsd:element name="f"><xsd:complexType><xsd:sequence>'
               '<xsd:element ref="pa:o"/></xsd:sequence></xsd:complexType></xsd:element></xsd:schema>' % XS)
    for order in ("import-first", "types-first"):
        wimp = '<wsdl:import namespace="urn:t" location="http://docs.invalid/d/sub/types.xsd"/>'
        net = {"http://docs.invalid/d/root.wsdl": wsdl(' xmlns:pa="urn:own"', wimp, inline2),
               "http://docs.invalid/d/own.xsd": own, "http://docs.invalid/d/sub/types.xsd": types}
        if order == "types-first":
            net["http://docs.invalid/d/root.wsdl"] = net["http://docs.invalid/d/root.wsdl"].replace(
                wimp.encode(), b"", 1).replace(b"</wsdl:types>", b"</wsdl:types>" + wimp.encode(), 1)
        meta = {"stream": "inherited-prefix-across-documents", "order": order}
        ctx.case(common.canon(meta), True)
        client, err, store, tr = load("http://docs.invalid/d/root.wsdl", {}, net)
        try:
            body = xmlread.find1(xmlread.parse(wsdlkit.envelope_bytes(client.service.f("v"))), "Body") if client else None
            got = [err, sorted(set(str(u) for u in tr.opened)),
                   None if body is None else [list(k["name"]) for k in body["children"][0]["children"]],
                   None if client is None else [k for k, _v in client.factory.create("{urn:t}T")]]
        except Exception as e:
            got = [err, sorted(set(str(u) for u in tr.opened)), "%s: %s" % (type(e).__name__, e), None]
        if got != [None, sorted(net), [["urn:own", "o"]], ["v"]]:
            ctx.fail("a prefix the inline schema inherits changed its meaning when a document of the same namespace was "
                     "consolidated with it", meta, got, [None, sorted(net), [["urn:own", "o"]], ["v"]])


def same_name_element_and_type(ctx):
    """A global element and the named type it has share one name (element Foo of type Foo - a common layout), the type
    living in an included / same-namespace-imported document: the same client as the single document."""
    T = wsdlkit.TNS
    tdecl = ('<xsd:complexType name="Foo"><xsd:sequence><xsd:element name="a" type="xsd:string"/><xsd:element name="n" '
             'type="x:Bar" minOccurs="0"/></xsd:sequence></xsd:complexType><xsd:complexType name="Bar"><xsd:sequence>'
             '<xsd:element name="b" type="xsd:int"/></xsd:sequence></xsd:complexType>')
    edecl = '<xsd:element name="Foo" type="x:Foo"/><xsd:element name="Bar" type="x:Bar"/>'
    single = wsdlkit.wsdl_doc(tdecl + edecl, "Foo", None)
    ref = wsdlkit.envelope_bytes(wsdlkit.client(single, nosend=True).service.f("va", {"b": 3}))
    types_doc = ('<xsd:schema xmlns:xsd="http://www.w3.org/2001/XMLSchema" xmlns:x="%s" targetNamespace="%s" '
                 'elementFormDefault="qualified">%s</xsd:schema>' % (T, T, tdecl)).encode()
    variants = {
        "types-included": (wsdlkit.wsdl_doc('<xsd:include schemaLocation="suds://types.xsd"/>' + edecl, "Foo", None),
                           {"types.xsd": types_doc}),
        "types-included-after": (wsdlkit.wsdl_doc(edecl.replace("<xsd:element", '<xsd:include schemaLocation="suds://types.xsd"/>'
                                                                 "<xsd:element", 1), "Foo", None), {"types.xsd": types_doc}),
        # (the other direction - included elements that need the includer's types - is known finding D35 a)
        # a global attribute of the including schema has the name of a global element of the included document
        "attribute-and-element-share-a-name": (
            wsdlkit.wsdl_doc('<xsd:include schemaLocation="suds://full.xsd"/><xsd:attribute name="Foo" type="xsd:string"/>'
                             '<xsd:attribute name="Bar" type="xsd:string"/>', "Foo", None),
            {"full.xsd": types_doc.replace(b"</xsd:schema>", edecl.encode() + b"</xsd:schema>")}),
        "types-imported-same-namespace": (wsdlkit.wsdl_doc('<xsd:import namespace="%s" schemaLocation="suds://types.xsd"/>' % T
                                                           + edecl, "Foo", None), {"types.xsd": types_doc}),
    }
    for name, (main, extra) in variants.items():
        meta = {"stream": "same-name-element-and-type", "variant": name}
        ctx.case(common.canon(meta), True)
        try:
            got = wsdlkit.envelope_bytes(wsdlkit.client(main, extra_docs=extra, nosend=True).service.f("va", {"b": 3}))
        except Exception as e:
            ctx.fail("a partitioned WSDL does not load although its single-document form does", meta,
                     "%s: %s" % (type(e).__name__, str(e)[:200]), "the same client as the single document")
            continue
        if xmlread.infoset(xmlread.parse(got)) != xmlread.infoset(xmlread.parse(ref)):
            ctx.fail("the partitioned WSDL yields a different client than the single document", meta, got.decode(),
                     ref.decode())


def wsdl_then_xsd_imports(ctx):
    """A root WSDL that wsdl:imports another WSDL (which has <types> of its own) AND an XSD document, in either
    order: everything is loaded and built."""
    W, S, X = IF.WSDLNS, IF.SOAPNS, "http://www.w3.org/2001/XMLSchema"
    sub = ('<wsdl:definitions targetNamespace="urn:sub" xmlns:wsdl="%s" xmlns:xsd="%s"><wsdl:types><xsd:schema '
           'targetNamespace="urn:s" elementFormDefault="qualified"><xsd:element name="e" type="xsd:string"/></xsd:schema>'
           '</wsdl:types></wsdl:definitions>' % (W, X)).encode()
    xsd = ('<xsd:schema xmlns:xsd="%s" targetNamespace="urn:t" elementFormDefault="qualified"><xsd:element name="f" '
           'type="xsd:string"/></xsd:schema>' % X).encode()
    imps = {"w": '<wsdl:import namespace="urn:sub" location="sub.wsdl"/>',
            "x": '<wsdl:import namespace="urn:t" location="t.xsd"/>'}
    for order in ("wx", "xw", "x", "wxw"):
        root = ('<wsdl:definitions targetNamespace="urn:w" xmlns:wsdl="%s" xmlns:w="urn:w" xmlns:t="urn:t" xmlns:s="urn:s" '
                'xmlns:soap="%s">%s<wsdl:message name="fIn"><wsdl:part name="p" element="t:f"/></wsdl:message>'
                '<wsdl:portType name="PT"><wsdl:operation name="f"><wsdl:input message="w:fIn"/></wsdl:operation>'
                '</wsdl:portType><wsdl:binding name="B" type="w:PT"><soap:binding style="document" '
                'transport="http://schemas.xmlsoap.org/soap/http"/><wsdl:operation name="f"><soap:operation '
                'soapAction="f"/><wsdl:input><soap:body use="literal"/></wsdl:input></wsdl:operation></wsdl:binding>'
                '<wsdl:service name="S"><wsdl:port name="P" binding="w:B"><soap:address location="http://x.invalid/"/>'
                '</wsdl:port></wsdl:service></wsdl:definitions>' % (W, S, "".join(imps[k] for k in order))).encode()
        net = {"http://d.invalid/root.wsdl": root, "http://d.invalid/sub.wsdl": sub, "http://d.invalid/t.xsd": xsd}
        meta = {"stream": "wsdl-then-xsd-imports", "order": order}
        ctx.case(common.canon(meta), True)
        client, err, store, tr = load("http://d.invalid/root.wsdl", {}, net)
        if err is None:
            try:
                env = client.service.f("v").envelope
                ok = b">v<" in env
                if "w" in order:
                    client.factory.create("{urn:s}e")
            except Exception as e:
                ok, err = False, "%s: %s" % (type(e).__name__, e)
        if err is not None or not ok:
            ctx.fail("a WSDL that imports another WSDL and an XSD document does not load completely", meta, err,
                     "a client whose operation uses the imported schema")


def included_needs_includer(ctx):
    meta = {"stream": "included-needs-includer"}
    ctx.case(common.canon(meta), True)
    client, err, store, tr = d35_load()
    if err is not None:
        ctx.fail("an included schema document that extends a type of its includer does not load", meta, err,
                 "the same client as the single document")


def widen(ctx):
    ctx.tier = "thorough"
    run(ctx)


def same_namespace_in_two_documents():
    """D53 witness: a schema document pulled in by wsdl:import from another folder, with the target namespace of an
    inline schema block of the WSDL, xsd:includes a neighbour by a relative location. -> (error or None, fetched)"""
    XS = "http://www.w3.org/2001/XMLSchema"
    root = ('<?xml version="1.0"?><wsdl:definitions targetNamespace="urn:w" xmlns:wsdl="%s" xmlns:w="urn:w" xmlns:t="urn:t" '
            'xmlns:soap="%s"><wsdl:import namespace="urn:t" location="http://docs.invalid/a/sub/types.xsd"/>'
            '<wsdl:types><xsd:schema xmlns:xsd="%s" targetNamespace="urn:t" elementFormDefault="qualified">'
            '<xsd:element name="f" type="t:C"/></xsd:schema></wsdl:types>'
            '<wsdl:message name="fIn"><wsdl:part name="p" element="t:f"/></wsdl:message><wsdl:portType name="PT">'
            '<wsdl:operation name="f"><wsdl:input message="w:fIn"/></wsdl:operation></wsdl:portType>'
            '<wsdl:binding name="B" type="w:PT"><soap:binding style="document" '
            'transport="http://schemas.xmlsoap.org/soap/http"/><wsdl:operation name="f"><soap:operation soapAction="f"/>'
            '<wsdl:input><soap:body use="literal"/></wsdl:input></wsdl:operation></wsdl:binding><wsdl:service name="S">'
            '<wsdl:port name="P" binding="w:B"><soap:address location="http://x.invalid/"/></wsdl:port></wsdl:service>'
            '</wsdl:definitions>' % (IF.WSDLNS, IF.SOAPNS, XS)).encode()
    types = ('<xsd:schema xmlns:xsd="%s" xmlns:t="urn:t" targetNamespace="urn:t" elementFormDefault="qualified">'
             '<xsd:include schemaLocation="part.xsd"/><xsd:complexType name="C"><xsd:sequence><xsd:element name="v" '
             'type="t:D"/></xsd:sequence></xsd:complexType></xsd:schema>' % XS).encode()
    part = ('<xsd:schema xmlns:xsd="%s" targetNamespace="urn:t" elementFormDefault="qualified"><xsd:simpleType name="D">'
            '<xsd:restriction base="xsd:int"/></xsd:simpleType></xsd:schema>' % XS).encode()
    net = {"http://docs.invalid/a/root.wsdl": root, "http://docs.invalid/a/sub/types.xsd": types,
           "http://docs.invalid/a/sub/part.xsd": part}
    client, err, store, tr = load("http://docs.invalid/a/root.wsdl", {}, net)
    if err is None:
        try:
            if [k for k, _v in client.factory.create("{urn:t}C")] != ["v"]:
                err = "type C incomplete"
        except Exception as e:
            err = "%s: %s" % (type(e).__name__, e)
    return err, sorted(str(u) for u in tr.opened), sorted(net)


def same_namespace_two_documents(ctx):
    meta = {"stream": "same-namespace-in-two-documents"}
    ctx.case(common.canon(meta), True)
    err, opened, want = same_namespace_in_two_documents()
    if err is not None or opened != want:
        ctx.fail("a namespace split over an inline schema and a wsdl:import-ed document with a relative include does "
                 "not load from the locations the documents name", meta, [err, opened], [None, want])


def wsdl_cycle_relative_location():
    """D52 witness: the root carries <types> whose schema imports a RELATIVE location, and wsdl:imports a document in
    another folder that imports the root back; -> the load error, None when it loads."""
    xsd = (b'<xsd:schema xmlns:xsd="http://www.w3.org/2001/XMLSchema" targetNamespace="urn:t" '
           b'elementFormDefault="qualified"><xsd:element name="f" type="xsd:int"/></xsd:schema>')
    aux = ('<?xml version="1.0"?><wsdl:definitions targetNamespace="urn:w" xmlns:wsdl="%s"><wsdl:import namespace="urn:w" '
           'location="../root.wsdl"/></wsdl:definitions>' % IF.WSDLNS).encode()
    w = ('<?xml version="1.0"?><wsdl:definitions targetNamespace="urn:w" xmlns:wsdl="%s" xmlns:w="urn:w" '
         'xmlns:t="urn:t" xmlns:soap="%s" xmlns:xsd="http://www.w3.org/2001/XMLSchema"><wsdl:import namespace="urn:w" '
         'location="x/aux.wsdl"/><wsdl:types><xsd:schema targetNamespace="urn:stub"><xsd:import namespace="urn:t" '
         'schemaLocation="a/types.xsd"/></xsd:schema></wsdl:types>'
         '<wsdl:message name="fIn"><wsdl:part name="p" element="t:f"/></wsdl:message><wsdl:portType name="PT">'
         '<wsdl:operation name="f"><wsdl:input message="w:fIn"/></wsdl:operation></wsdl:portType>'
         '<wsdl:binding name="B" type="w:PT"><soap:binding style="document" '
         'transport="http://schemas.xmlsoap.org/soap/http"/><wsdl:operation name="f"><soap:operation '
         'soapAction="f"/><wsdl:input><soap:body use="literal"/></wsdl:input></wsdl:operation></wsdl:binding>'
         '<wsdl:service name="S"><wsdl:port name="P" binding="w:B"><soap:address location="http://x.invalid/"/>'
         '</wsdl:port></wsdl:service></wsdl:definitions>' % (IF.WSDLNS, IF.SOAPNS)).encode()
    client, err, store, tr = load("http://docs.invalid/root.wsdl", {},
                                  {"http://docs.invalid/root.wsdl": w, "http://docs.invalid/x/aux.wsdl": aux,
                                   "http://docs.invalid/a/types.xsd": xsd})
    return err


def witness(ctx, k):
    kind = (k.get("witness") or {}).get("kind")
    if kind == "included-needs-includer":
        return d35_load()[1] is not None
    if kind == "wsdl-then-xsd":
        c2 = common.Ctx(ctx.prop_id, "quick", 0, common.Driver(False), [])
        wsdl_then_xsd_imports(c2)
        return bool(c2.failures)
    if kind == "wsdl-cycle-base-url":
        return wsdl_cycle_relative_location() is not None
    if kind == "consolidated-relative-location":
        return same_namespace_in_two_documents()[0] is not None
    if kind == "wimport-xsd-base-url":
        xsd = (b'<xsd:schema xmlns:xsd="http://www.w3.org/2001/XMLSchema" targetNamespace="urn:t" '
               b'elementFormDefault="qualified"><xsd:include schemaLocation="more.xsd"/></xsd:schema>')
        more = (b'<xsd:schema xmlns:xsd="http://www.w3.org/2001/XMLSchema" targetNamespace="urn:t" '
                b'elementFormDefault="qualified"><xsd:element name="f" type="xsd:int"/></xsd:schema>')
        w = ('<?xml version="1.0"?><wsdl:definitions targetNamespace="urn:w" xmlns:wsdl="%s" xmlns:w="urn:w" '
             'xmlns:t="urn:t" xmlns:soap="%s"><wsdl:import namespace="urn:t" location="a/b/types.xsd"/>'
             '<wsdl:message name="fIn"><wsdl:part name="p" element="t:f"/></wsdl:message><wsdl:portType name="PT">'
             '<wsdl:operation name="f"><wsdl:input message="w:fIn"/></wsdl:operation></wsdl:portType>'
             '<wsdl:binding name="B" type="w:PT"><soap:binding style="document" '
             'transport="http://schemas.xmlsoap.org/soap/http"/><wsdl:operation name="f"><soap:operation '
             'soapAction="f"/><wsdl:input><soap:body use="literal"/></wsdl:input></wsdl:operation></wsdl:binding>'
             '<wsdl:service name="S"><wsdl:port name="P" binding="w:B"><soap:address location="http://x.invalid/"/>'
             '</wsdl:port></wsdl:service></wsdl:definitions>' % (IF.WSDLNS, IF.SOAPNS)).encode()
        client, err, store, tr = load("http://docs.invalid/root.wsdl", {},
                                      {"http://docs.invalid/root.wsdl": w, "http://docs.invalid/a/b/types.xsd": xsd,
                                       "http://docs.invalid/a/b/more.xsd": more})
        return err is not None
    return None


def replay(ctx, payload):
    f = payload.get("failure") or (payload.get("disagreement") or {})
    m = f.get("input") or {}
    if "iface" not in m:
        return {"fails": bool(f), "recorded": f}
    I, single, docs, root, plan, decoys, st, net = build_case(m["iface"])
    client, err, store, tr = load(root, st, net, m.get("fault_at"), m.get("fault_kind"))
    return {"fails": bool(f), "load_error": err, "plan": plan, "asked": store.asked, "transport": tr.opened,
            "documents": {u: d.decode("utf-8", "replace")[:4000] for u, d in docs.items()}}
